// Dynamic search / tie for C15: a pairwise method matrix (every pair of public methods of every
// thread-safe type concurrently on one instance, readers with writers) plus a mixed stress per type,
// executed under the Go race detector.
//
//	races -mode gen -tier quick|thorough -out ops.txt
//	races -mode run -ops ops.txt -out trace.txt -stats stats.json
//	races -mode one -case "<Type> <M1> <M2> <iters>"       (one workload in this process)
//
// Cases (one line of ops.txt each, all on ONE instance per round, fresh instance per round):
//
//	new pair <Type> <M1> <M2> <iters>      2-4 workers, half call M1, half M2 (last round: all variants)
//	new stress <Type> <iters>              4 workers cycling through all methods
//	new seq <Type> <iters>                 1-2 writers running scripted/random SEQUENCES of the mutating
//	                                       methods (delete-tail-then-append, fill-then-drain, …), readers
//	                                       running every read-only method incl. boundary variants
//	new matrix <Type> <M1,M2,...>          the methods of the type the pair matrix goes through (checked to exist on the
//	                                       instance); the driver (model mode) compares the list with the public
//	                                       entries of the regenerated access table: a public method the matrix never
//	                                       exercises is a broken obligation
//	new types <T1,T2,...>                  the types the matrix covers (same comparison, per type)
//	new fresh <Type> <Form> <rounds>       first uses: per round a NEW, unprimed instance built in construction form
//	                                       <Form> (each constructor, the literal / zero value where supported, each
//	                                       configuration with its own code path); 2-4 workers make their first 1-3
//	                                       calls of one method pair on it, the pairs of the matrix in turn.  The
//	                                       pair/stress/seq/directed cases also go through the forms, one per round
//	new directed <Type> <M1> <M2> <iters>  (directed search, emitted by checklib/props/C15.py when the
//	                                       access-table obligation breaks) all variants of one method
//	                                       against sequences "other mutators as preparation, then the other"
//
// `run` executes every case as a subprocess of this binary (`-mode one`) with
// GORACE="halt_on_error=0 exitcode=66" (all distinct reports of the case are collected and the one whose
// frames lie in ekit code is preferred over a consequent report on the payload), and writes one line
// per case:   <case> => clean | race:<frame>|<frame> | panic:… | hang
//
// Values travel through the containers as *item whose field is written plainly before the hand-off
// and read plainly after it: a missing happens-before edge on the hand-off is a report, too.
// The harness itself synchronises the workers only by a start barrier and a final WaitGroup.
package main

import (
	"bytes"
	"context"
	"encoding/json"
	"errors"
	"flag"
	"fmt"
	"os"
	"os/exec"
	"path/filepath"
	"regexp"
	"runtime"
	"sort"
	"strconv"
	"strings"
	"sync"
	"time"

	"github.com/ecodeclub/ekit/bean/copier"
	"github.com/ecodeclub/ekit/bean/option"
	"github.com/ecodeclub/ekit/list"
	"github.com/ecodeclub/ekit/pool"
	"github.com/ecodeclub/ekit/queue"
	"github.com/ecodeclub/ekit/retry"
	"github.com/ecodeclub/ekit/syncx"
	"github.com/ecodeclub/ekit/syncx/atomicx"
	"github.com/ecodeclub/ekit/zzverif/vlib"
)

// ---------------------------------------------------------------------------------------------
// payload

type item struct{ v int }

func mk(v int) *item { it := &item{}; it.v = v; return it }

// mkz is mk, except that every fifth value is the zero value of *item (a nil pointer): a legitimate value
// for every container here, which must travel through the same synchronised paths as any other
func mkz(v int) *item {
	if v%5 == 4 {
		return nil
	}
	return mk(v)
}

var sink int

func use(it *item) {
	if it != nil && it.v == -12345 {
		sink++
	}
}

type delayItem struct {
	at time.Time
	it *item
}

func (d delayItem) Delay() time.Duration { return time.Until(d.at) }

type srcT struct {
	A int
	B string
	C innerT
	D *int
}
type innerT struct{ X, Y int }
type dstT struct {
	A int
	B string
	C innerT
	D *int
}

// ---------------------------------------------------------------------------------------------
// the registry: per type a constructor returning the methods as closures (g = worker, i = iteration)

type op func(g, i int)

type inst struct {
	ops   map[string]op
	close func()
	trim  func() // keeps the instance small during long writer sequences (called by the writer itself)
	// prime: the calls the constructing goroutine makes on the instance before it is shared (prefill, Start, …).
	// The pair/stress/seq/directed cases prime; the `fresh` cases do not: there the FIRST uses of the
	// instance come from the concurrent workers (lazy initialisation is part of the thread-safe surface)
	prime func()
}

// form: one supported way of building an instance of a thread-safe type - each constructor, the struct
// literal / zero value where the type documents (or its own tests use) it, and the configurations that
// select different code paths (bounded/unbounded, the kind of Locker, the wrapped implementation).
// mk returns the instance as built, NOT primed.
type form struct {
	name string
	mk   func(m1, m2 string) *inst
}

type typ struct {
	name    string
	methods []string
	// light: iterations are scaled down (blocking calls with deadlines, goroutine-starting calls)
	scale int
	forms []form
}

// build returns an instance in construction form k (mod the number of forms), primed or not
func (t *typ) build(k int, m1, m2 string, primed bool) *inst {
	f := t.forms[((k%len(t.forms))+len(t.forms))%len(t.forms)]
	in := f.mk(m1, m2)
	if primed && in.prime != nil {
		in.prime()
	}
	return in
}

// formOffset spreads the construction forms over the rounds of a case: round r of a case on (m1, m2) uses
// form r+formOffset, so every form is used by some round of every pair when there are at most `rounds` forms
func formOffset(m1, m2 string) int { return len(m1) + len(m2) }

func (t *typ) formNames() []string {
	out := make([]string, len(t.forms))
	for i, f := range t.forms {
		out[i] = f.name
	}
	return out
}

func (t *typ) formIndex(name string) int {
	for i, f := range t.forms {
		if f.name == name {
			return i
		}
	}
	return -1
}

func short(d time.Duration) (context.Context, context.CancelFunc) {
	return context.WithTimeout(context.Background(), d)
}

func listTrim(l list.List[*item]) func() {
	return func() {
		for l.Len() > 96 {
			_, _ = l.Delete(l.Len() - 1)
		}
	}
}

func listOps(l list.List[*item]) map[string]op {
	return map[string]op{
		"Get":    func(g, i int) { v, _ := l.Get(i % 5); use(v) },
		"Append": func(g, i int) { _ = l.Append(mk(i)) },
		"Add":    func(g, i int) { _ = l.Add(i%3, mk(i)) },
		"Set":    func(g, i int) { _ = l.Set(i%4, mk(i)) },
		"Delete": func(g, i int) { v, _ := l.Delete(i % 3); use(v) },
		"Len":    func(g, i int) { _ = l.Len() },
		"Cap":    func(g, i int) { _ = l.Cap() },
		"Range": func(g, i int) {
			_ = l.Range(func(_ int, t *item) error { use(t); return nil })
		},
		"AsSlice": func(g, i int) {
			for _, t := range l.AsSlice() {
				use(t)
			}
		},
		// variants (key "Method#variant"): boundary indices and capacity changes
		"Get#last":    func(g, i int) { v, _ := l.Get(l.Len() - 1); use(v) },
		"Get#first":   func(g, i int) { v, _ := l.Get(0); use(v) },
		"Append#many": func(g, i int) { _ = l.Append(mk(i), mk(i+1), mk(i+2)) },
		"Append#none": func(g, i int) { _ = l.Append() },
		"Add#end":     func(g, i int) { _ = l.Add(l.Len(), mk(i)) },
		"Add#front":   func(g, i int) { _ = l.Add(0, mk(i)) },
		"Set#last":    func(g, i int) { _ = l.Set(l.Len()-1, mk(i)) },
		"Delete#last": func(g, i int) { v, _ := l.Delete(l.Len() - 1); use(v) },
		"Delete#first": func(g, i int) {
			if l.Len() > 4 {
				v, _ := l.Delete(0)
				use(v)
			}
		},
		"Range#slow": func(g, i int) { // a reader that keeps its snapshot for a while
			n := 0
			_ = l.Range(func(_ int, t *item) error {
				use(t)
				if n++; n%3 == 0 && n < 30 {
					runtime.Gosched()
				}
				return nil
			})
		},
	}
}

// mutators: the methods of a type that change its state (the others are its readers); scripts: short
// writer sequences that change capacity / shape in ways single calls do not (delete the tail then
// append, fill to capacity then drain, …).  Used by the `seq` and `directed` cases.
var mutators = map[string][]string{
	"CopyOnWriteArrayList":            {"Append", "Add", "Set", "Delete"},
	"ConcurrentList":                  {"Append", "Add", "Set", "Delete"},
	"ConcurrentLinkedQueue":           {"Enqueue", "Dequeue"},
	"ConcurrentArrayBlockingQueue":    {"Enqueue", "Dequeue"},
	"ConcurrentLinkedBlockingQueue":   {"Enqueue", "Dequeue"},
	"DelayQueue":                      {"Enqueue", "Dequeue"},
	"ConcurrentPriorityQueue":         {"Enqueue", "Dequeue"},
	"Cond":                            {"Signal", "Broadcast"},
	"Map":                             {"Store", "LoadOrStore", "LoadOrStoreFunc", "LoadAndDelete", "Delete"},
	"LimitPool":                       {"Get", "Put"},
	"Pool":                            {"Get", "Put"},
	"SegmentKeysLock":                 {"Lock", "TryLock"},
	"Value":                           {"Store", "Swap", "CompareAndSwap"},
	"OnDemandBlockTaskPool":           {"Submit", "Start", "Shutdown", "ShutdownNow"},
	"ExponentialBackoffRetryStrategy": {"Next"},
	"FixedIntervalRetryStrategy":      {"Next"},
	"ReflectCopier":                   {},
}

var listScripts = [][]string{
	{"Delete#last", "Append"}, {"Delete#last", "Append#many"}, {"Delete#last", "Add#end"},
	{"Delete#last", "Delete#last", "Append#many"}, {"Set#last", "Delete#last"}, {"Append#many", "Delete#last", "Append"},
	{"Add#front", "Delete#first"}, {"Delete#last", "Set#last"}, {"Append#none", "Append"},
}

var scripts = map[string][][]string{
	"CopyOnWriteArrayList":          listScripts,
	"ConcurrentList":                listScripts,
	"ConcurrentLinkedQueue":         {{"Enqueue", "Enqueue", "Dequeue", "Dequeue", "Dequeue"}, {"Dequeue", "Enqueue"}},
	"ConcurrentArrayBlockingQueue":  {{"Enqueue", "Enqueue", "Enqueue", "Enqueue", "Dequeue"}, {"Dequeue", "Dequeue", "Dequeue", "Enqueue"}},
	"ConcurrentLinkedBlockingQueue": {{"Enqueue", "Enqueue", "Enqueue", "Enqueue", "Dequeue"}, {"Dequeue", "Dequeue", "Dequeue", "Enqueue"}},
	"ConcurrentPriorityQueue":       {{"Dequeue", "Enqueue"}, {"Enqueue", "Enqueue", "Dequeue", "Dequeue", "Dequeue"}},
	"Map":                           {{"Delete", "Store"}, {"LoadAndDelete", "LoadOrStore"}, {"Store", "Store", "Delete"}},
	"Value":                         {{"Store", "Swap"}, {"CompareAndSwap", "Store"}},
}

// variants returns the ops of a method: the plain one and every "Method#variant", in a fixed order
func variants(in *inst, method string) []op {
	var keys []string
	for k := range in.ops {
		if k == method || strings.HasPrefix(k, method+"#") {
			keys = append(keys, k)
		}
	}
	sort.Strings(keys)
	out := make([]op, len(keys))
	for i, k := range keys {
		out[i] = in.ops[k]
	}
	return out
}

func isMutator(t *typ, method string) bool {
	for _, m := range mutators[t.name] {
		if m == method {
			return true
		}
	}
	return false
}

// cycle runs the given ops round-robin
func cycle(fs []op, offs int) op {
	return func(g, i int) { fs[(i+offs)%len(fs)](g, i) }
}

// writerSeq: one step per call, following scripts (half of the time) and random mutator variants;
// `must` (directed search) are the ops every sequence ends with, `prep` what may precede them.
func writerSeq(in *inst, t *typ, rng *vlib.Rng, prep []op, must []op) op {
	var queue []op
	sc := scripts[t.name]
	return func(g, i int) {
		if in.trim != nil && i%64 == 63 {
			in.trim()
		}
		if len(queue) == 0 {
			switch {
			case must != nil:
				for k := rng.Intn(3); k > 0 && len(prep) > 0; k-- {
					queue = append(queue, prep[rng.Intn(len(prep))])
				}
				queue = append(queue, must[rng.Intn(len(must))])
			case len(sc) > 0 && rng.Bool():
				for _, k := range sc[rng.Intn(len(sc))] {
					if f := in.ops[k]; f != nil {
						queue = append(queue, f)
					}
				}
			default:
				for k := 1 + rng.Intn(3); k > 0 && len(prep) > 0; k-- {
					queue = append(queue, prep[rng.Intn(len(prep))])
				}
			}
			if len(queue) == 0 {
				return
			}
		}
		f := queue[0]
		queue = queue[1:]
		f(g, i)
	}
}

var listMethods = []string{"Get", "Append", "Add", "Set", "Delete", "Len", "Cap", "Range", "AsSlice"}

func prefill(n int) []*item {
	out := make([]*item, n)
	for i := range out {
		out[i] = mk(i)
	}
	return out
}

func queueOps(enq func(ctx context.Context, t *item) error, deq func(ctx context.Context) (*item, error),
	length func() int, asSlice func() []*item) map[string]op {
	return map[string]op{
		"Enqueue": func(g, i int) {
			ctx, c := short(time.Millisecond)
			_ = enq(ctx, mk(i))
			c()
		},
		"Dequeue": func(g, i int) {
			ctx, c := short(time.Millisecond)
			if v, err := deq(ctx); err == nil {
				use(v) // no write: AsSlice may have handed the same element to a reader
			}
			c()
		},
		"Len": func(g, i int) { _ = length() },
		"AsSlice": func(g, i int) {
			for _, t := range asSlice() {
				use(t)
			}
		},
	}
}

// primeQueue: two elements, with a deadline (a queue of capacity 1 is full after the first)
func primeQueue(enq func(ctx context.Context, t *item) error) func() {
	return func() {
		for i := 0; i < 2; i++ {
			ctx, c := short(time.Millisecond)
			_ = enq(ctx, mk(i))
			c()
		}
	}
}

func condInst(c *syncx.Cond, l sync.Locker) *inst {
	shared := 0 // protected by l: the classic use of a condition variable
	return &inst{ops: map[string]op{
		"Wait": func(g, i int) {
			ctx, cancel := short(time.Millisecond)
			l.Lock()
			shared++
			_ = c.Wait(ctx)
			shared++
			l.Unlock()
			cancel()
		},
		"Signal":    func(g, i int) { c.Signal() },
		"Broadcast": func(g, i int) { c.Broadcast() },
	}}
}

func valueInst(v *atomicx.Value[*item]) *inst {
	return &inst{ops: map[string]op{
		"Load":  func(g, i int) { use(v.Load()) },
		"Store": func(g, i int) { v.Store(mk(i)) },
		"Swap":  func(g, i int) { use(v.Swap(mk(i))) },
		"CompareAndSwap": func(g, i int) {
			old := v.Load()
			_ = v.CompareAndSwap(old, mk(i))
		},
	}}
}

func cmpItem(a, b *item) int {
	switch {
	case a.v < b.v:
		return -1
	case a.v > b.v:
		return 1
	}
	return 0
}

func taskPoolInst(m1, m2 string, opts ...option.Option[pool.OnDemandBlockTaskPool]) *inst {
	p, err := pool.NewOnDemandBlockTaskPool(2, 8, opts...)
	if err != nil {
		panic(err)
	}
	return &inst{ops: map[string]op{
		"Submit": func(g, i int) {
			ctx, c := short(time.Millisecond)
			it := mk(i)
			_ = p.Submit(ctx, pool.TaskFunc(func(ctx context.Context) error { use(it); it.v++; return nil }))
			c()
		},
		"Start": func(g, i int) {
			// the first Start comes late enough for a States sampler that another worker has already
			// started on the still-created pool to have ticked (States is legal before Start): an access
			// of Start that is unordered with the sampler's reads shows only in this order
			if i == 0 {
				time.Sleep(1500 * time.Microsecond)
			}
			_ = p.Start()
		},
		"Shutdown":    func(g, i int) { _, _ = p.Shutdown() },
		"ShutdownNow": func(g, i int) { _, _ = p.ShutdownNow() },
		"States": func(g, i int) {
			ctx, c := short(2 * time.Millisecond)
			ch, err := p.States(ctx, 300*time.Microsecond)
			if err == nil {
				for range ch {
				}
			}
			c()
		},
	}, prime: func() {
		if m1 != "Start" && m2 != "Start" {
			_ = p.Start()
		}
	}, close: func() {
		_ = p.Start()
		done, err := p.Shutdown()
		if err == nil {
			select {
			case <-done:
			case <-time.After(2 * time.Second):
			}
		}
		_, _ = p.ShutdownNow()
	}}
}

func copierInst(withOptions bool) *inst {
	var c *copier.ReflectCopier[srcT, dstT]
	var err error
	if withOptions {
		c, err = copier.NewReflectCopier[srcT, dstT](copier.IgnoreFields("B"))
	} else {
		c, err = copier.NewReflectCopier[srcT, dstT]()
	}
	if err != nil {
		panic(err)
	}
	n := 5
	src := &srcT{A: 1, B: "b", C: innerT{X: 2, Y: 3}, D: &n}
	return &inst{ops: map[string]op{
		"Copy": func(g, i int) {
			if i%2 == 0 {
				_, _ = c.Copy(src)
			} else {
				_, _ = c.Copy(src, copier.IgnoreFields("A"))
			}
		},
		"CopyTo": func(g, i int) {
			var d dstT
			if i%2 == 0 {
				_ = c.CopyTo(src, &d, copier.IgnoreFields("D"))
			} else {
				_ = c.CopyTo(src, &d)
			}
		},
	}}
}

func types() []typ {
	cowInst := func(l *list.CopyOnWriteArrayList[*item], prime bool) *inst {
		in := &inst{ops: listOps(l), trim: listTrim(l)}
		if prime {
			in.prime = func() { _ = l.Append(prefill(6)...) }
		}
		return in
	}
	clistInst := func(inner list.List[*item]) *inst {
		l := &list.ConcurrentList[*item]{List: inner}
		return &inst{ops: listOps(l), trim: listTrim(l)}
	}
	abq := func(capacity int) func(_, _ string) *inst {
		return func(_, _ string) *inst {
			q := queue.NewConcurrentArrayBlockingQueue[*item](capacity)
			return &inst{ops: queueOps(q.Enqueue, q.Dequeue, q.Len, q.AsSlice), prime: primeQueue(q.Enqueue)}
		}
	}
	lbq := func(capacity int) func(_, _ string) *inst {
		return func(_, _ string) *inst {
			q := queue.NewConcurrentLinkedBlockingQueue[*item](capacity)
			return &inst{ops: queueOps(q.Enqueue, q.Dequeue, q.Len, q.AsSlice), prime: primeQueue(q.Enqueue)}
		}
	}
	cpq := func(capacity int) func(_, _ string) *inst {
		return func(_, _ string) *inst {
			q := queue.NewConcurrentPriorityQueue[*item](capacity, cmpItem)
			return &inst{ops: map[string]op{
				"Len":     func(g, i int) { _ = q.Len() },
				"Cap":     func(g, i int) { _ = q.Cap() },
				"Peek":    func(g, i int) { v, _ := q.Peek(); use(v) },
				"Enqueue": func(g, i int) { _ = q.Enqueue(mk(i % 17)) },
				"Dequeue": func(g, i int) { v, _ := q.Dequeue(); use(v) },
			}, prime: func() {
				for i := 0; i < 8; i++ {
					_ = q.Enqueue(mk(i * 3))
				}
			}}
		}
	}
	limitPool := func(maxTokens int) func(_, _ string) *inst {
		return func(_, _ string) *inst {
			p := syncx.NewLimitPool[*item](maxTokens, func() *item { return mk(7) })
			return &inst{ops: map[string]op{
				"Get": func(g, i int) {
					if v, ok := p.Get(); ok {
						use(v)
						v.v = i
						p.Put(v)
					}
				},
				"Put": func(g, i int) {
					if v, ok := p.Get(); ok {
						v.v = i
						p.Put(v)
					}
				},
			}}
		}
	}
	segLock := func(size uint32) func(_, _ string) *inst {
		return func(_, _ string) *inst {
			s := syncx.NewSegmentKeysLock(size)
			keys := []string{"a", "b", "c", ""} // the empty key is a key like any other
			guarded := make([]item, len(keys))  // guarded[k] is protected by the lock of keys[k]
			return &inst{ops: map[string]op{
				"Lock":  func(g, i int) { k := i % 4; s.Lock(keys[k]); guarded[k].v++; s.Unlock(keys[k]) },
				"RLock": func(g, i int) { k := i % 4; s.RLock(keys[k]); use(&guarded[k]); s.RUnlock(keys[k]) },
				"TryLock": func(g, i int) {
					k := i % 4
					if s.TryLock(keys[k]) {
						guarded[k].v++
						s.Unlock(keys[k])
					}
				},
				"TryRLock": func(g, i int) {
					k := i % 4
					if s.TryRLock(keys[k]) {
						use(&guarded[k])
						s.RUnlock(keys[k])
					}
				},
			}}
		}
	}
	expo := func(maxRetries int32) func(_, _ string) *inst {
		return func(_, _ string) *inst {
			s, err := retry.NewExponentialBackoffRetryStrategy(time.Millisecond, 8*time.Millisecond, maxRetries)
			if err != nil {
				panic(err)
			}
			return &inst{ops: map[string]op{"Next": func(g, i int) { _, _ = s.Next() }}}
		}
	}
	fixed := func(maxRetries int32) func(_, _ string) *inst {
		return func(_, _ string) *inst {
			s, err := retry.NewFixedIntervalRetryStrategy(time.Millisecond, maxRetries)
			if err != nil {
				panic(err)
			}
			return &inst{ops: map[string]op{"Next": func(g, i int) { _, _ = s.Next() }}}
		}
	}
	return []typ{
		{name: "CopyOnWriteArrayList", methods: listMethods, scale: 1, forms: []form{
			{"NewCopyOnWriteArrayListOf", func(_, _ string) *inst {
				return cowInst(list.NewCopyOnWriteArrayListOf[*item](prefill(6)), false)
			}},
			{"NewCopyOnWriteArrayList", func(_, _ string) *inst {
				return cowInst(list.NewCopyOnWriteArrayList[*item](), true)
			}},
		}},
		// ConcurrentList has no constructor: the literal around each List implementation
		{name: "ConcurrentList", methods: listMethods, scale: 1, forms: []form{
			{"literal:ArrayList", func(_, _ string) *inst { return clistInst(list.NewArrayListOf[*item](prefill(6))) }},
			{"literal:LinkedList", func(_, _ string) *inst { return clistInst(list.NewLinkedListOf[*item](prefill(6))) }},
		}},
		{name: "ConcurrentLinkedQueue", methods: []string{"Enqueue", "Dequeue"}, scale: 1, forms: []form{
			{"NewConcurrentLinkedQueue", func(_, _ string) *inst {
				q := queue.NewConcurrentLinkedQueue[*item]()
				return &inst{ops: map[string]op{
					"Enqueue": func(g, i int) { _ = q.Enqueue(mk(i)) },
					"Dequeue": func(g, i int) {
						if v, err := q.Dequeue(); err == nil {
							use(v)
							v.v++ // the consumer owns the value now
						}
					},
				}, prime: func() {
					for i := 0; i < 8; i++ {
						_ = q.Enqueue(mk(i))
					}
				}}
			}},
		}},
		{name: "ConcurrentArrayBlockingQueue", methods: []string{"Enqueue", "Dequeue", "Len", "AsSlice"}, scale: 4, forms: []form{
			{"capacity4", abq(4)}, {"capacity1", abq(1)},
		}},
		{name: "ConcurrentLinkedBlockingQueue", methods: []string{"Enqueue", "Dequeue", "Len", "AsSlice"}, scale: 4, forms: []form{
			{"capacity4", lbq(4)}, {"unbounded", lbq(0)}, {"capacity1", lbq(1)},
		}},
		{name: "DelayQueue", methods: []string{"Enqueue", "Dequeue"}, scale: 4, forms: []form{
			{"capacity8", func(_, _ string) *inst {
				q := queue.NewDelayQueue[delayItem](8)
				return &inst{ops: map[string]op{
					"Enqueue": func(g, i int) {
						ctx, c := short(time.Millisecond)
						_ = q.Enqueue(ctx, delayItem{at: time.Now().Add(time.Duration(i%3) * 300 * time.Microsecond), it: mk(i)})
						c()
					},
					"Dequeue": func(g, i int) {
						ctx, c := short(2 * time.Millisecond)
						if v, err := q.Dequeue(ctx); err == nil {
							use(v.it)
							v.it.v++
						}
						c()
					},
				}, prime: func() {
					_ = q.Enqueue(context.Background(), delayItem{at: time.Now(), it: mk(0)})
					_ = q.Enqueue(context.Background(), delayItem{at: time.Now().Add(time.Millisecond), it: mk(1)})
				}}
			}},
		}},
		{name: "ConcurrentPriorityQueue", methods: []string{"Len", "Cap", "Peek", "Enqueue", "Dequeue"}, scale: 1, forms: []form{
			{"capacity64", cpq(64)}, {"unbounded", cpq(0)},
		}},
		// a Cond is usable as a literal / zero value with L set, like sync.Cond (the library's own tests do it),
		// and L may be any Locker
		{name: "Cond", methods: []string{"Wait", "Signal", "Broadcast"}, scale: 4, forms: []form{
			{"NewCond", func(_, _ string) *inst {
				mu := &sync.Mutex{}
				return condInst(syncx.NewCond(mu), mu)
			}},
			{"literal", func(_, _ string) *inst {
				mu := &sync.Mutex{}
				return condInst(&syncx.Cond{L: mu}, mu)
			}},
			{"NewCond:RWMutex", func(_, _ string) *inst {
				mu := &sync.RWMutex{}
				return condInst(syncx.NewCond(mu), mu)
			}},
			{"zero-then-L", func(_, _ string) *inst {
				mu := &sync.Mutex{}
				c := new(syncx.Cond)
				c.L = mu
				return condInst(c, mu)
			}},
		}},
		// Map has no constructor: the zero value
		{name: "Map", methods: []string{"Load", "Store", "LoadOrStore", "LoadOrStoreFunc", "LoadAndDelete", "Delete", "Range"}, scale: 1, forms: []form{
			{"zero", func(_, _ string) *inst {
				m := &syncx.Map[int, *item]{}
				return &inst{ops: map[string]op{
					"Load":        func(g, i int) { v, _ := m.Load(i % 6); use(v) },
					"Store":       func(g, i int) { m.Store(i%6, mkz(i)) },
					"LoadOrStore": func(g, i int) { v, _ := m.LoadOrStore(i%6, mkz(i)); use(v) },
					"LoadOrStoreFunc": func(g, i int) {
						v, _, _ := m.LoadOrStoreFunc(i%6, func() (*item, error) {
							if i%11 == 7 {
								return nil, errors.New("no value")
							}
							return mkz(i), nil
						})
						use(v)
					},
					"LoadAndDelete": func(g, i int) { v, _ := m.LoadAndDelete(i % 6); use(v) },
					"Delete":        func(g, i int) { m.Delete(i % 6) },
					"Range":         func(g, i int) { m.Range(func(_ int, v *item) bool { use(v); return true }) },
				}, prime: func() {
					for i := 0; i < 4; i++ {
						m.Store(i, mk(i))
					}
				}}
			}},
		}},
		{name: "LimitPool", methods: []string{"Get", "Put"}, scale: 1, forms: []form{
			{"maxTokens3", limitPool(3)}, {"maxTokens1", limitPool(1)},
		}},
		{name: "Pool", methods: []string{"Get", "Put"}, scale: 1, forms: []form{
			{"NewPool", func(_, _ string) *inst {
				p := syncx.NewPool[*item](func() *item { return mk(7) })
				return &inst{ops: map[string]op{
					"Get": func(g, i int) {
						v := p.Get()
						use(v)
						if v != nil {
							v.v = i
						}
						p.Put(v)
					},
					"Put": func(g, i int) { p.Put(mkz(i)) },
				}}
			}},
		}},
		{name: "SegmentKeysLock", methods: []string{"Lock", "RLock", "TryLock", "TryRLock"}, scale: 1, forms: []form{
			{"size4", segLock(4)}, {"size1", segLock(1)},
		}},
		{name: "Value", methods: []string{"Load", "Store", "Swap", "CompareAndSwap"}, scale: 1, forms: []form{
			{"NewValueOf", func(_, _ string) *inst { return valueInst(atomicx.NewValueOf[*item](mk(0))) }},
			{"NewValue", func(_, _ string) *inst { return valueInst(atomicx.NewValue[*item]()) }},
		}},
		{name: "OnDemandBlockTaskPool", methods: []string{"Submit", "Start", "Shutdown", "ShutdownNow", "States"}, scale: 10, forms: []form{
			{"options", func(m1, m2 string) *inst {
				return taskPoolInst(m1, m2, pool.WithCoreGo(3), pool.WithMaxGo(4),
					pool.WithMaxIdleTime(200*time.Microsecond), pool.WithQueueBacklogRate(0.1))
			}},
			{"defaults", func(m1, m2 string) *inst { return taskPoolInst(m1, m2) }},
		}},
		{name: "ExponentialBackoffRetryStrategy", methods: []string{"Next"}, scale: 1, forms: []form{
			{"unlimited", expo(0)}, {"maxRetries6", expo(6)},
		}},
		{name: "FixedIntervalRetryStrategy", methods: []string{"Next"}, scale: 1, forms: []form{
			{"maxRetries100", fixed(100)}, {"unlimited", fixed(0)},
		}},
		{name: "ReflectCopier", methods: []string{"Copy", "CopyTo"}, scale: 1, forms: []form{
			{"options", func(_, _ string) *inst { return copierInst(true) }},
			{"defaults", func(_, _ string) *inst { return copierInst(false) }},
		}},
	}
}

func findType(name string) *typ {
	for _, t := range types() {
		if t.name == name {
			t := t
			return &t
		}
	}
	return nil
}

// ---------------------------------------------------------------------------------------------
// one workload

func runWorkers(fns []op, iters int) {
	var wg sync.WaitGroup
	start := make(chan struct{})
	for g, f := range fns {
		wg.Add(1)
		go func(g int, f op) {
			defer wg.Done()
			<-start
			for i := 0; i < iters; i++ {
				f(g, i)
				if i%7 == g%7 {
					runtime.Gosched()
				}
			}
		}(g, f)
	}
	close(start)
	wg.Wait()
}

func one(c string) int {
	ws := strings.Fields(c)
	if len(ws) == 2 && ws[0] == "types" {
		var names []string
		for _, t := range types() {
			names = append(names, t.name)
		}
		if strings.Join(names, ",") != ws[1] {
			fmt.Fprintln(os.Stderr, "bad case (not the type list of this harness):", c)
			return 4
		}
		return 0
	}
	if len(ws) < 3 {
		fmt.Fprintln(os.Stderr, "bad case:", c)
		return 4
	}
	t := findType(ws[1])
	if t == nil {
		fmt.Fprintln(os.Stderr, "unknown type:", ws[1])
		return 4
	}
	iters, _ := strconv.Atoi(ws[len(ws)-1])
	if iters <= 0 {
		iters = 50
	}
	iters = iters/t.scale + 1
	if t.scale > 1 && iters > 1500 {
		iters = 1500 // calls that wait for a deadline: bound the wall time of one case
	}
	seed := vlib.Seed()
	go func() { // watchdog
		time.Sleep(75 * time.Second)
		fmt.Fprintln(os.Stderr, "VERIF-HANG")
		os.Exit(3)
	}()
	rounds := 3
	switch ws[0] {
	case "matrix":
		// the listed methods are exactly the ones the pair matrix of this type goes through, and each exists
		if len(ws) != 3 || ws[2] != strings.Join(t.methods, ",") {
			fmt.Fprintln(os.Stderr, "bad case (not the method list of this harness):", c)
			return 4
		}
		for k := range t.forms { // every construction form offers every method
			in := t.build(k, "", "", true)
			for _, m := range t.methods {
				if in.ops[m] == nil {
					fmt.Fprintln(os.Stderr, "unknown method in:", c)
					return 4
				}
			}
			if in.close != nil {
				in.close()
			}
		}
	case "pair":
		if len(ws) != 5 {
			fmt.Fprintln(os.Stderr, "bad case:", c)
			return 4
		}
		m1, m2 := ws[2], ws[3]
		for r := 0; r < rounds; r++ {
			in := t.build(r+formOffset(m1, m2), m1, m2, true)
			if in.ops[m1] == nil || in.ops[m2] == nil {
				fmt.Fprintln(os.Stderr, "unknown method in:", c)
				return 4
			}
			f1, f2 := in.ops[m1], in.ops[m2]
			if r == rounds-1 { // the last round goes through the boundary variants of both methods
				f1, f2 = cycle(variants(in, m1), 0), cycle(variants(in, m2), 0)
			}
			workers := 2 + int((seed+uint64(r))%3) // 2..4
			fns := make([]op, workers)
			for g := range fns {
				if g%2 == 0 {
					fns[g] = f1
				} else {
					fns[g] = f2
				}
			}
			runWorkers(fns, iters)
			if in.close != nil {
				in.close()
			}
		}
	case "stress":
		rng := vlib.NewRng(seed)
		for r := 0; r < rounds; r++ {
			in := t.build(r, "", "", true)
			var fns []op
			for g := 0; g < 4; g++ {
				offs := rng.Intn(len(t.methods))
				fns = append(fns, func(g, i int) { in.ops[t.methods[(i+offs)%len(t.methods)]](g, i) })
			}
			runWorkers(fns, iters)
			if in.close != nil {
				in.close()
			}
		}
	case "seq":
		// writer sequences against readers: worker 0 (in the last round also worker 1) runs scripted and
		// random sequences of the mutating methods, the others run every read-only method (all methods
		// if the type has none)
		rng := vlib.NewRng(seed ^ 0x5e9)
		for r := 0; r < rounds; r++ {
			in := t.build(r, "", "", true)
			var mut, ro []op
			for _, m := range t.methods {
				if isMutator(t, m) {
					mut = append(mut, variants(in, m)...)
				} else {
					ro = append(ro, variants(in, m)...)
				}
			}
			if len(mut) == 0 {
				mut = ro
			}
			if len(ro) == 0 {
				ro = mut
			}
			fns := []op{writerSeq(in, t, rng.Fork(), mut, nil)}
			if r == rounds-1 {
				fns = append(fns, writerSeq(in, t, rng.Fork(), mut, nil))
			}
			for len(fns) < 4 {
				fns = append(fns, cycle(ro, rng.Intn(len(ro))))
			}
			runWorkers(fns, iters)
			if in.close != nil {
				in.close()
			}
		}
	case "directed":
		// directed search for a conflict the access table names between m1 and m2: one side runs all
		// variants of its method, the other runs sequences "0-2 other mutators as preparation, then its
		// method"; the roles alternate per round
		if len(ws) != 5 {
			fmt.Fprintln(os.Stderr, "bad case:", c)
			return 4
		}
		rng := vlib.NewRng(seed ^ 0xd17)
		for r := 0; r < 4; r++ {
			// rounds 0,1 and 2,3 differ in roles and worker mix; the form changes every round (offset r/2 so that
			// with two forms each form sees both role assignments)
			in := t.build(r+r/2+formOffset(ws[2], ws[3]), ws[2], ws[3], true)
			ma, mb := ws[2], ws[3]
			if r%2 == 1 {
				ma, mb = mb, ma
			}
			if in.ops[ma] == nil || in.ops[mb] == nil {
				fmt.Fprintln(os.Stderr, "unknown method in:", c)
				return 4
			}
			var prep []op
			for _, m := range t.methods {
				if isMutator(t, m) {
					prep = append(prep, variants(in, m)...)
				}
			}
			va, vb := variants(in, ma), variants(in, mb)
			fns := []op{writerSeq(in, t, rng.Fork(), prep, vb), cycle(va, 0), cycle(va, 1), cycle(va, 2)}
			if r >= 2 {
				fns[3] = writerSeq(in, t, rng.Fork(), prep, vb)
			}
			runWorkers(fns, iters)
			if in.close != nil {
				in.close()
			}
		}
	case "fresh":
		// first uses from several goroutines: every round builds a NEW instance in the named construction form,
		// does not prime it, and lets 2-4 workers make their first 1-3 calls of one method pair on it (the pairs
		// of the matrix in turn, boundary variants included); nothing but the instance orders these calls.
		// Lazy initialisation (sync.Once, nil checks, first-call allocation) is reachable only this way.
		if len(ws) != 4 {
			fmt.Fprintln(os.Stderr, "bad case:", c)
			return 4
		}
		k := t.formIndex(ws[2])
		if k < 0 {
			fmt.Fprintln(os.Stderr, "unknown construction form in:", c)
			return 4
		}
		var pairs [][2]string
		for i, m1 := range t.methods {
			for _, m2 := range t.methods[i:] {
				pairs = append(pairs, [2]string{m1, m2})
			}
		}
		deadline := time.Now().Add(20 * time.Second)
		for r := 0; r < iters && time.Now().Before(deadline); r++ {
			pr, lap := pairs[r%len(pairs)], r/len(pairs)
			in := t.build(k, pr[0], pr[1], false)
			v1, v2 := variants(in, pr[0]), variants(in, pr[1])
			if len(v1) == 0 || len(v2) == 0 {
				fmt.Fprintln(os.Stderr, "unknown method in:", c)
				return 4
			}
			workers := 2 + int((seed+uint64(lap))%3) // 2..4
			fns := make([]op, workers)
			for g := range fns {
				// the plain call first; later laps start with the boundary variants
				if g%2 == 0 {
					fns[g] = cycle(v1, lap%len(v1))
				} else {
					fns[g] = cycle(v2, lap%len(v2))
				}
			}
			runWorkers(fns, 1+lap%3)
			if in.close != nil {
				in.close()
			}
		}
	default:
		fmt.Fprintln(os.Stderr, "bad case:", c)
		return 4
	}
	return 0
}

// ---------------------------------------------------------------------------------------------
// gen / run

func gen(tier, out string) {
	o := vlib.Create(out)
	defer o.Close()
	iters := 600
	if tier == "thorough" {
		iters = 6000
	}
	if s := os.Getenv("VERIF_RACES_ITERS"); s != "" {
		if v, err := strconv.Atoi(s); err == nil && v > 0 {
			iters = v
		}
	}
	var names []string
	for _, t := range types() {
		names = append(names, t.name)
	}
	o.Line("new types %s", strings.Join(names, ","))
	for _, t := range types() {
		o.Line("new matrix %s %s", t.name, strings.Join(t.methods, ","))
		for i, m1 := range t.methods {
			for _, m2 := range t.methods[i:] {
				o.Line("new pair %s %s %s %d", t.name, m1, m2, iters)
			}
		}
		o.Line("new stress %s %d", t.name, iters*2)
		if os.Getenv("VERIF_RACES_NOSEQ") == "" { // (knob for testing the directed search on its own)
			o.Line("new seq %s %d", t.name, iters*4)
		}
		if os.Getenv("VERIF_RACES_NOFRESH") == "" { // (knob, likewise)
			for _, f := range t.forms {
				o.Line("new fresh %s %s %d", t.name, f.name, iters)
			}
		}
	}
}

var frameRe = regexp.MustCompile(`^\s{2}(\S.*)\(\)\s*$`)
var genericRe = regexp.MustCompile(`\[[^\]]*\]`)
var fileRe = regexp.MustCompile(`^\s{6}(\S+?):(\d+)`)

func shortFn(s string) string {
	s = genericRe.ReplaceAllString(s, "") // first: type arguments may contain '/' and spaces
	s = strings.ReplaceAll(s, " ", "_")
	if i := strings.LastIndex(s, "/"); i >= 0 {
		s = s[i+1:]
	}
	s = genericRe.ReplaceAllString(s, "")
	s = strings.ReplaceAll(s, "(*", "")
	s = strings.ReplaceAll(s, ")", "")
	return s
}

// raceFrames returns the innermost ekit (or harness) frame of each of the two conflicting accesses
func raceFrames(output string) string {
	// several reports: prefer one whose two frames are library code over one in the harness' payload
	best, bestScore := "?", -1
	for _, rep := range strings.Split(output, "WARNING: DATA RACE")[1:] {
		fr := reportFrames(rep)
		score := 0
		for _, p := range strings.Split(fr, "|") {
			if !strings.Contains(p, ":main.") && !strings.HasSuffix(p, ":?") {
				score++
			}
		}
		if score > bestScore {
			best, bestScore = fr, score
		}
	}
	return best
}

func reportFrames(report string) string {
	lines := strings.Split(report, "\n")
	var out []string
	for i := 0; i < len(lines) && len(out) < 2; i++ {
		l := lines[i]
		if strings.Contains(l, " by goroutine ") || strings.Contains(l, " by main goroutine") {
			if !(strings.HasPrefix(l, "Read") || strings.HasPrefix(l, "Write") || strings.HasPrefix(l, "Previous") ||
				strings.HasPrefix(l, "Atomic")) {
				continue
			}
			kind := strings.Fields(l)[0]
			if kind == "Previous" {
				kind = strings.Fields(l)[1]
			}
			fr := "?"
			// first frame that is not the runtime / sync internals
			for j := i + 1; j < len(lines) && strings.TrimSpace(lines[j]) != ""; j++ {
				m := frameRe.FindStringSubmatch(lines[j])
				if m == nil {
					continue
				}
				if strings.HasPrefix(m[1], "runtime.") || strings.HasPrefix(m[1], "sync.") || strings.HasPrefix(m[1], "sync/atomic.") {
					continue
				}
				fr = shortFn(m[1])
				if j+1 < len(lines) {
					if fm := fileRe.FindStringSubmatch(lines[j+1]); fm != nil {
						fr += "@" + filepath.Base(fm[1]) + ":" + fm[2]
					}
				}
				break
			}
			out = append(out, strings.ToLower(kind)+":"+fr)
		}
	}
	if len(out) == 0 {
		return "?"
	}
	return strings.Join(out, "|")
}

type result struct {
	obs  string
	secs float64
}

func runCase(self, c string) result {
	t0 := time.Now()
	ctx, cancel := context.WithTimeout(context.Background(), 120*time.Second)
	defer cancel()
	cmd := exec.CommandContext(ctx, self, "-mode", "one", "-case", c)
	env := os.Environ()
	env = append(env, "GORACE=halt_on_error=0 exitcode=66 atexit_sleep_ms=0")
	cmd.Env = env
	var buf bytes.Buffer
	cmd.Stdout = &buf
	cmd.Stderr = &buf
	err := cmd.Run()
	out := buf.String()
	secs := time.Since(t0).Seconds()
	code := 0
	if err != nil {
		var ee *exec.ExitError
		if errors.As(err, &ee) {
			code = ee.ExitCode()
		} else {
			code = -1
		}
	}
	return result{classify(out, code, ctx.Err() != nil), secs}
}

// classify maps a child's outcome to the observation.  Only a race report or a Go panic / fatal error
// (exit code 2: e.g. "concurrent map writes", "Unlock of unlocked RWMutex") are verdicts; a child that
// was killed, timed out or tripped the watchdog is inconclusive (`hang`), never a violation.
func classify(out string, code int, timedOut bool) string {
	switch {
	case strings.Contains(out, "WARNING: DATA RACE"):
		return "race:" + raceFrames(out)
	case code == 0:
		return "clean"
	case code == 4:
		return "panic:harness-usage:" + strings.ReplaceAll(strings.TrimSpace(out), " ", "_")
	case timedOut || strings.Contains(out, "VERIF-HANG"):
		return "hang"
	}
	for _, l := range strings.Split(out, "\n") {
		if strings.HasPrefix(l, "panic:") || strings.HasPrefix(l, "fatal error:") {
			msg := strings.ReplaceAll(strings.TrimSpace(l), " ", "_")
			if len(msg) > 160 {
				msg = msg[:160]
			}
			if !strings.HasPrefix(msg, "panic:") {
				msg = "panic:" + msg
			}
			return msg
		}
	}
	return "hang"
}

// selfWithRace returns a race-enabled build of this harness: this binary if it is one, else a rebuild
// from the sources it was compiled from (used by `./check --replay`, which builds without -race).
func selfWithRace() (string, bool) {
	self, err := os.Executable()
	if err != nil {
		self = os.Args[0]
	}
	if raceEnabled {
		return self, true
	}
	_, file, _, ok := runtime.Caller(0)
	if !ok {
		return self, false
	}
	repo := filepath.Dir(filepath.Dir(filepath.Dir(file)))
	out := self + ".race"
	cmd := exec.Command("go", "build", "-race", "-tags", "verif", "-o", out, "./zzverif/races")
	cmd.Dir = repo
	if b, err := cmd.CombinedOutput(); err != nil {
		fmt.Fprintf(os.Stderr, "races: cannot rebuild with -race (%v): %s\n", err, b)
		return self, false
	}
	return out, true
}

func run(opsPath, outPath, statsPath string) {
	cases := vlib.ReadLines(opsPath)
	self, withRace := selfWithRace()
	par := 8
	if n := runtime.NumCPU(); n < par {
		par = n
	}
	if s := os.Getenv("VERIF_PAR"); s != "" {
		if v, err := strconv.Atoi(s); err == nil && v > 0 {
			par = v
		}
	}
	results := make([]result, len(cases))
	var wg sync.WaitGroup
	sem := make(chan struct{}, par)
	for i, c := range cases {
		wg.Add(1)
		sem <- struct{}{}
		go func(i int, c string) {
			defer wg.Done()
			defer func() { <-sem }()
			results[i] = runCase(self, strings.TrimPrefix(c, "new "))
		}(i, c)
	}
	wg.Wait()
	o := vlib.Create(outPath)
	kinds := map[string]int{}
	perType := map[string]int{}
	caseKinds := map[string]int{}
	perForm := map[string]int{} // `fresh` cases per type/construction form
	slowest := 0.0
	nontrivial := 0
	for i, c := range cases {
		if !withRace && results[i].obs == "clean" {
			// without the race detector a clean run says nothing: never report it as `clean`
			results[i].obs = "panic:race-detector-unavailable"
		}
		o.Line("%s => %s", c, results[i].obs)
		k := results[i].obs
		if j := strings.Index(k, ":"); j >= 0 {
			k = k[:j]
		}
		kinds[k]++
		ws := strings.Fields(c)
		if len(ws) > 2 {
			perType[ws[2]]++
		}
		caseKinds[ws[1]]++
		if len(ws) > 3 && ws[1] == "fresh" {
			perForm[ws[2]+"/"+ws[3]]++
		}
		if results[i].secs > slowest {
			slowest = results[i].secs
		}
		nontrivial++
	}
	o.Close()
	if statsPath != "" {
		var tn []string
		for k := range perType {
			tn = append(tn, k)
		}
		sort.Strings(tn)
		st := map[string]any{
			"cases": len(cases), "lines": len(cases), "distinct_state_op_pairs": nontrivial,
			"result_kinds": kinds, "cases_per_type": perType, "case_kinds": caseKinds, "fresh_cases_per_form": perForm, "race_detector": withRace,
			"parallel": par, "slowest_case_s": slowest,
		}
		b, _ := json.MarshalIndent(st, "", " ")
		_ = os.WriteFile(statsPath, b, 0o644)
	}
}

func main() {
	mode := flag.String("mode", "", "gen | run | one")
	tier := flag.String("tier", "quick", "quick | thorough")
	out := flag.String("out", "", "output file")
	ops := flag.String("ops", "", "ops file (run)")
	stats := flag.String("stats", "", "stats file (run)")
	cs := flag.String("case", "", "case (one)")
	flag.Parse()
	switch *mode {
	case "gen":
		gen(*tier, *out)
	case "run":
		run(*ops, *out, *stats)
	case "one":
		os.Exit(one(*cs))
	default:
		fmt.Fprintln(os.Stderr, "usage: races -mode gen|run|one ...")
		os.Exit(2)
	}
}
