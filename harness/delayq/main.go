// Correspondence / search harness for C08 (DelayQueue never early, always the earliest, exactly once,
// capacity, ctx errors without effect) and the DelayQueue share of C09 (wake-ups, cancellation,
// capacity conserved).  It runs seeded concurrent scenarios against the REAL queue.DelayQueue and
// writes a timed history, one trace line per call:
//
//	delayq -mode gen -tier quick|thorough [-focus all|wake] -out ops.txt     (seed from VERIF_SEED)
//	delayq -mode run -ops ops.txt -out trace.txt -stats stats.json
//
// Ops file: a case is
//
//	new cap=<c>
//	t<k> <sleep_us> enq <id> <deadline offset_us relative to the scenario start> <ctx_us>
//	t<k> <sleep_us> deq <ctx_us>
//	end
//
// Thread k executes its lines in order, sleeping <sleep_us> before each call; ctx_us = 0 means an
// already cancelled context, otherwise context.WithTimeout.  Elements have FIXED ABSOLUTE deadlines
// (scenario start + offset) and Delay() = time.Until(deadline) on the monotonic clock.
//
// Trace: all times are microseconds on the monotonic clock since (scenario start - 1000 s); `sinv`/`sres`
// are global sequence numbers taken just outside the [tinv, tres] bracket.  `rem` is the returned
// element's Delay() in ns read immediately after Dequeue returned, `len` is the queue length (hook
// VerifLen, under the queue's mutex) read right after the call.  The `end` line carries the final
// length and, for bounded queues, the capacity-conservation probe (fill to capacity, one more must
// block, drain what has expired).  The run always emits the `end` line itself.
package main

import (
	"context"
	"encoding/json"
	"errors"
	"flag"
	"fmt"
	"os"
	"sort"
	"strconv"
	"strings"
	"sync"
	"sync/atomic"
	"time"

	"github.com/ecodeclub/ekit/queue"
	"github.com/ecodeclub/ekit/zzverif/vlib"
)

const epochShiftUs = 1_000_000_000 // reported time = µs since (scenario start - 1000 s)

type elem struct {
	id       int
	deadline time.Time
}

func (e *elem) Delay() time.Duration { return time.Until(e.deadline) }

// ---------------------------------------------------------------------------------------------
// generation

type gen struct {
	r      *vlib.Rng
	out    *vlib.Out
	nextID int
}

func (g *gen) id() int { g.nextID++; return g.nextID }

func (g *gen) emit(lines ...string) {
	for _, l := range lines {
		g.out.Line("%s", l)
	}
}

const (
	longCtx = 3_000_000 // only matters when a wake-up is lost
)

// distinct deadline slots: multiples of 3 ms (the comparator's clock-resolution ties are far below)
func slot(k int) int { return k * 3000 }
func far(k int) int  { return 5_000_000 + k*3000 }

func (g *gen) directed(i int) {
	r := g.r
	j := func(lo, hi int) int { return r.Range(lo, hi) }
	switch i % 9 {
	case 0: // consumer parked on a far element; a sooner one arrives — it must be woken by the enqueue
		a, b := g.id(), g.id()
		g.emit("new cap=0",
			fmt.Sprintf("t1 0 enq %d %d 60000", a, far(0)),
			fmt.Sprintf("t2 %d deq %d", j(500, 2500), longCtx),
			fmt.Sprintf("t3 %d enq %d %d 60000", j(4000, 7000), b, slot(j(3, 5))),
			"end")
	case 1: // consumer on an empty queue, then an (expired | soon) element
		a := g.id()
		g.emit("new cap=0",
			fmt.Sprintf("t1 0 deq %d", longCtx),
			fmt.Sprintf("t2 %d enq %d %d 60000", j(2000, 5000), a, slot(j(-3, 3))),
			"end")
	case 2: // bounded: a blocked Enqueue proceeds when a Dequeue frees the slot
		a, b := g.id(), g.id()
		g.emit("new cap=1",
			fmt.Sprintf("t1 0 enq %d %d 60000", a, slot(-2)),
			fmt.Sprintf("t2 %d enq %d %d %d", j(1000, 2000), b, slot(-1), longCtx),
			fmt.Sprintf("t3 %d deq 60000", j(4000, 6000)),
			fmt.Sprintf("t3 %d deq 60000", j(0, 2000)),
			"end")
	case 3: // cancellation storm on a full queue of far elements, then the capacity probe
		a, b := g.id(), g.id()
		g.emit("new cap=2",
			fmt.Sprintf("t1 0 enq %d %d 60000", a, far(1)),
			fmt.Sprintf("t1 0 enq %d %d 60000", b, far(0)),
			fmt.Sprintf("t2 %d enq %d %d %d", j(500, 1500), g.id(), slot(-1), j(1000, 5000)),
			fmt.Sprintf("t3 %d enq %d %d %d", j(500, 1500), g.id(), slot(-2), j(1000, 5000)),
			fmt.Sprintf("t4 %d deq %d", j(500, 1500), j(1000, 5000)),
			fmt.Sprintf("t2 0 enq %d %d 0", g.id(), slot(-3)),
			fmt.Sprintf("t4 0 deq 0"),
			"end")
	case 4: // two consumers armed for the same head: the loser must re-check (second element later)
		a, b := g.id(), g.id()
		g.emit("new cap=0",
			fmt.Sprintf("t1 0 enq %d %d 60000", a, slot(2)),
			fmt.Sprintf("t1 0 enq %d %d 60000", b, slot(5)),
			fmt.Sprintf("t2 %d deq 80000", j(0, 1500)),
			fmt.Sprintf("t3 %d deq 80000", j(0, 1500)),
			"end")
	case 5: // stale tick: the timer fires at about the instant a new element is broadcast
		a, b, c := g.id(), g.id(), g.id()
		g.emit("new cap=0",
			fmt.Sprintf("t1 0 enq %d %d 60000", a, slot(2)),
			fmt.Sprintf("t1 0 enq %d %d 60000", b, slot(6)),
			fmt.Sprintf("t2 %d deq 80000", j(0, 1000)),
			fmt.Sprintf("t3 %d deq 80000", j(0, 1000)),
			fmt.Sprintf("t4 %d enq %d %d 60000", 6000+j(-300, 300), c, far(0)),
			"end")
	case 6: // enqueue order is the reverse of the expiry order; one consumer takes them all
		ids := []int{g.id(), g.id(), g.id(), g.id()}
		ls := []string{"new cap=0"}
		for k, id := range ids {
			ls = append(ls, fmt.Sprintf("t1 0 enq %d %d 60000", id, slot(4-k)))
		}
		for range ids {
			ls = append(ls, "t2 0 deq 80000")
		}
		g.emit(append(ls, "end")...)
	case 7: // a sooner element arrives while the consumer is parked on a soon one
		a, b := g.id(), g.id()
		g.emit("new cap=0",
			fmt.Sprintf("t1 0 enq %d %d 60000", a, slot(6)),
			fmt.Sprintf("t2 %d deq 80000", j(200, 1500)),
			fmt.Sprintf("t3 %d enq %d %d 60000", j(2500, 4000), b, slot(2)),
			fmt.Sprintf("t2 0 deq 80000"),
			"end")
	case 8: // bounded, several blocked producers, one consumer draining; a cancelled producer in between
		ls := []string{"new cap=1"}
		for k := 0; k < 3; k++ {
			ls = append(ls, fmt.Sprintf("t%d %d enq %d %d %d", k+1, j(0, 800), g.id(), slot(-4+k), longCtx))
		}
		ls = append(ls, fmt.Sprintf("t4 %d enq %d %d %d", j(0, 800), g.id(), slot(-5), j(500, 2500)))
		for k := 0; k < 3; k++ {
			ls = append(ls, fmt.Sprintf("t5 %d deq 80000", j(1500, 3000)))
		}
		g.emit(append(ls, "end")...)
	}
}

func (g *gen) random(focus string) {
	r := g.r
	capc := vlib.Pick(r, []int{0, 0, 0, 1, 2, 3})
	if focus == "wake" {
		capc = vlib.Pick(r, []int{0, 1, 1, 2, 2, 3})
	}
	nthr := r.Range(2, 4)
	total := r.Range(3, 11)
	used := map[int]bool{}
	pickSlot := func() int {
		for tries := 0; ; tries++ {
			k := r.Range(-8, 7)
			if r.Chance(12) {
				k = 1000 + r.Range(0, 5) // far
			}
			if !used[k] || (tries > 3 && r.Chance(30)) { // exact ties are rare but present
				used[k] = true
				if k >= 1000 {
					return far(k - 1000)
				}
				return slot(k)
			}
		}
	}
	ctx := func() int {
		p := r.Intn(100)
		switch {
		case p < 8:
			return 0
		case p < 30 || (focus == "wake" && p < 50):
			return r.Range(500, 6000)
		default:
			return r.Range(40000, 70000)
		}
	}
	g.emit(fmt.Sprintf("new cap=%d", capc))
	enqs, deqs := 0, 0
	for k := 0; k < total; k++ {
		th := r.Range(1, nthr)
		sl := vlib.Pick(r, []int{0, 0, 0, 200, 1000, 2500, 4000})
		if sl > 0 {
			sl += r.Intn(300)
		}
		wantEnq := r.Chance(50)
		if deqs > enqs+1 {
			wantEnq = true
		}
		if wantEnq {
			enqs++
			g.emit(fmt.Sprintf("t%d %d enq %d %d %d", th, sl, g.id(), pickSlot(), ctx()))
		} else {
			deqs++
			g.emit(fmt.Sprintf("t%d %d deq %d", th, sl, ctx()))
		}
	}
	g.emit("end")
}

func generate(tier, focus string, out *vlib.Out) {
	g := &gen{r: vlib.NewRng(vlib.Seed()), out: out}
	nd, nr := 108, 420
	if focus == "wake" {
		nd, nr = 135, 260
	}
	if tier == "thorough" {
		nd, nr = nd*6, nr*8
	}
	// NewDelayQueue(c) with c <= 0 is the unbounded queue
	g.emit("new cap=-1", fmt.Sprintf("t1 0 enq %d %d 60000", g.id(), slot(-1)), fmt.Sprintf("t1 0 enq %d %d 60000", g.id(), slot(-2)),
		"t2 1000 deq 60000", "t2 0 deq 60000", "t2 0 deq 2000", "end")
	for i := 0; i < nd; i++ {
		g.directed(i)
	}
	for i := 0; i < nr; i++ {
		g.random(focus)
	}
}

// ---------------------------------------------------------------------------------------------
// execution

type call struct {
	line    string
	thr     int
	sleepUs int
	kind    string
	id      int
	offUs   int
	ctxUs   int

	done       bool
	res        string
	sinv, sres int64
	tinv, tres int64
	dl         int64
	rem        int64
	ln         int
}

func parseCase(lines []string) (capc int, calls []*call, err error) {
	if len(lines) == 0 || !strings.HasPrefix(lines[0], "new cap=") {
		return 0, nil, fmt.Errorf("case must start with new cap=")
	}
	capc, _ = strconv.Atoi(strings.TrimPrefix(lines[0], "new cap="))
	for _, l := range lines[1:] {
		w := strings.Fields(l)
		if len(w) == 0 || w[0] == "end" {
			continue
		}
		c := &call{line: l}
		if len(w) < 4 || !strings.HasPrefix(w[0], "t") {
			return 0, nil, fmt.Errorf("bad op line %q", l)
		}
		c.thr, _ = strconv.Atoi(w[0][1:])
		c.sleepUs, _ = strconv.Atoi(w[1])
		c.kind = w[2]
		switch {
		case c.kind == "enq" && len(w) == 6:
			c.id, _ = strconv.Atoi(w[3])
			c.offUs, _ = strconv.Atoi(w[4])
			c.ctxUs, _ = strconv.Atoi(w[5])
		case c.kind == "deq" && len(w) == 4:
			c.ctxUs, _ = strconv.Atoi(w[3])
		default:
			return 0, nil, fmt.Errorf("bad op line %q", l)
		}
		calls = append(calls, c)
	}
	return capc, calls, nil
}

func mkCtx(us int) (context.Context, context.CancelFunc) {
	if us <= 0 {
		ctx, cancel := context.WithCancel(context.Background())
		cancel()
		return ctx, cancel
	}
	return context.WithTimeout(context.Background(), time.Duration(us)*time.Microsecond)
}

func errTok(err error) string {
	switch {
	case err == nil:
		return "ok"
	case errors.Is(err, context.DeadlineExceeded), errors.Is(err, context.Canceled):
		return "ctx"
	}
	return "err:other"
}

// every call carries a context of at most 3 s; a scenario normally lasts well under 100 ms
const watchdog = 10 * time.Second

// set once a scenario hung: the remaining scenarios are skipped (the hang is the finding; leaked
// goroutines of a hung scenario would only slow the others down)
var aborted atomic.Bool

// timerDisc names the timer-channel discipline this process runs under.  The harness is built inside
// the ekit module (go.mod says go 1.20), so the default is the pre-1.23 asynchronous channel;
// GODEBUG=asynctimerchan=0 selects the Go >= 1.23 synchronous one.
func timerDisc() string {
	for _, kv := range strings.Split(os.Getenv("GODEBUG"), ",") {
		if kv == "asynctimerchan=0" {
			return "sync"
		}
	}
	return "async"
}

func runCase(lines []string) []string {
	capc, calls, err := parseCase(lines)
	if err != nil {
		return []string{fmt.Sprintf("%s => bad-case %s", lines[0], strings.ReplaceAll(err.Error(), " ", "_"))}
	}
	var q *queue.DelayQueue[*elem]
	if p := vlib.Catch(func() { q = queue.NewDelayQueue[*elem](capc) }); p != "" {
		return []string{fmt.Sprintf("%s => %s", lines[0], p)}
	}
	out := []string{fmt.Sprintf("%s => ok cap=%d disc=%s", lines[0], q.VerifCap(), timerDisc())}
	t0 := time.Now()
	us := func(t time.Time) int64 { return int64(t.Sub(t0)/time.Microsecond) + epochShiftUs }
	var seq atomic.Int64
	var mu sync.Mutex // protects the `done` flags against the watchdog's read
	byThr := map[int][]*call{}
	for _, c := range calls {
		byThr[c.thr] = append(byThr[c.thr], c)
	}
	var wg sync.WaitGroup
	for _, cs := range byThr {
		wg.Add(1)
		go func(cs []*call) {
			defer wg.Done()
			for _, c := range cs {
				if c.sleepUs > 0 {
					time.Sleep(time.Duration(c.sleepUs) * time.Microsecond)
				}
				ctx, cancel := mkCtx(c.ctxUs)
				var res string
				var dl, rem int64
				var sinv, sres int64
				var tinv, tres time.Time
				p := vlib.Catch(func() {
					if c.kind == "enq" {
						e := &elem{id: c.id, deadline: t0.Add(time.Duration(c.offUs) * time.Microsecond)}
						dl = int64(c.offUs) + epochShiftUs
						sinv = seq.Add(1)
						tinv = time.Now()
						err := q.Enqueue(ctx, e)
						tres = time.Now()
						sres = seq.Add(1)
						res = errTok(err)
					} else {
						sinv = seq.Add(1)
						tinv = time.Now()
						e, err := q.Dequeue(ctx)
						tres = time.Now()
						if err == nil && e != nil {
							rem = int64(e.Delay())
						}
						sres = seq.Add(1)
						res = errTok(err)
						if err == nil {
							if e == nil {
								res = "ok:nil"
							} else {
								res = "ok:" + strconv.Itoa(e.id)
								dl = us(e.deadline)
							}
						}
					}
				})
				cancel()
				if p != "" {
					res = p
					if tres.IsZero() {
						tres = time.Now()
						sres = seq.Add(1)
					}
				}
				ln := q.VerifLen()
				mu.Lock()
				c.res, c.sinv, c.sres, c.tinv, c.tres, c.dl, c.rem, c.ln = res, sinv, sres, us(tinv), us(tres), dl, rem, ln
				c.done = true
				mu.Unlock()
			}
		}(cs)
	}
	fin := make(chan struct{})
	go func() { wg.Wait(); close(fin) }()
	hung := false
	select {
	case <-fin:
	case <-time.After(watchdog):
		hung = true
	}
	lenF := func(n int) string {
		if n < 0 {
			return ""
		}
		return fmt.Sprintf(" len=%d", n)
	}
	mu.Lock()
	for _, c := range calls {
		if !c.done {
			out = append(out, fmt.Sprintf("%s => hang", c.line))
			continue
		}
		switch {
		case c.kind == "enq":
			out = append(out, fmt.Sprintf("%s => %s sinv=%d sres=%d tinv=%d tres=%d dl=%d%s",
				c.line, c.res, c.sinv, c.sres, c.tinv, c.tres, c.dl, lenF(c.ln)))
		case strings.HasPrefix(c.res, "ok:"):
			out = append(out, fmt.Sprintf("%s => %s sinv=%d sres=%d tinv=%d tres=%d dl=%d rem=%d%s",
				c.line, c.res, c.sinv, c.sres, c.tinv, c.tres, c.dl, c.rem, lenF(c.ln)))
		default:
			out = append(out, fmt.Sprintf("%s => %s sinv=%d sres=%d tinv=%d tres=%d%s",
				c.line, c.res, c.sinv, c.sres, c.tinv, c.tres, lenF(c.ln)))
		}
	}
	mu.Unlock()
	if hung {
		aborted.Store(true)
		return append(out, "end => hang")
	}
	// quiescent: final length and (bounded queues) the capacity-conservation probe
	endc := make(chan string, 1)
	go func() {
		finallen := q.VerifLen()
		s := fmt.Sprintf("finallen=%d", finallen)
		if finallen < 0 {
			s = "finallen=na" // black-box stubs: the length is not observable
		}
		if capc > 0 {
			// fill the free slots (white-box: exactly cap-len of them; black-box: until one blocks)
			free := capc - finallen
			if free < 0 {
				free = 0
			}
			tries, ctxUs := free, 2_000_000
			if finallen < 0 {
				tries, ctxUs = capc, 20_000
			}
			fill := 0
			for i := 0; i < tries; i++ {
				ctx, cancel := mkCtx(ctxUs)
				e := &elem{id: 900000 + fill, deadline: t0.Add(-50 * time.Second)}
				err := q.Enqueue(ctx, e)
				cancel()
				if err != nil {
					break
				}
				fill++
			}
			ctx, cancel := mkCtx(3000)
			extra := errTok(q.Enqueue(ctx, &elem{id: 999999, deadline: t0.Add(-60 * time.Second)}))
			cancel()
			var drained []int
			for i := 0; i < capc+2; i++ {
				ctx, cancel := mkCtx(3000)
				e, err := q.Dequeue(ctx)
				cancel()
				if err != nil || e == nil {
					break
				}
				drained = append(drained, e.id)
			}
			if finallen >= 0 {
				s += fmt.Sprintf(" free=%d", free)
			}
			s += fmt.Sprintf(" fill=%d extra=%s drained=%s tend=%d", fill, extra, vlib.Ints(drained), us(time.Now()))
		}
		endc <- s
	}()
	select {
	case s := <-endc:
		out = append(out, "end => "+s)
	case <-time.After(watchdog):
		aborted.Store(true)
		out = append(out, "end => hang")
	}
	return out
}

type stats struct {
	Ops      map[string]int `json:"ops"`
	Results  map[string]int `json:"results"`
	Caps     map[string]int `json:"caps"`
	MaxLen   int            `json:"max_len"`
	Blocked  int            `json:"calls_that_waited_over_1ms"`
	Cases    int            `json:"cases"`
	Lines    int            `json:"lines"`
	Distinct int            `json:"distinct_state_op_pairs"`
	Godebug  string         `json:"godebug"`
}

func splitCases(lines []string) [][]string {
	var cases [][]string
	var cur []string
	for _, l := range lines {
		if strings.HasPrefix(l, "new ") && len(cur) > 0 {
			cases = append(cases, cur)
			cur = nil
		}
		cur = append(cur, l)
	}
	if len(cur) > 0 {
		cases = append(cases, cur)
	}
	return cases
}

func field(obs, key string) (int64, bool) {
	for _, w := range strings.Fields(obs) {
		if strings.HasPrefix(w, key+"=") {
			v, err := strconv.ParseInt(w[len(key)+1:], 10, 64)
			return v, err == nil
		}
	}
	return 0, false
}

func run(lines []string, out *vlib.Out, st *stats, par int) {
	cases := splitCases(lines)
	results := make([][]string, len(cases))
	sem := make(chan struct{}, par)
	var wg sync.WaitGroup
	for i := range cases {
		wg.Add(1)
		sem <- struct{}{}
		go func(i int) {
			defer wg.Done()
			if !aborted.Load() {
				results[i] = runCase(cases[i])
			}
			<-sem
		}(i)
	}
	wg.Wait()
	seen := map[string]struct{}{}
	for i, tr := range results {
		st.Cases++
		capTok := strings.TrimPrefix(cases[i][0], "new ")
		st.Caps[capTok]++
		for _, l := range tr {
			out.Line("%s", l)
			st.Lines++
			parts := strings.SplitN(l, " => ", 2)
			w := strings.Fields(parts[0])
			if len(parts) < 2 || len(w) < 3 || !strings.HasPrefix(w[0], "t") {
				continue
			}
			rk := strings.Fields(parts[1])[0]
			if strings.HasPrefix(rk, "ok:") {
				rk = "ok"
			}
			st.Ops[w[2]]++
			st.Results[w[2]+"/"+rk]++
			ln, _ := field(parts[1], "len")
			if int(ln) > st.MaxLen {
				st.MaxLen = int(ln)
			}
			ti, _ := field(parts[1], "tinv")
			tr, _ := field(parts[1], "tres")
			waited := tr-ti > 1000
			if waited {
				st.Blocked++
			}
			if rk != "ok" || w[2] == "enq" || w[2] == "deq" {
				seen[fmt.Sprintf("%s|%s|%s|%d|%v", capTok, w[2], rk, ln, waited)] = struct{}{}
			}
		}
	}
	st.Distinct = len(seen)
	keys := make([]string, 0, len(seen))
	for k := range seen {
		keys = append(keys, k)
	}
	sort.Strings(keys)
}

func main() {
	mode := flag.String("mode", "gen", "gen|run")
	tier := flag.String("tier", "quick", "quick|thorough")
	focus := flag.String("focus", "all", "all|wake")
	opsF := flag.String("ops", "", "ops file (run mode)")
	outF := flag.String("out", "", "output file")
	statsF := flag.String("stats", "", "stats json (run mode)")
	par := flag.Int("par", 4, "scenarios executed concurrently")
	flag.Parse()
	out := vlib.Create(*outF)
	defer out.Close()
	switch *mode {
	case "gen":
		generate(*tier, *focus, out)
	case "run":
		st := &stats{Ops: map[string]int{}, Results: map[string]int{}, Caps: map[string]int{}, Godebug: os.Getenv("GODEBUG")}
		run(vlib.ReadLines(*opsF), out, st, *par)
		if *statsF != "" {
			b, _ := json.MarshalIndent(st, "", " ")
			os.WriteFile(*statsF, b, 0o644)
		}
	}
}
