// Correspondence / search harness for C08 (DelayQueue never early, always the earliest, exactly once,
// capacity, ctx errors without effect) and the DelayQueue share of C09 (wake-ups, cancellation,
// capacity conserved).  It runs seeded concurrent scenarios against the REAL queue.DelayQueue and
// writes a timed history, one trace line per call:
//
//	delayq -mode gen -tier quick|thorough [-focus all|wake] -out ops.txt     (seed from VERIF_SEED)
//	delayq -mode run -ops ops.txt -out trace.txt -stats stats.json
//
// Ops file: a case is
//
//	new cap=<c> [elem=val]                   elem=val: the queue is instantiated with the VALUE type velem (below)
//	                                         instead of *elem; `enq 0 ...` then enqueues velem{}, the zero value of T
//	t<k> <sleep_us> enq <id> <deadline offset_us relative to the scenario start> <ctx_us>
//	t<k> <sleep_us> deq <ctx_us>
//	t<k> <sleep_us> cancel <h> <park_us>     wait until the call holding cancel handle h has been invoked, let it
//	                                         park for park_us, cancel its context — the thread's NEXT line (sleep 0)
//	                                         then runs back-to-back with the cancellation
//	t<k> <sleep_us> await <h> <park_us>      the same without cancelling (lets a waiter park before waking it)
//	t<k> <sleep_us> mark <h> 0               releases every `await <h>` (h names no call: a plain barrier)
//	t<k> <sleep_us> step <delta_us> 0        (elem=clk only) steps the scenario's WALL clock by delta_us (negative: back)
//	t<k> <sleep_us> stall <id> <us>          (elem=clk only) arms a one-shot stall: the next Delay() evaluation of element
//	                                         <id> takes <us> (a goroutine descheduled / GC pause inside Delay(); the queue
//	                                         evaluates Delay() under its mutex, so everybody else queues up behind it)
//	end
//
// elem=clk: the queue is instantiated with *celem, an element whose deadline is a WALL-clock instant: Delay() =
// deadline - (monotonic now + skew), where skew is the scenario clock's offset moved by `step` lines (an NTP
// adjustment; a deadline loaded from storage has no monotonic reading).  Its Delay() is therefore NOT in lock-step
// with the runtime timer armed from an earlier reading, and a tick of that timer proves nothing about Delay().
//
// A ctx field `c<h>:<us>` is a context with timeout <us> that is also cancellable through handle h.
//
// Thread k executes its lines in order, sleeping <sleep_us> before each call; ctx_us = 0 means an
// already cancelled context, otherwise context.WithTimeout.  Elements have FIXED ABSOLUTE deadlines
// (scenario start + offset) and Delay() = time.Until(deadline) on the monotonic clock.
//
// Trace: all times are microseconds on the monotonic clock since (scenario start - 1000 s); `sinv`/`sres`
// are global sequence numbers taken just outside the [tinv, tres] bracket.  `rem` is the returned
// element's Delay() in ns read immediately after Dequeue returned, `len` is the queue length (hook
// VerifLen, under the queue's mutex) read right after the call.  The `end` line carries the final
// length and, for bounded queues, the capacity-conservation probe (fill to capacity, one more must
// block, drain what has expired).  The run always emits the `end` line itself.
package main

import (
	"context"
	"encoding/json"
	"errors"
	"flag"
	"fmt"
	"os"
	"os/exec"
	"sort"
	"strconv"
	"strings"
	"sync"
	"sync/atomic"
	"time"

	"github.com/ecodeclub/ekit/queue"
	"github.com/ecodeclub/ekit/zzverif/vlib"
)

const epochShiftUs = 1_000_000_000 // reported time = µs since (scenario start - 1000 s)

type elem struct {
	id       int
	deadline time.Time
}

func (e *elem) Delay() time.Duration { return time.Until(e.deadline) }

// velem is the second instantiation: a VALUE type whose zero value is a legitimate element (id 0, its
// deadline is the start of the process: expired long ago, the earliest of all).  A `== zero` / "nothing
// there" shortcut anywhere between Enqueue and Dequeue loses, invents or misorders exactly this element.
type velem struct {
	id int
	dl int64 // deadline in ns after procEpoch
}

var procEpoch = time.Now()

func (e velem) Delay() time.Duration { return time.Until(procEpoch.Add(time.Duration(e.dl))) }

// dq is the queue under test behind either element type
type dq interface {
	Enqueue(ctx context.Context, id int, deadline time.Time) error
	// Dequeue: isNil = a nil *elem was delivered (pointer instantiation only)
	Dequeue(ctx context.Context) (id int, deadline time.Time, rem int64, isNil bool, err error)
	VerifLen() int
	VerifCap() int
}

type ptrQ struct{ *queue.DelayQueue[*elem] }

func (q ptrQ) Enqueue(ctx context.Context, id int, deadline time.Time) error {
	return q.DelayQueue.Enqueue(ctx, &elem{id: id, deadline: deadline})
}

func (q ptrQ) Dequeue(ctx context.Context) (int, time.Time, int64, bool, error) {
	e, err := q.DelayQueue.Dequeue(ctx)
	if err != nil || e == nil {
		return 0, time.Time{}, 0, e == nil, err
	}
	return e.id, e.deadline, int64(e.Delay()), false, nil
}

type valQ struct{ *queue.DelayQueue[velem] }

// zeroDeadline is the deadline of velem{}
func zeroDeadline() time.Time { return procEpoch }

func (q valQ) Enqueue(ctx context.Context, id int, deadline time.Time) error {
	if id == 0 {
		return q.DelayQueue.Enqueue(ctx, velem{})
	}
	return q.DelayQueue.Enqueue(ctx, velem{id: id, dl: int64(deadline.Sub(procEpoch))})
}

func (q valQ) Dequeue(ctx context.Context) (int, time.Time, int64, bool, error) {
	e, err := q.DelayQueue.Dequeue(ctx)
	if err != nil {
		return 0, time.Time{}, 0, false, err
	}
	return e.id, procEpoch.Add(time.Duration(e.dl)), int64(e.Delay()), false, nil
}

// celem is the third instantiation: an element on the scenario's steppable wall clock whose Delay() can
// be made slow once (`stall`).  skew and the stall cells are shared with the scenario (scen).
type celem struct {
	id       int
	deadline time.Time // at skew 0
	sc       *scen
	stall    *atomic.Int64 // ns; consumed (swapped to 0) by the next Delay() evaluation
}

type scen struct {
	skew   atomic.Int64 // ns added to the monotonic clock to obtain the scenario's wall clock
	mu     sync.Mutex
	stalls map[int]*atomic.Int64
}

func (s *scen) stallCell(id int) *atomic.Int64 {
	s.mu.Lock()
	defer s.mu.Unlock()
	c := s.stalls[id]
	if c == nil {
		c = new(atomic.Int64)
		s.stalls[id] = c
	}
	return c
}

// remaining: Delay() without the stall (the harness's own observation after the return)
func (e *celem) remaining() time.Duration {
	return time.Until(e.deadline) - time.Duration(e.sc.skew.Load())
}

func (e *celem) Delay() time.Duration {
	if ns := e.stall.Swap(0); ns > 0 {
		time.Sleep(time.Duration(ns))
	}
	return e.remaining()
}

type clkQ struct {
	*queue.DelayQueue[*celem]
	sc *scen
}

func (q clkQ) Enqueue(ctx context.Context, id int, deadline time.Time) error {
	return q.DelayQueue.Enqueue(ctx, &celem{id: id, deadline: deadline, sc: q.sc, stall: q.sc.stallCell(id)})
}

func (q clkQ) Dequeue(ctx context.Context) (int, time.Time, int64, bool, error) {
	e, err := q.DelayQueue.Dequeue(ctx)
	if err != nil || e == nil {
		return 0, time.Time{}, 0, e == nil, err
	}
	return e.id, e.deadline, int64(e.remaining()), false, nil
}

// ---------------------------------------------------------------------------------------------
// generation

type gen struct {
	r      *vlib.Rng
	out    *vlib.Out
	nextID int
}

func (g *gen) id() int { g.nextID++; return g.nextID }

func (g *gen) emit(lines ...string) {
	for _, l := range lines {
		g.out.Line("%s", l)
	}
}

const (
	longCtx = 3_000_000 // only matters when a wake-up is lost
)

// Distinct deadline slots are multiples of 10 ms.  The queue's comparator evaluates Delay() of its two
// arguments at two instants, so two deadlines closer than the time that passes between the two reads
// (normally ~100 ns, but a descheduled thread can make it milliseconds) may be ordered either way:
// the property says "up to clock-resolution ties".  The spacing is far above any stall seen in practice,
// the run measures the scheduling jitter (`jit=` on the end line) and the oracle's tie tolerance is
// max(2 ms, 2*jit): deadlines closer than that are never used as evidence about the order.
const slotUs = 10_000

func slot(k int) int { return k * slotUs }
func far(k int) int  { return 5_000_000 + k*slotUs }

// neverUs: an offset that stands for a deadline in the year 9999 — time.Until saturates, Delay() == math.MaxInt64
// (a comparator that subtracts two delays overflows against an already expired element)
const neverUs = 8_000_000_000_000_000

func (g *gen) directed(i int) {
	r := g.r
	j := func(lo, hi int) int { return r.Range(lo, hi) }
	switch i % nDirected {
	case 0: // consumer parked on a far element; a sooner one arrives — it must be woken by the enqueue
		a, b := g.id(), g.id()
		g.emit("new cap=0",
			fmt.Sprintf("t1 0 enq %d %d 100000", a, far(0)),
			fmt.Sprintf("t2 %d deq %d", j(500, 2500), longCtx),
			fmt.Sprintf("t3 %d enq %d %d 100000", j(4000, 7000), b, slot(j(1, 3))),
			"end")
	case 1: // consumer on an empty queue, then an (expired | soon) element
		a := g.id()
		g.emit("new cap=0",
			fmt.Sprintf("t1 0 deq %d", longCtx),
			fmt.Sprintf("t2 %d enq %d %d 100000", j(2000, 5000), a, slot(j(-3, 2))),
			"end")
	case 2: // bounded: a blocked Enqueue proceeds when a Dequeue frees the slot
		a, b := g.id(), g.id()
		g.emit("new cap=1",
			fmt.Sprintf("t1 0 enq %d %d 100000", a, slot(-2)),
			fmt.Sprintf("t2 %d enq %d %d %d", j(1000, 2000), b, slot(-1), longCtx),
			fmt.Sprintf("t3 %d deq 150000", j(4000, 6000)),
			fmt.Sprintf("t3 %d deq 150000", j(0, 2000)),
			"end")
	case 3: // cancellation storm on a full queue of far elements, then the capacity probe
		a, b := g.id(), g.id()
		g.emit("new cap=2",
			fmt.Sprintf("t1 0 enq %d %d 100000", a, far(1)),
			fmt.Sprintf("t1 0 enq %d %d 100000", b, far(0)),
			fmt.Sprintf("t2 %d enq %d %d %d", j(500, 1500), g.id(), slot(-1), j(1000, 5000)),
			fmt.Sprintf("t3 %d enq %d %d %d", j(500, 1500), g.id(), slot(-2), j(1000, 5000)),
			fmt.Sprintf("t4 %d deq %d", j(500, 1500), j(1000, 5000)),
			fmt.Sprintf("t2 0 enq %d %d 0", g.id(), slot(-3)),
			fmt.Sprintf("t4 0 deq 0"),
			"end")
	case 4: // two consumers armed for the same head: the loser must re-check (second element later)
		a, b := g.id(), g.id()
		g.emit("new cap=0",
			fmt.Sprintf("t1 0 enq %d %d 100000", a, slot(1)),
			fmt.Sprintf("t1 0 enq %d %d 100000", b, slot(3)),
			fmt.Sprintf("t2 %d deq 150000", j(0, 1500)),
			fmt.Sprintf("t3 %d deq 150000", j(0, 1500)),
			"end")
	case 5: // stale tick: the timer fires at about the instant a new element is broadcast
		a, b, c := g.id(), g.id(), g.id()
		g.emit("new cap=0",
			fmt.Sprintf("t1 0 enq %d %d 100000", a, slot(1)),
			fmt.Sprintf("t1 0 enq %d %d 100000", b, slot(3)),
			fmt.Sprintf("t2 %d deq 150000", j(0, 1000)),
			fmt.Sprintf("t3 %d deq 150000", j(0, 1000)),
			fmt.Sprintf("t4 %d enq %d %d 100000", slot(1)+j(-300, 300), c, far(0)),
			"end")
	case 6: // enqueue order is the reverse of the expiry order; one consumer takes them all
		ids := []int{g.id(), g.id(), g.id(), g.id()}
		ls := []string{"new cap=0"}
		for k, id := range ids {
			ls = append(ls, fmt.Sprintf("t1 0 enq %d %d 100000", id, slot(4-k)))
		}
		for range ids {
			ls = append(ls, "t2 0 deq 150000")
		}
		g.emit(append(ls, "end")...)
	case 7: // a sooner element arrives while the consumer is parked on a soon one
		a, b := g.id(), g.id()
		g.emit("new cap=0",
			fmt.Sprintf("t1 0 enq %d %d 100000", a, slot(4)),
			fmt.Sprintf("t2 %d deq 150000", j(200, 1500)),
			fmt.Sprintf("t3 %d enq %d %d 100000", j(2500, 4000), b, slot(2)),
			fmt.Sprintf("t2 0 deq 150000"),
			"end")
	case 8: // bounded, several blocked producers, one consumer draining; a cancelled producer in between
		ls := []string{"new cap=1"}
		for k := 0; k < 3; k++ {
			ls = append(ls, fmt.Sprintf("t%d %d enq %d %d %d", k+1, j(0, 800), g.id(), slot(-4+k), longCtx))
		}
		ls = append(ls, fmt.Sprintf("t4 %d enq %d %d %d", j(0, 800), g.id(), slot(-5), j(500, 2500)))
		for k := 0; k < 3; k++ {
			ls = append(ls, fmt.Sprintf("t5 %d deq 150000", j(1500, 3000)))
		}
		g.emit(append(ls, "end")...)
	case 9, 10, 11:
		g.cancelRace(i % nDirected)
	case 12:
		// Several consumers parked on the timer of a far element; a sooner element x arrives; the consumers with
		// a short context give up before x expires: the remaining one must have been woken by that Enqueue too
		// (re-armed for x), although it was not the one that "got" the wake-up.  A cond that wakes ONE waiter
		// where the code broadcasts leaves it asleep on the far timer.
		a, x := g.id(), g.id()
		ls := []string{"new cap=0", fmt.Sprintf("t1 0 enq %d %d 100000", a, far(0))}
		n := r.Range(2, 3)
		long := r.Range(0, n)
		for k := 0; k <= n; k++ {
			c := j(12000, 16000) // ends after x arrived (<= 7 ms) and before x expires (>= 40 ms)
			if k == long {
				c = longCtx
			}
			ls = append(ls, fmt.Sprintf("t%d %d deq %d", 2+k, j(0, 2000), c))
		}
		ls = append(ls, fmt.Sprintf("t9 %d enq %d %d 100000", j(4500, 7000), x, slot(j(4, 5))))
		g.emit(append(ls, "end")...)
	case 13, 14, 15:
		g.simultaneous(i % nDirected)
	case 16:
		// an element that never expires (Delay() == math.MaxInt64) next to elements that are already expired or expire
		// soon: the expired one is the earliest and must come out at once, in whichever order they were enqueued
		a, b, c := g.id(), g.id(), g.id()
		enq := []string{fmt.Sprintf("t1 0 enq %d %d 100000", a, neverUs), fmt.Sprintf("t1 0 enq %d %d 100000", b, slot(-3)),
			fmt.Sprintf("t1 0 enq %d %d 100000", c, slot(j(1, 2)))}
		r.Shuffle(len(enq), func(x, y int) { enq[x], enq[y] = enq[y], enq[x] })
		for k := range enq { // the three Enqueues keep their (shuffled) order on one thread
			enq[k] = strings.Replace(enq[k], "t1 0", fmt.Sprintf("t1 %d", j(0, 300)), 1)
		}
		ls := append([]string{"new cap=0"}, enq...)
		ls = append(ls, fmt.Sprintf("t2 %d deq 150000", j(3000, 5000)), fmt.Sprintf("t2 %d deq 150000", j(0, 1000)),
			fmt.Sprintf("t2 0 deq %d", j(2000, 6000)))
		g.emit(append(ls, "end")...)
	case 17:
		// a consumer parked on the never-expiring head; an expired element arrives and must be handed out
		a, b := g.id(), g.id()
		g.emit("new cap=0",
			fmt.Sprintf("t1 0 enq %d %d 100000", a, neverUs),
			fmt.Sprintf("t2 %d deq %d", j(500, 2500), longCtx),
			fmt.Sprintf("t3 %d enq %d %d 100000", j(4000, 7000), b, slot(-2)),
			"end")
	case 18, 19, 20:
		g.clockStep(i)
	case 21, 22:
		g.slowDelay(i)
	case 23, 24, 25, 26:
		g.parkedThenFull(i)
	}
}

const nDirected = 27

// clockStep: elements on the steppable WALL clock (elem=clk).  The clock is stepped while consumers are parked on
// the timer they armed from an earlier Delay() reading, so that the timer's tick and the element's Delay() disagree:
// after a step BACK the tick comes while Delay() is still positive (the element must stay in the queue until the
// wall clock reaches its deadline), after a step FORWARD the element is expired before the tick (late, never early).
// At most two elements are ever in the queue and the thread that steps the clock is the one that enqueues, so no
// comparison of the heap straddles a step (the heap order stays the deadline order).
//
//	18: one element, one or two consumers, one or two steps back while they are parked
//	19: head + far element, step forward then further back (net back); the far element never comes out
//	20: bounded (cap 1|2): a producer blocked on the full queue behind a parked consumer, step back; the slot is
//	    freed only when the wall clock reaches the head's deadline, and then the producer must proceed
func (g *gen) clockStep(i int) {
	r := g.r
	j := func(lo, hi int) int { return r.Range(lo, hi) }
	head := g.id()
	hs := j(2, 4) // the head's deadline: 20..40 ms
	back := func() int { return -slot(j(2, 5)) - j(0, 3000) }
	var ls []string
	switch i % nDirected {
	case 18:
		ls = append(ls, "new cap=0 elem=clk", fmt.Sprintf("t1 0 enq %d %d 100000", head, slot(hs)))
		for k := 0; k < j(1, 2); k++ {
			ls = append(ls, fmt.Sprintf("t%d %d deq 250000", 2+k, j(300, 2500)))
		}
		ls = append(ls, fmt.Sprintf("t1 %d step %d 0", j(5000, 12000), back()))
		if r.Chance(40) { // a second step back, at about the instant the first timer fires
			ls = append(ls, fmt.Sprintf("t1 %d step %d 0", slot(hs)-12000+j(-2000, 2000), -slot(j(1, 2))))
		}
	case 19:
		fwd := slot(1) + j(0, 3000)
		ls = append(ls, "new cap=0 elem=clk",
			fmt.Sprintf("t1 0 enq %d %d 100000", head, slot(hs)),
			fmt.Sprintf("t1 0 enq %d %d 100000", g.id(), far(0)),
			fmt.Sprintf("t2 %d deq 250000", j(300, 2500)),
			fmt.Sprintf("t3 %d deq %d", j(300, 2500), j(150000, 200000)), // outlives the head, never gets the far one
			fmt.Sprintf("t1 %d step %d 0", j(4000, 7000), fwd),
			fmt.Sprintf("t1 %d step %d 0", j(2000, 5000), back()-fwd))
	default:
		capc := j(1, 2)
		ls = append(ls, fmt.Sprintf("new cap=%d elem=clk", capc), fmt.Sprintf("t1 0 enq %d %d 100000", head, slot(hs)))
		ls = append(ls, fmt.Sprintf("t2 %d deq 250000", j(300, 2000)))
		if capc == 2 {
			ls = append(ls, fmt.Sprintf("t1 %d enq %d %d 100000", j(2500, 4000), g.id(), far(0)))
		}
		ls = append(ls,
			fmt.Sprintf("t3 %d enq %d %d %d", j(5000, 7000), g.id(), far(1), longCtx), // blocks: the queue is full
			fmt.Sprintf("t1 %d step %d 0", j(4000, 8000), back()))
	}
	g.emit(append(ls, "end")...)
}

// slowDelay: one evaluation of an element's Delay() takes milliseconds (elem=clk, `stall`; the clock is not stepped).
// The queue evaluates Delay() under its mutex, so while that evaluation lasts every other caller queues up on the
// mutex: consumers woken by a broadcast sit there while the timers they armed fire unreceived, producers pile up.
// What comes out afterwards must still be expired, the earliest, delivered once.
//
//	21: two or three consumers parked on the same head; a later-expiring element is enqueued (wakes them all) right
//	    after the head's Delay() was made slow; the head expires during the stall; the next elements are far
//	22: the slow evaluation hits whoever touches the element first (a producer's comparison or a consumer's peek) in a
//	    bounded queue with a blocked producer
func (g *gen) slowDelay(i int) {
	r := g.r
	j := func(lo, hi int) int { return r.Range(lo, hi) }
	var ls []string
	if i%nDirected == 21 {
		head := g.id()
		hs := j(2, 3)
		ls = append(ls, "new cap=0 elem=clk", fmt.Sprintf("t1 0 enq %d %d 100000", head, slot(hs)))
		for k := 0; k < j(1, 2); k++ {
			ls = append(ls, fmt.Sprintf("t1 0 enq %d %d 100000", g.id(), far(k)))
		}
		n := j(2, 3)
		for k := 0; k < n; k++ {
			ls = append(ls, fmt.Sprintf("t%d %d deq %d", 2+k, j(300, 2000), j(120000, 150000)))
		}
		// armed when everybody is parked; lasts beyond the head's deadline
		ls = append(ls, fmt.Sprintf("t1 %d stall %d %d", j(5000, 8000), head, slot(hs)+j(2000, 12000)),
			fmt.Sprintf("t1 0 enq %d %d 100000", g.id(), far(3)))
	} else {
		capc := j(1, 2)
		a, b := g.id(), g.id()
		ls = append(ls, fmt.Sprintf("new cap=%d elem=clk", capc), fmt.Sprintf("t1 0 enq %d %d 100000", a, slot(j(1, 2))))
		if capc == 2 {
			ls = append(ls, fmt.Sprintf("t1 0 enq %d %d 100000", g.id(), slot(4)))
		}
		ls = append(ls,
			fmt.Sprintf("t1 %d stall %d %d", j(0, 1500), a, j(4000, 15000)),
			fmt.Sprintf("t2 %d enq %d %d %d", j(1000, 3000), b, slot(-2), longCtx),
			fmt.Sprintf("t3 %d deq 150000", j(1000, 3000)),
			fmt.Sprintf("t4 %d deq 150000", j(1000, 3000)))
	}
	g.emit(append(ls, "end")...)
}

// parkedThenFull: the state a waiter saw when it parked is not the state at the moment it acts.  Consumers park (on
// the head's timer, or on the empty queue) while the bounded queue still has room; then elements that do NOT become
// the head fill it; then producers block on the full queue; then the head expires and a parked consumer takes it on
// the timer path.  Every removal frees a slot, whatever the queue looked like when the consumer last peeked: a
// blocked producer must get in (long contexts: a lost wake-up shows as a call that stays blocked).
//
//	23: consumers parked on the head's timer; fill with later/far elements; a producer blocks
//	24: the same, two blocked producers bring already expired elements, so consumers and producers take turns
//	25: consumers parked on the EMPTY queue; a soon head and the fill arrive; a producer blocks; timer path again
//	26: the producer's side of the same: when it blocked, its element was later than the head; by the time it gets in the
//	    queue is empty or its element is the earliest — the consumer that went back to waiting (on the empty queue / on a
//	    far element's timer) after losing the head must be woken by that Enqueue
func (g *gen) parkedThenFull(i int) {
	r := g.r
	j := func(lo, hi int) int { return r.Range(lo, hi) }
	kind := i % nDirected
	if kind == 26 {
		capc, hs := j(1, 2), j(2, 3)
		ls := []string{fmt.Sprintf("new cap=%d", capc), fmt.Sprintf("t1 0 enq %d %d 100000", g.id(), slot(hs))}
		ncons := j(2, 3)
		for k := 0; k < ncons; k++ { // every consumer gets an element: long contexts
			ls = append(ls, fmt.Sprintf("t%d %d deq %d", 2+k, j(300, 2000), longCtx))
		}
		if capc == 2 {
			ls = append(ls, fmt.Sprintf("t1 %d enq %d %d 100000", j(2500, 4000), g.id(), far(1)))
		}
		// one blocked producer per remaining consumer; they get in one by one, in any order, as the heads are taken
		for k := 0; k+1 < ncons; k++ {
			ls = append(ls, fmt.Sprintf("t%d %d enq %d %d %d", 6+k, j(8000, 11000), g.id(), slot(hs+2+k), longCtx))
		}
		g.emit(append(ls, "end")...)
		return
	}
	capc := j(2, 3)
	head := g.id()
	hs := j(2, 4)
	ls := []string{fmt.Sprintf("new cap=%d", capc)}
	// as many blocked producers as removals are certain to happen (a producer that legitimately stays blocked on the
	// full queue would only sit out its long context); the consumers' contexts end well after the head expired
	ncons, nprod := j(1, 2), 1
	if kind == 24 {
		nprod = 2
	}
	const consCtx = 150000
	if kind == 25 {
		for k := 0; k < ncons; k++ {
			ls = append(ls, fmt.Sprintf("t%d %d deq %d", 2+k, j(0, 1500), consCtx))
		}
		ls = append(ls, fmt.Sprintf("t1 %d enq %d %d 100000", j(2500, 3500), head, slot(hs)))
	} else {
		ls = append(ls, fmt.Sprintf("t1 0 enq %d %d 100000", head, slot(hs)))
		for k := 0; k < ncons; k++ {
			ls = append(ls, fmt.Sprintf("t%d %d deq %d", 2+k, j(300, 2000), consCtx))
		}
	}
	// the fill: later than the head, so the parked consumers' timers stay valid
	for k := 1; k < capc; k++ {
		off := far(k)
		if r.Chance(30) {
			off = slot(hs + 2 + k)
		}
		sl := 0
		if k == 1 {
			sl = j(2500, 4000)
		}
		ls = append(ls, fmt.Sprintf("t1 %d enq %d %d 100000", sl, g.id(), off))
	}
	for k := 0; k < nprod; k++ {
		off := far(5 + k)
		if kind == 24 {
			off = slot(-3 + k)
		}
		ls = append(ls, fmt.Sprintf("t%d %d enq %d %d %d", 5+k, j(8000, 11000), g.id(), off, longCtx))
	}
	if kind == 24 && ncons == 1 {
		// the expired elements the producers bring are taken by a later consumer
		ls = append(ls, fmt.Sprintf("t8 %d deq %d", slot(hs)+j(3000, 6000), consCtx))
	}
	g.emit(append(ls, "end")...)
}

// simultaneous: the waiter (long context) and the operation that enables it start at about the SAME instant, so
// that the enabling broadcast can fall anywhere inside the waiter's call — between its peek and the fetch of the
// signal channel, between the fetch and the select, after the timer was armed.  On a healthy tree the waiter
// returns at once or is woken; a wake-up lost in one of these windows leaves it parked for its 3 s context.
//
//	13: consumer on an empty queue  vs  Enqueue of an expired element
//	14: consumer on a far element   vs  Enqueue of an expired element
//	15: producer on a full queue    vs  Dequeue of an expired element
func (g *gen) simultaneous(kind int) {
	r := g.r
	at := func() int { return 1000 + r.Range(0, 120) } // both sides sleep ~1 ms, then race
	var ls []string
	switch kind {
	case 13, 14:
		ls = append(ls, "new cap=0")
		if kind == 14 {
			ls = append(ls, fmt.Sprintf("t1 0 enq %d %d 100000", g.id(), far(0)))
		}
		n := r.Range(1, 2)
		for k := 0; k < n; k++ {
			ls = append(ls, fmt.Sprintf("t%d %d deq %d", 2+k, at(), longCtx))
		}
		for k := 0; k < n; k++ {
			ls = append(ls, fmt.Sprintf("t%d %d enq %d %d 100000", 5+k, at(), g.id(), slot(-3+k)))
		}
	default:
		ls = append(ls, "new cap=1", fmt.Sprintf("t1 0 enq %d %d 100000", g.id(), slot(-5)),
			fmt.Sprintf("t2 %d enq %d %d %d", at(), g.id(), slot(-4), longCtx),
			fmt.Sprintf("t3 %d deq 100000", at()),
			"t3 3000 deq 100000")
	}
	g.emit(append(ls, "end")...)
}

// cancelRace: a parked call is cancelled BACK-TO-BACK with the operation that would have woken it (the
// waker's broadcast overlaps the cancelled waiter's way out of its select), several rounds; then a fresh
// lone waiter parks and the next waking operation must wake it; then the capacity probe.  Any bookkeeping
// a cond keeps about its waiters must survive this.
//
//	 9: producers blocked on a full bounded queue, woken by Dequeue
//	10: consumers parked on an empty queue, woken by Enqueue of an expired element
//	11: consumers parked on the timer of a far element, woken by Enqueue of an expired element
func (g *gen) cancelRace(kind int) {
	r := g.r
	rounds := r.Range(2, 3)
	park := func() int { return r.Range(3000, 7000) }
	var ls []string
	h := 0
	// the waiter of round k (and the fresh waiter) starts when t1 has finished round k-1: `mark 100+k`
	gate := func(th int) {
		if h > 1 {
			ls = append(ls, fmt.Sprintf("t%d 0 await %d 0", th, 100+h-1))
		}
	}
	switch kind {
	case 9:
		ls = append(ls, "new cap=1", fmt.Sprintf("t1 0 enq %d %d 100000", g.id(), slot(-8)))
		for k := 0; k < rounds; k++ {
			h++
			gate(10 + h)
			ls = append(ls,
				fmt.Sprintf("t%d %d enq %d %d c%d:%d", 10+h, r.Range(0, 500), g.id(), slot(-7+k), h, longCtx),
				fmt.Sprintf("t1 0 cancel %d %d", h, park()),
				"t1 0 deq 100000", // frees the slot at the instant the blocked producer gives up
				fmt.Sprintf("t1 0 enq %d %d 30000", g.id(), slot(-7+k)),
				fmt.Sprintf("t1 0 mark %d 0", 100+h))
		}
		h++
		gate(10 + h)
		ls = append(ls,
			fmt.Sprintf("t%d 0 enq %d %d c%d:%d", 10+h, g.id(), slot(-2), h, longCtx), // the fresh producer
			fmt.Sprintf("t1 0 await %d %d", h, park()+4000),
			"t1 0 deq 100000", // must wake it
			"t1 2000 deq 100000")
	default:
		capc := vlib.Pick(r, []int{0, 4})
		ls = append(ls, fmt.Sprintf("new cap=%d", capc))
		if kind == 11 {
			ls = append(ls, fmt.Sprintf("t1 0 enq %d %d 100000", g.id(), far(0)))
		}
		for k := 0; k < rounds; k++ {
			h++
			gate(10 + h)
			ls = append(ls,
				fmt.Sprintf("t%d %d deq c%d:%d", 10+h, r.Range(0, 500), h, longCtx),
				fmt.Sprintf("t1 0 cancel %d %d", h, park()),
				fmt.Sprintf("t1 0 enq %d %d 100000", g.id(), slot(-7+k)), // arrives as the parked consumer gives up
				"t1 0 deq 30000",
				fmt.Sprintf("t1 0 mark %d 0", 100+h))
		}
		h++
		gate(10 + h)
		ls = append(ls,
			fmt.Sprintf("t%d 0 deq c%d:%d", 10+h, h, longCtx), // the fresh consumer
			fmt.Sprintf("t1 0 await %d %d", h, park()+4000),
			fmt.Sprintf("t1 0 enq %d %d 100000", g.id(), slot(-2))) // must wake it
	}
	g.emit(append(ls, "end")...)
}

func (g *gen) random(focus string) {
	r := g.r
	capc := vlib.Pick(r, []int{0, 0, 0, 1, 2, 3})
	if focus == "wake" {
		capc = vlib.Pick(r, []int{0, 1, 1, 2, 2, 3})
	}
	nthr := r.Range(2, 4)
	total := r.Range(3, 11)
	used := map[int]bool{}
	pickSlot := func() int {
		for tries := 0; ; tries++ {
			k := r.Range(-8, 5)
			if r.Chance(12) {
				k = 1000 + r.Range(0, 5) // far
			}
			if !used[k] || (tries > 3 && r.Chance(30)) { // exact ties are rare but present
				used[k] = true
				if k >= 1000 {
					return far(k - 1000)
				}
				return slot(k)
			}
		}
	}
	ctx := func() int {
		p := r.Intn(100)
		switch {
		case p < 8:
			return 0
		case p < 30 || (focus == "wake" && p < 50):
			return r.Range(500, 6000)
		default:
			return r.Range(90000, 130000)
		}
	}
	// every fourth case runs on the value-type instantiation; there one element may be velem{}, the
	// zero value of T (id 0; its deadline is the process start, the offset on the line does not apply)
	val := r.Chance(25)
	zeroLeft := val && r.Chance(70)
	if val {
		g.emit(fmt.Sprintf("new cap=%d elem=val", capc))
	} else {
		g.emit(fmt.Sprintf("new cap=%d", capc))
	}
	enqs, deqs := 0, 0
	for k := 0; k < total; k++ {
		th := r.Range(1, nthr)
		sl := vlib.Pick(r, []int{0, 0, 0, 200, 1000, 2500, 4000})
		if sl > 0 {
			sl += r.Intn(300)
		}
		wantEnq := r.Chance(50)
		if deqs > enqs+1 {
			wantEnq = true
		}
		if wantEnq {
			enqs++
			id := g.id()
			if zeroLeft && r.Chance(35) {
				id, zeroLeft = 0, false
			}
			g.emit(fmt.Sprintf("t%d %d enq %d %d %d", th, sl, id, pickSlot(), ctx()))
		} else {
			deqs++
			g.emit(fmt.Sprintf("t%d %d deq %d", th, sl, ctx()))
		}
	}
	g.emit("end")
}

func generate(tier, focus string, out *vlib.Out) {
	g := &gen{r: vlib.NewRng(vlib.Seed()), out: out}
	nd, nr := 216, 420
	if focus == "wake" {
		nd, nr = 270, 240
	}
	if tier == "thorough" {
		nd, nr = nd*6, nr*8
	}
	// NewDelayQueue(c) with c <= 0 is the unbounded queue
	g.emit("new cap=-1", fmt.Sprintf("t1 0 enq %d %d 100000", g.id(), slot(-1)), fmt.Sprintf("t1 0 enq %d %d 100000", g.id(), slot(-2)),
		"t2 1000 deq 100000", "t2 0 deq 100000", "t2 0 deq 2000", "end")
	// the value-type instantiation and the zero value of T (velem{}, id 0, expired since the process
	// started): accepted, counted, delivered (first: it is the earliest), wakes a parked consumer, frees
	// its slot for a blocked producer
	g.emit("new cap=0 elem=val", fmt.Sprintf("t1 0 enq %d %d 100000", g.id(), far(0)), "t1 0 enq 0 0 100000",
		"t2 1000 deq 100000", "t2 0 deq 3000", "end")
	g.emit("new cap=2 elem=val", fmt.Sprintf("t1 0 enq %d %d 100000", g.id(), slot(2)), "t1 0 enq 0 0 100000",
		"t2 1000 deq 100000", "t2 0 deq 100000", "t2 0 deq 2000", "end")
	g.emit("new cap=1 elem=val", "t1 0 enq 0 0 100000", fmt.Sprintf("t2 1000 enq %d %d %d", g.id(), slot(-1), longCtx),
		"t3 4000 deq 150000", "t3 0 deq 150000", "end")
	g.emit("new cap=0 elem=val", fmt.Sprintf("t1 0 deq %d", longCtx), "t2 3000 enq 0 0 100000", "end")
	g.emit("new cap=-1 elem=val", fmt.Sprintf("t1 0 enq %d %d 100000", g.id(), slot(-1)), fmt.Sprintf("t1 0 enq %d %d 100000", g.id(), slot(1)),
		"t2 1000 deq 100000", "t2 0 deq 100000", "t2 0 deq 2000", "end")
	for i := 0; i < nd; i++ {
		g.directed(i)
	}
	for i := 0; i < nr; i++ {
		g.random(focus)
	}
}

// ---------------------------------------------------------------------------------------------
// execution

type call struct {
	line    string
	thr     int
	sleepUs int
	kind    string
	id      int
	offUs   int
	ctxUs   int
	handle  int // >0: the call's context is cancellable through this handle; for cancel/await: the target
	parkUs  int

	done       bool
	res        string
	sinv, sres int64
	tinv, tres int64
	dl         int64
	rem        int64
	ln         int
}

func parseCase(lines []string) (capc int, val bool, clk bool, calls []*call, err error) {
	if len(lines) == 0 || !strings.HasPrefix(lines[0], "new cap=") {
		return 0, false, false, nil, fmt.Errorf("case must start with new cap=")
	}
	hd := strings.Fields(lines[0])
	capc, _ = strconv.Atoi(strings.TrimPrefix(hd[1], "cap="))
	val = len(hd) > 2 && hd[2] == "elem=val"
	clk = len(hd) > 2 && hd[2] == "elem=clk"
	for _, l := range lines[1:] {
		w := strings.Fields(l)
		if len(w) == 0 || w[0] == "end" {
			continue
		}
		c := &call{line: l}
		if len(w) < 4 || !strings.HasPrefix(w[0], "t") {
			return 0, false, false, nil, fmt.Errorf("bad op line %q", l)
		}
		c.thr, _ = strconv.Atoi(w[0][1:])
		c.sleepUs, _ = strconv.Atoi(w[1])
		c.kind = w[2]
		ctxTok := func(t string) {
			if strings.HasPrefix(t, "c") {
				if i := strings.IndexByte(t, ':'); i > 0 {
					c.handle, _ = strconv.Atoi(t[1:i])
					t = t[i+1:]
				}
			}
			c.ctxUs, _ = strconv.Atoi(t)
		}
		switch {
		case c.kind == "enq" && len(w) == 6:
			c.id, _ = strconv.Atoi(w[3])
			c.offUs, _ = strconv.Atoi(w[4])
			ctxTok(w[5])
		case c.kind == "deq" && len(w) == 4:
			ctxTok(w[3])
		case (c.kind == "cancel" || c.kind == "await" || c.kind == "mark") && len(w) == 5:
			c.handle, _ = strconv.Atoi(w[3])
			c.parkUs, _ = strconv.Atoi(w[4])
		case (c.kind == "step" || c.kind == "stall") && len(w) == 5 && clk:
			c.id, _ = strconv.Atoi(w[3])    // step: the signed delta in µs; stall: the element
			c.offUs, _ = strconv.Atoi(w[4]) // stall: the duration in µs
		default:
			return 0, false, false, nil, fmt.Errorf("bad op line %q", l)
		}
		calls = append(calls, c)
	}
	return capc, val, clk, calls, nil
}

func mkCtx(us int) (context.Context, context.CancelFunc) {
	if us <= 0 {
		ctx, cancel := context.WithCancel(context.Background())
		cancel()
		return ctx, cancel
	}
	return context.WithTimeout(context.Background(), time.Duration(us)*time.Microsecond)
}

func errTok(err error) string {
	switch {
	case err == nil:
		return "ok"
	case errors.Is(err, context.DeadlineExceeded), errors.Is(err, context.Canceled):
		return "ctx"
	}
	return "err:other"
}

// every call carries a context of at most 3 s; a scenario normally lasts well under 200 ms
const watchdog = 12 * time.Second

// probeCtxUs bounds the probe calls that MUST succeed (a free slot exists / an expired element is
// present); they return at once, the bound only matters on a broken tree.  Never use a short context
// for a call whose success is asserted: under load the context can expire before the call even starts.
const probeCtxUs = 4_000_000

// Scheduling jitter: a monitor goroutine sleeps 500 µs in a loop and records by how much it overslept;
// every worker records the oversleep of its own pre-call sleeps.  The maximum seen during a scenario is
// reported as `jit=` (µs) on the end line; the oracle widens its tie tolerance and wake-up bound by it.
type jitter struct {
	mu  sync.Mutex
	reg map[*atomic.Int64]struct{}
}

var jit = jitter{reg: map[*atomic.Int64]struct{}{}}

func noteJit(p *atomic.Int64, over time.Duration) {
	v := int64(over / time.Microsecond)
	for {
		old := p.Load()
		if v <= old || p.CompareAndSwap(old, v) {
			return
		}
	}
}

func (j *jitter) start() {
	go func() {
		const nap = 500 * time.Microsecond
		for {
			t := time.Now()
			time.Sleep(nap)
			over := time.Since(t) - nap
			j.mu.Lock()
			for p := range j.reg {
				noteJit(p, over)
			}
			j.mu.Unlock()
		}
	}()
}
func (j *jitter) add(p *atomic.Int64) { j.mu.Lock(); j.reg[p] = struct{}{}; j.mu.Unlock() }
func (j *jitter) del(p *atomic.Int64) { j.mu.Lock(); delete(j.reg, p); j.mu.Unlock() }

// set once a scenario hung: the remaining scenarios are skipped (the hang is the finding; leaked
// goroutines of a hung scenario would only slow the others down)
var aborted atomic.Bool

// timerDisc names the timer-channel discipline this process runs under.  The harness is built inside
// the ekit module (go.mod says go 1.20), so the default is the pre-1.23 asynchronous channel;
// GODEBUG=asynctimerchan=0 selects the Go >= 1.23 synchronous one.
func timerDisc() string {
	for _, kv := range strings.Split(os.Getenv("GODEBUG"), ",") {
		if kv == "asynctimerchan=0" {
			return "sync"
		}
	}
	return "async"
}

func runCase(lines []string) []string {
	capc, val, clk, calls, err := parseCase(lines)
	if err != nil {
		return []string{fmt.Sprintf("%s => bad-case %s", lines[0], strings.ReplaceAll(err.Error(), " ", "_"))}
	}
	var q dq
	sc := &scen{stalls: map[int]*atomic.Int64{}}
	if p := vlib.Catch(func() {
		if val {
			q = valQ{queue.NewDelayQueue[velem](capc)}
		} else if clk {
			q = clkQ{queue.NewDelayQueue[*celem](capc), sc}
		} else {
			q = ptrQ{queue.NewDelayQueue[*elem](capc)}
		}
	}); p != "" {
		return []string{fmt.Sprintf("%s => %s", lines[0], p)}
	}
	out := []string{fmt.Sprintf("%s => ok cap=%d disc=%s", lines[0], q.VerifCap(), timerDisc())}
	var jmax atomic.Int64
	jit.add(&jmax)
	defer jit.del(&jmax)
	t0 := time.Now()
	us := func(t time.Time) int64 {
		v := int64(t.Sub(t0)/time.Microsecond) + epochShiftUs
		if v < 0 { // only the deadline of velem{} (the process start) in a process older than 1000 s
			v = 0
		}
		return v
	}
	var seq atomic.Int64
	var mu sync.Mutex // protects the `done` flags against the watchdog's read
	type handle struct {
		invoked chan struct{} // closed when the call is about to enter the queue
		once    sync.Once
		mu      sync.Mutex
		cancel  context.CancelFunc
	}
	handles := map[int]*handle{}
	byThr := map[int][]*call{}
	for _, c := range calls {
		byThr[c.thr] = append(byThr[c.thr], c)
		if c.handle > 0 && (c.kind == "enq" || c.kind == "deq" || c.kind == "mark") {
			handles[c.handle] = &handle{invoked: make(chan struct{})}
		}
	}
	var wg sync.WaitGroup
	for _, cs := range byThr {
		wg.Add(1)
		go func(cs []*call) {
			defer wg.Done()
			for _, c := range cs {
				if c.sleepUs > 0 {
					ts, d := time.Now(), time.Duration(c.sleepUs)*time.Microsecond
					time.Sleep(d)
					noteJit(&jmax, time.Since(ts)-d)
				}
				if c.kind == "mark" {
					if hd := handles[c.handle]; hd != nil {
						hd.once.Do(func() { close(hd.invoked) })
					}
					mu.Lock()
					c.res, c.done = "ok", true
					mu.Unlock()
					continue
				}
				if c.kind == "stall" {
					sc.stallCell(c.id).Store(int64(c.offUs) * 1000)
					mu.Lock()
					c.res, c.done = "ok", true
					mu.Unlock()
					continue
				}
				if c.kind == "step" {
					// stamps bracket the instant at which the skew changes; `skew` is the value in force afterwards
					sinv := seq.Add(1)
					tinv := time.Now()
					now := sc.skew.Add(int64(c.id) * 1000)
					tres := time.Now()
					sres := seq.Add(1)
					mu.Lock()
					c.res, c.sinv, c.sres, c.tinv, c.tres, c.rem = "ok", sinv, sres, us(tinv), us(tres), now/1000
					c.done = true
					mu.Unlock()
					continue
				}
				if c.kind == "cancel" || c.kind == "await" {
					if hd := handles[c.handle]; hd != nil {
						select {
						case <-hd.invoked:
							time.Sleep(time.Duration(c.parkUs) * time.Microsecond)
						case <-time.After(5 * time.Second):
						}
						if c.kind == "cancel" {
							hd.mu.Lock()
							cf := hd.cancel
							hd.mu.Unlock()
							if cf != nil {
								cf() // the thread's next line follows immediately
							}
						}
					}
					mu.Lock()
					c.res, c.done = "ok", true
					mu.Unlock()
					continue
				}
				ctx, cancel := mkCtx(c.ctxUs)
				invoked := func() {}
				if hd := handles[c.handle]; hd != nil && c.handle > 0 {
					hd.mu.Lock()
					hd.cancel = cancel
					hd.mu.Unlock()
					invoked = func() { hd.once.Do(func() { close(hd.invoked) }) }
				}
				var res string
				var dl, rem int64
				var sinv, sres int64
				var tinv, tres time.Time
				p := vlib.Catch(func() {
					if c.kind == "enq" {
						deadline := t0.Add(time.Duration(c.offUs) * time.Microsecond)
						if c.offUs >= neverUs {
							// "never": further away than a Duration can express, Delay() saturates at math.MaxInt64
							deadline = time.Date(9999, 1, 1, 0, 0, 0, 0, time.UTC)
						}
						dl = int64(c.offUs) + epochShiftUs
						if val && c.id == 0 { // velem{}: the offset of the ops line does not apply
							deadline = zeroDeadline()
							dl = us(deadline)
						}
						sinv = seq.Add(1)
						tinv = time.Now()
						invoked()
						err := q.Enqueue(ctx, c.id, deadline)
						tres = time.Now()
						sres = seq.Add(1)
						res = errTok(err)
					} else {
						sinv = seq.Add(1)
						tinv = time.Now()
						invoked()
						id, deadline, r, isNil, err := q.Dequeue(ctx)
						tres = time.Now()
						if err == nil && !isNil {
							rem = r
						}
						sres = seq.Add(1)
						res = errTok(err)
						if err == nil {
							if isNil {
								res = "ok:nil"
							} else {
								res = "ok:" + strconv.Itoa(id)
								dl = us(deadline)
							}
						}
					}
				})
				cancel()
				if p != "" {
					res = p
					if tres.IsZero() {
						tres = time.Now()
						sres = seq.Add(1)
					}
				}
				ln := q.VerifLen()
				mu.Lock()
				c.res, c.sinv, c.sres, c.tinv, c.tres, c.dl, c.rem, c.ln = res, sinv, sres, us(tinv), us(tres), dl, rem, ln
				c.done = true
				mu.Unlock()
			}
		}(cs)
	}
	fin := make(chan struct{})
	go func() { wg.Wait(); close(fin) }()
	hung := false
	select {
	case <-fin:
	case <-time.After(watchdog):
		hung = true
	}
	lenF := func(n int) string {
		if n < 0 {
			return ""
		}
		return fmt.Sprintf(" len=%d", n)
	}
	mu.Lock()
	for _, c := range calls {
		if c.kind == "cancel" || c.kind == "await" || c.kind == "mark" || c.kind == "stall" {
			out = append(out, fmt.Sprintf("%s => ok", c.line)) // not a call on the queue
			continue
		}
		if c.kind == "step" && c.done {
			out = append(out, fmt.Sprintf("%s => ok sinv=%d sres=%d tinv=%d tres=%d skew=%d", c.line, c.sinv, c.sres, c.tinv, c.tres, c.rem))
			continue
		}
		if !c.done {
			out = append(out, fmt.Sprintf("%s => hang jit=%d", c.line, jmax.Load()))
			continue
		}
		switch {
		case c.kind == "enq":
			out = append(out, fmt.Sprintf("%s => %s sinv=%d sres=%d tinv=%d tres=%d dl=%d%s",
				c.line, c.res, c.sinv, c.sres, c.tinv, c.tres, c.dl, lenF(c.ln)))
		case strings.HasPrefix(c.res, "ok:"):
			out = append(out, fmt.Sprintf("%s => %s sinv=%d sres=%d tinv=%d tres=%d dl=%d rem=%d%s",
				c.line, c.res, c.sinv, c.sres, c.tinv, c.tres, c.dl, c.rem, lenF(c.ln)))
		default:
			out = append(out, fmt.Sprintf("%s => %s sinv=%d sres=%d tinv=%d tres=%d%s",
				c.line, c.res, c.sinv, c.sres, c.tinv, c.tres, lenF(c.ln)))
		}
	}
	mu.Unlock()
	if hung {
		aborted.Store(true)
		return append(out, fmt.Sprintf("end => hang jit=%d", jmax.Load()))
	}
	// quiescent: final length and (bounded queues) the capacity-conservation probe
	endc := make(chan string, 1)
	go func() {
		finallen := q.VerifLen()
		s := fmt.Sprintf("finallen=%d", finallen)
		if finallen < 0 {
			s = "finallen=na" // black-box stubs: the length is not observable
		}
		if capc > 0 {
			// Capacity-conservation probe.  Calls whose success is asserted get the generous probeCtxUs
			// (they return at once on a healthy tree); only the call that is EXPECTED to block gets a
			// short context.  White-box: fill exactly cap-len slots.  Black-box (stub hooks): fill until
			// an Enqueue blocks, confirming the "blocked" verdict with a second, longer attempt.
			free := capc - finallen
			if free < 0 {
				free = 0
			}
			fill := 0
			probeBase := t0 // the probe elements are earlier than everything the scenario enqueued,
			if val {        // velem{} (deadline = process start) included
				probeBase = procEpoch
			}
			put := func(ctxUs int) bool {
				ctx, cancel := mkCtx(ctxUs)
				defer cancel()
				return q.Enqueue(ctx, 900000+fill, probeBase.Add(-50*time.Second)) == nil
			}
			if finallen >= 0 {
				for i := 0; i < free; i++ {
					if !put(probeCtxUs) {
						break
					}
					fill++
				}
			} else {
				for i := 0; i < capc; i++ {
					if !put(100_000) && !put(1_000_000) {
						break
					}
					fill++
				}
			}
			ctx, cancel := mkCtx(3000)
			extra := errTok(q.Enqueue(ctx, 999999, probeBase.Add(-60*time.Second)))
			cancel()
			// the `fill` probe elements expired long ago and are the earliest of all: exactly that many
			// Dequeues must succeed (no trailing Dequeue that would have to time out)
			var drained []int
			for i := 0; i < fill; i++ {
				ctx, cancel := mkCtx(probeCtxUs)
				id, _, _, isNil, err := q.Dequeue(ctx)
				cancel()
				if err != nil || isNil {
					break
				}
				drained = append(drained, id)
			}
			if finallen >= 0 {
				s += fmt.Sprintf(" free=%d", free)
			}
			s += fmt.Sprintf(" fill=%d extra=%s drained=%s tend=%d", fill, extra, vlib.Ints(drained), us(time.Now()))
		}
		s += fmt.Sprintf(" jit=%d", jmax.Load())
		endc <- s
	}()
	select {
	case s := <-endc:
		out = append(out, "end => "+s)
	case <-time.After(watchdog):
		aborted.Store(true)
		out = append(out, fmt.Sprintf("end => hang jit=%d", jmax.Load()))
	}
	return out
}

type stats struct {
	Ops      map[string]int `json:"ops"`
	Results  map[string]int `json:"results"`
	Caps     map[string]int `json:"caps"`
	MaxLen   int            `json:"max_len"`
	Blocked  int            `json:"calls_that_waited_over_1ms"`
	Cases    int            `json:"cases"`
	Lines    int            `json:"lines"`
	Distinct int            `json:"distinct_state_op_pairs"`
	Godebug  string         `json:"godebug"`
	Recheck  int            `json:"cases_rerun_to_confirm_a_timing_sensitive_alarm"`
	Refuted  int            `json:"timing_sensitive_alarms_not_reproduced"`
	MaxJit   int64          `json:"max_scheduling_jitter_us"`
}

func splitCases(lines []string) [][]string {
	var cases [][]string
	var cur []string
	for _, l := range lines {
		if strings.HasPrefix(l, "new ") && len(cur) > 0 {
			cases = append(cases, cur)
			cur = nil
		}
		cur = append(cur, l)
	}
	if len(cur) > 0 {
		cases = append(cases, cur)
	}
	return cases
}

func field(obs, key string) (int64, bool) {
	for _, w := range strings.Fields(obs) {
		if strings.HasPrefix(w, key+"=") {
			v, err := strconv.ParseInt(w[len(key)+1:], 10, 64)
			return v, err == nil
		}
	}
	return 0, false
}

// driverPath returns the Lean acceptor named by VERIF_DRIVER (a list of candidate paths), or "".
func driverPath() string {
	for _, p := range strings.Split(os.Getenv("VERIF_DRIVER"), string(os.PathListSeparator)) {
		if p != "" {
			if _, err := os.Stat(p); err == nil {
				return p
			}
		}
	}
	return ""
}

// verdicts runs the acceptor on trace lines; nil if it cannot be run.
func verdicts(drv string, trace []string) []string {
	cmd := exec.Command(drv, "model", "delayq")
	cmd.Stdin = strings.NewReader(strings.Join(trace, "\n") + "\n")
	b, _ := cmd.Output() // exit status 3 = some line rejected
	v := strings.Split(strings.TrimRight(string(b), "\n"), "\n")
	if len(v) != len(trace) {
		return nil
	}
	return v
}

const timingMark = "timing-sensitive"

// further executions of a scenario whose complaint is timing-sensitive; ANY rejected one confirms it
const confirmAttempts = 8

// classify: 0 = accepted, 1 = rejected for a timing-sensitive reason only, 2 = rejected with hard evidence
func classify(v []string) int {
	c := 0
	for _, l := range v {
		if strings.HasPrefix(l, "ok") {
			continue
		}
		if strings.Contains(l, timingMark) {
			if c == 0 {
				c = 1
			}
		} else {
			c = 2
		}
	}
	return c
}

// confirm: an observation that may be an artefact of load — the order of two deadlines the comparator saw at
// two instants, the model's exact-minimum replay, and, ONLY when the scheduling jitter measured during the
// scenario exceeded 200 ms, a missed second-scale bound (wake-up, cancellation promptness, probe, watchdog) —
// is reported only if one of up to confirmAttempts further executions of the same scenario is rejected as
// well; if all are accepted the scenario is inconclusive and the trace of an accepted execution is kept.
// Everything else is never retried: early release, duplicates, losses, capacity, effects of failed calls, and
// a second-scale bound missed on a quiet machine (the acceptor words those without the timing mark).  A lost
// wake-up is a race: it need not reproduce, so re-execution must not be allowed to discard it.
// Confirmation stops at the first confirmed (or hard) rejection: the run is failing anyway.
func confirm(cases [][]string, results [][]string, st *stats) (refutedHang bool) {
	drv := driverPath()
	if drv == "" {
		return false
	}
	var all []string
	start := make([]int, len(results))
	for i, tr := range results {
		start[i] = len(all)
		all = append(all, tr...)
	}
	v := verdicts(drv, all)
	if v == nil {
		return false
	}
	for i, tr := range results {
		if len(tr) == 0 {
			continue
		}
		switch classify(v[start[i] : start[i]+len(tr)]) {
		case 0:
			continue
		case 2:
			return false
		}
		hung := strings.Contains(tr[len(tr)-1], "=> hang")
		// A complaint that needs a race to be hit (a wake-up lost after a cancellation overlapped a
		// broadcast) re-rolls the race on every execution: it is confirmed as soon as ONE of up to three
		// further executions is rejected again (for any reason), and refuted only if all of them are accepted.
		// Two independent spurious rejections within a handful of executions do not happen.
		confirmed := false
		var accepted []string
		for attempt := 0; attempt < confirmAttempts; attempt++ {
			st.Recheck++
			aborted.Store(false)
			tr2 := runCase(cases[i])
			v2 := verdicts(drv, tr2)
			if v2 == nil {
				confirmed = true // cannot judge: leave the original observation to the pipeline
				break
			}
			if classify(v2) != 0 {
				results[i] = tr2
				confirmed = true
				break
			}
			accepted = tr2
		}
		if confirmed {
			return false
		}
		results[i] = accepted
		st.Refuted++
		if hung {
			refutedHang = true
		}
	}
	return refutedHang
}

func run(lines []string, out *vlib.Out, st *stats, par int) {
	jit.start()
	cases := splitCases(lines)
	results := make([][]string, len(cases))
	for pass := 0; pass < 3; pass++ {
		sem := make(chan struct{}, par)
		var wg sync.WaitGroup
		for i := range cases {
			if results[i] != nil {
				continue
			}
			wg.Add(1)
			sem <- struct{}{}
			go func(i int) {
				defer wg.Done()
				if !aborted.Load() {
					results[i] = runCase(cases[i])
				}
				<-sem
			}(i)
		}
		wg.Wait()
		// a refuted hang had made the run skip the remaining scenarios: execute them now
		if !confirm(cases, results, st) {
			break
		}
		aborted.Store(false)
	}
	seen := map[string]struct{}{}
	for i, tr := range results {
		st.Cases++
		capTok := strings.TrimPrefix(cases[i][0], "new ")
		st.Caps[capTok]++
		for _, l := range tr {
			out.Line("%s", l)
			st.Lines++
			parts := strings.SplitN(l, " => ", 2)
			w := strings.Fields(parts[0])
			if len(parts) == 2 {
				if j, ok := field(parts[1], "jit"); ok && j > st.MaxJit {
					st.MaxJit = j
				}
			}
			if len(parts) < 2 || len(w) < 3 || !strings.HasPrefix(w[0], "t") {
				continue
			}
			rk := strings.Fields(parts[1])[0]
			if strings.HasPrefix(rk, "ok:") {
				rk = "ok"
			}
			st.Ops[w[2]]++
			st.Results[w[2]+"/"+rk]++
			ln, _ := field(parts[1], "len")
			if int(ln) > st.MaxLen {
				st.MaxLen = int(ln)
			}
			ti, _ := field(parts[1], "tinv")
			tr, _ := field(parts[1], "tres")
			waited := tr-ti > 1000
			if waited {
				st.Blocked++
			}
			if rk != "ok" || w[2] == "enq" || w[2] == "deq" {
				seen[fmt.Sprintf("%s|%s|%s|%d|%v", capTok, w[2], rk, ln, waited)] = struct{}{}
			}
		}
	}
	st.Distinct = len(seen)
	keys := make([]string, 0, len(seen))
	for k := range seen {
		keys = append(keys, k)
	}
	sort.Strings(keys)
}

func main() {
	mode := flag.String("mode", "gen", "gen|run")
	tier := flag.String("tier", "quick", "quick|thorough")
	focus := flag.String("focus", "all", "all|wake")
	opsF := flag.String("ops", "", "ops file (run mode)")
	outF := flag.String("out", "", "output file")
	statsF := flag.String("stats", "", "stats json (run mode)")
	par := flag.Int("par", 8, "scenarios executed concurrently")
	flag.Parse()
	out := vlib.Create(*outF)
	defer out.Close()
	switch *mode {
	case "gen":
		generate(*tier, *focus, out)
	case "run":
		st := &stats{Ops: map[string]int{}, Results: map[string]int{}, Caps: map[string]int{}, Godebug: os.Getenv("GODEBUG")}
		run(vlib.ReadLines(*opsF), out, st, *par)
		if *statsF != "" {
			b, _ := json.MarshalIndent(st, "", " ")
			os.WriteFile(*statsF, b, 0o644)
		}
	}
}
