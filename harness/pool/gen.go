package main

import (
	"fmt"
	"strings"

	"github.com/ecodeclub/ekit/zzverif/vlib"
)

type gcfg struct {
	init, q        int
	core, max, rte string // "-" = option not given
	idle           int    // ns, 0 = one hour
	ord            string
}

func (g gcfg) String() string {
	return fmt.Sprintf("init=%d q=%d core=%s max=%s rate=%s idle=%d ord=%s", g.init, g.q, g.core, g.max, g.rte, g.idle, g.ord)
}

// effective maximum (after the constructor's normalisation) of a *valid* generated configuration
func (g gcfg) effMax() int {
	m := g.init
	if g.core != "-" {
		fmt.Sscan(g.core, &m)
	}
	if g.max != "-" {
		fmt.Sscan(g.max, &m)
	}
	return m
}

func validCfg(r *vlib.Rng, shortIdlePct int) gcfg {
	g := gcfg{core: "-", max: "-", rte: "-", ord: vlib.Pick(r, []string{"cmr", "mcr", "rcm", "rmc"})}
	g.init = vlib.Pick(r, []int{1, 1, 1, 2, 2, 3})
	g.q = vlib.Pick(r, []int{0, 1, 2, 2, 3, 4, 4, 6, 8})
	core := g.init + vlib.Pick(r, []int{0, 0, 1, 1, 2})
	mx := core + vlib.Pick(r, []int{0, 1, 1, 2})
	switch r.Intn(5) {
	case 0: // no growth option
	case 1:
		g.max = fmt.Sprint(mx)
	case 2:
		g.core = fmt.Sprint(core)
	default:
		g.core, g.max = fmt.Sprint(core), fmt.Sprint(mx)
		if core == g.init && mx != g.init && r.Chance(50) {
			// coreGo == initGo && maxGo != initGo: the constructor lifts coreGo to maxGo
		}
	}
	if r.Chance(70) {
		g.rte = vlib.Pick(r, []string{"0", "0", "250", "500", "1000"})
	}
	if r.Chance(shortIdlePct) {
		g.idle = vlib.Pick(r, []int{200000, 400000, 1000000, 3000000})
	}
	return g
}

func malformedCfg(r *vlib.Rng) gcfg {
	g := validCfg(r, 0)
	switch r.Intn(9) {
	case 0:
		g.init = 0
	case 1:
		g.init = -1
	case 2:
		g.q = -1
	case 3:
		g.core = fmt.Sprint(g.init - 1)
	case 4:
		g.core, g.max = fmt.Sprint(g.init+2), fmt.Sprint(g.init+1)
	case 5:
		g.max = fmt.Sprint(g.init - 1)
	case 6:
		g.rte = "-100"
	case 7:
		g.rte = "1500"
	case 8:
		g.core, g.max = fmt.Sprint(g.init+1), fmt.Sprint(g.init) // max == init, core != init: max is lifted
	}
	return g
}

func genSeq(r *vlib.Rng, prop string, id int, out *vlib.Out) {
	g := validCfg(r, 35)
	if r.Chance(6) {
		g = malformedCfg(r)
	}
	out.Line("new seq prop=%s id=%d %s", prop, id, g)
	mx := g.effMax()
	nsub := 0
	var blocked []int
	// how a task ends: at once (ret / err = plain error / panic) or held inside Run until the
	// scenario releases it — typically after the lifecycle has moved on (Shutdown with a backlog behind the held
	// tasks) — and then returning (block), panicking (bpanic) or failing (berr).  The mix is drawn per case: in
	// the "abnormal" profile most tasks end badly, so that every live worker can meet one in the same phase.
	mix := []int{12, 6, 7, 6, 4} // ret, err, panic, bpanic, berr; the rest: block
	if r.Chance(40) {
		mix = []int{8, 6, 12, 30, 14}
	}
	sub := func() {
		beh := "block"
		x := r.Intn(100)
		for i, b := range []string{"ret", "err", "panic", "bpanic", "berr"} {
			if x < mix[i] {
				beh = b
				break
			}
			x -= mix[i]
		}
		ms := 30
		if r.Chance(6) {
			ms = 0 // the deadline has already passed when Submit is called
		}
		out.Line("sub %s %d", beh, ms)
		if beh == "block" || beh == "bpanic" || beh == "berr" {
			blocked = append(blocked, nsub)
		}
		nsub++
	}
	rel := func() {
		if len(blocked) == 0 {
			return
		}
		i := r.Intn(len(blocked))
		out.Line("rel %d", blocked[i])
		blocked = append(blocked[:i], blocked[i+1:]...)
	}
	// before Start
	pre := 0
	if g.q > 0 {
		pre = r.Intn(g.q + 2)
		if r.Chance(40) {
			pre = g.q
		}
	} else if r.Chance(10) {
		pre = 1
	}
	for i := 0; i < pre; i++ {
		sub()
	}
	if r.Chance(12) {
		out.Line("shutdown")
	}
	if r.Chance(6) {
		out.Line("shutdownnow")
	}
	if r.Chance(8) {
		out.Line("subnil")
	}
	out.Line("start")
	if r.Chance(15) {
		out.Line("start")
	}
	steps := r.Range(3, 10)
	for s := 0; s < steps; s++ {
		x := r.Intn(100)
		switch {
		case x < 40 && nsub < g.q+mx+3:
			sub()
		case x < 75:
			rel()
		case x < 85:
			out.Line("idle")
		case x < 93:
			out.Line("states")
		default:
			out.Line("snap")
		}
	}
	now := r.Chance(35)
	if now {
		out.Line("shutdownnow")
	} else {
		out.Line("shutdown")
	}
	// after shutdown began: everything must fail
	for _, op := range []string{"sub ret 30", "start", "shutdown", "shutdownnow"} {
		if r.Chance(40) {
			out.Line("%s", op)
			if strings.HasPrefix(op, "sub") {
				nsub++
			}
		}
	}
	for len(blocked) > 0 {
		rel()
		if r.Chance(20) {
			out.Line("idle")
		}
	}
	if !now {
		out.Line("waitdone")
	} else {
		out.Line("snap")
	}
	if r.Chance(30) {
		out.Line("sub ret 30")
	}
	out.Line("end")
}

// genDrain: seq cases of the shape "the lifecycle moves on while tasks are held, with a backlog behind them".
// On a started pool `held` tasks that stay inside Run (and end by returning, panicking or failing only when
// released) occupy the workers, `behind` further tasks of any kind pile up in the queue; then Shutdown (mostly) or
// ShutdownNow; calls that must fail now; the held tasks are released in random order; waitdone; end.  What the
// accepted backlog may become is decided by the oracle: executed exactly once, or handed back exactly once —
// never left behind in a pool that has stopped.
func genDrain(r *vlib.Rng, prop string, id int, out *vlib.Out) {
	g := validCfg(r, 20)
	if g.q == 0 && r.Chance(80) {
		g.q = vlib.Pick(r, []int{1, 2, 3, 4, 6})
	}
	out.Line("new seq prop=%s id=%d %s", prop, id, g)
	mx := g.effMax()
	// how held tasks end, drawn per case: one way for all of them, or mixed
	ends := vlib.Pick(r, [][]string{{"block"}, {"bpanic"}, {"bpanic"}, {"berr"}, {"block", "bpanic", "berr"}, {"bpanic", "berr"}})
	inst := []string{"ret", "ret", "err", "panic", "panic"}
	nsub := 0
	var blocked []int
	sub := func(beh string) {
		out.Line("sub %s 30", beh)
		if beh == "block" || beh == "bpanic" || beh == "berr" {
			blocked = append(blocked, nsub)
		}
		nsub++
	}
	pre := 0
	if r.Chance(30) { // part of the load is already queued when the pool starts (Start sizes the worker set by it)
		pre = r.Range(1, g.q+1)
		if pre > g.q {
			pre = g.q
		}
		for i := 0; i < pre; i++ {
			sub(vlib.Pick(r, ends))
		}
	}
	out.Line("start")
	held := r.Range(1, mx+1) - pre
	for i := 0; i < held; i++ {
		sub(vlib.Pick(r, ends))
	}
	behind := 0
	if g.q > 0 {
		behind = r.Range(1, g.q)
	}
	for i := 0; i < behind && nsub < g.q+mx; i++ {
		if r.Chance(70) {
			sub(vlib.Pick(r, inst))
		} else {
			sub(vlib.Pick(r, ends))
		}
	}
	if r.Chance(30) {
		out.Line("snap")
	}
	now := r.Chance(20)
	if now {
		out.Line("shutdownnow")
	} else {
		out.Line("shutdown")
	}
	for _, op := range []string{"sub ret 30", "shutdown", "shutdownnow"} {
		if r.Chance(25) {
			out.Line("%s", op)
			if strings.HasPrefix(op, "sub") {
				nsub++
			}
		}
	}
	for len(blocked) > 0 {
		i := r.Intn(len(blocked))
		out.Line("rel %d", blocked[i])
		blocked = append(blocked[:i], blocked[i+1:]...)
	}
	if !now {
		out.Line("waitdone")
	} else {
		out.Line("snap")
	}
	out.Line("end")
}

func genConc(r *vlib.Rng, prop string, id int, out *vlib.Out) {
	g := validCfg(r, 45)
	if r.Chance(5) {
		g = malformedCfg(r)
	}
	subs, per := r.Range(1, 4), r.Range(1, 4)
	dl, blk, pan := vlib.Pick(r, []int{0, 20, 40, 80}), vlib.Pick(r, []int{0, 15, 30, 60}), vlib.Pick(r, []int{0, 10, 25})
	span := vlib.Pick(r, []int{50, 200, 600, 1500})
	var plan []string
	startAt := r.Range(0, 500)
	if r.Chance(85) {
		plan = append(plan, fmt.Sprintf("s%d", startAt))
	}
	if r.Chance(25) {
		plan = append(plan, fmt.Sprintf("s%d", startAt+r.Range(0, 30)))
	}
	relAt := r.Range(50, 1500)
	plan = append(plan, fmt.Sprintf("r%d", relAt))
	shutAt := r.Range(20, 1800)
	kind := "d"
	nowPct := 35
	switch prop {
	case "C10":
		nowPct = 55
	case "C12":
		nowPct = 10
	}
	if r.Chance(nowPct) {
		kind = "n"
	}
	if prop == "C12" && r.Chance(50) && g.idle > 0 {
		// aim the graceful shutdown at the idle expiry after the release
		shutAt = relAt + g.idle/1000 + r.Range(-100, 200)
		if shutAt < 0 {
			shutAt = 0
		}
	}
	plan = append(plan, fmt.Sprintf("%s%d", kind, shutAt))
	if r.Chance(30) {
		other := "n"
		if kind == "n" {
			other = "d"
		}
		plan = append(plan, fmt.Sprintf("%s%d", other, shutAt+r.Range(0, 20)))
	}
	if r.Chance(15) {
		plan = append(plan, fmt.Sprintf("%s%d", kind, shutAt+r.Range(0, 20)))
	}
	if prop == "C11" && r.Chance(50) {
		// bursts that trigger on-demand creation from several submitters at once
		subs, per, span = r.Range(3, 6), r.Range(2, 4), 50
		if g.q < 2 {
			g.q = 2
		}
	}
	fin := vlib.Pick(r, []string{"d", "d", "n"})
	// held tasks that end with a panic / a plain error when they are released (often after Shutdown began)
	hpan, herr := vlib.Pick(r, []int{0, 0, 25, 50, 100}), vlib.Pick(r, []int{0, 0, 0, 25, 50})
	if hpan+herr > 100 {
		herr = 100 - hpan
	}
	out.Line("new conc prop=%s id=%d %s seed=%d subs=%d per=%d dl=%d blk=%d pan=%d hpan=%d herr=%d span=%d plan=%s fin=%s samp=%d",
		prop, id, g, r.Intn(1000000), subs, per, dl, blk, pan, hpan, herr, span, strings.Join(plan, ","), fin, r.Intn(2))
}

func gen(tier, prop string, out *vlib.Out) {
	r := vlib.NewRng(vlib.Seed())
	nseq, nconc, ndrain := 70, 260, 30
	if tier == "thorough" {
		nseq, nconc, ndrain = 700, 3000, 300
	}
	// corpus: the deterministic prefix of the two C12 witness schedules (DESIGN §6 #6, #13), lifecycle
	// corner cases, constructor corner cases, an unbuffered queue
	corpus := []string{
		"new seq prop=%s id=0 init=1 q=4 core=- max=2 rate=- idle=300000 ord=cmr\nstart\nsub ret 30\nsub ret 30\nidle\nshutdown\nwaitdone\nsub ret 30\nstart\nshutdownnow\nend",
		"new seq prop=%s id=0 init=1 q=8 core=2 max=3 rate=- idle=0 ord=cmr\nsub block 30\nsub block 30\nsub block 30\nsub block 30\nsub block 30\nstart\nrel 0\nrel 1\nrel 2\nsnap\nrel 3\nrel 4\nshutdown\nwaitdone\nend",
		"new seq prop=%s id=0 init=1 q=2 core=- max=- rate=- idle=0 ord=cmr\nshutdown\nshutdownnow\nsubnil\nsub block 30\nsub ret 30\nsub ret 30\nstart\nstart\nstates\nshutdownnow\nrel 0\nsnap\nshutdown\nstart\nsub ret 30\nend",
		"new seq prop=%s id=0 init=2 q=0 core=- max=3 rate=0 idle=0 ord=cmr\nsub ret 30\nstart\nsub block 30\nsub block 30\nsub block 30\nrel 1\nrel 2\nrel 0\nshutdown\nwaitdone\nend",
		// tasks that fail with a plain error are executed exactly once like any other; deadlines that have already
		// passed (timeout 0): Submit either sends or reports the ctx error, never both; initGo = coreGo = maxGo given explicitly
		"new seq prop=%s id=0 init=2 q=3 core=2 max=2 rate=- idle=0 ord=cmr\nsub err 30\nsub err 0\nstart\nsub err 30\nsub block 0\nsub ret 0\nsub err 30\nrel 3\nsnap\nshutdown\nwaitdone\nend",
		"new seq prop=%s id=0 init=1 q=1 core=- max=- rate=- idle=0 ord=cmr\nsub block 30\nsub err 0\nsub ret 0\nstart\nsub err 30\nsub err 0\nrel 0\nsnap\nshutdownnow\nend",
		"new conc prop=%s id=0 init=1 q=2 core=- max=2 rate=0 idle=300000 ord=cmr seed=11 subs=3 per=4 dl=70 blk=10 pan=10 span=200 plan=s50,r400,d700 fin=d samp=1",
		// DEFECT CANDIDATE outside C10-C12 (not generated: it kills the process, so no op exists for it; see the genaudit
		// report): States(ctx, 0) — the zero interval — returns (ch, nil) and then the pool's own sampler goroutine panics in
		// time.NewTicker ("non-positive interval for NewTicker"), which nothing can recover: the whole program dies.
		//   p, _ := pool.NewOnDemandBlockTaskPool(1, 1); _ = p.Start(); p.States(context.Background(), 0)
		"new seq prop=%s id=0 init=0 q=1 core=- max=- rate=- idle=0 ord=cmr",
		"new seq prop=%s id=0 init=1 q=-1 core=- max=- rate=- idle=0 ord=cmr",
		"new seq prop=%s id=0 init=2 q=1 core=1 max=- rate=- idle=0 ord=cmr",
		"new seq prop=%s id=0 init=1 q=1 core=3 max=2 rate=- idle=0 ord=cmr",
		"new seq prop=%s id=0 init=1 q=1 core=- max=- rate=1001 idle=0 ord=cmr",
		"new seq prop=%s id=0 init=1 q=1 core=- max=- rate=-1 idle=0 ord=cmr",
		"new seq prop=%s id=0 init=1 q=2 core=2 max=1 rate=1000 idle=0 ord=cmr\nsub block 30\nsub block 30\nstart\nsnap",
		"new conc prop=%s id=0 init=1 q=4 core=- max=2 rate=- idle=400000 ord=cmr seed=7 subs=2 per=2 dl=0 blk=0 pan=0 span=50 plan=s0,r100,d450 fin=d samp=1",
		"new conc prop=%s id=0 init=1 q=2 core=2 max=3 rate=0 idle=200000 ord=cmr seed=8 subs=3 per=3 dl=30 blk=30 pan=20 span=200 plan=s100,n300,d305,r500 fin=n samp=1",
		"new conc prop=%s id=0 init=2 q=0 core=- max=- rate=- idle=0 ord=cmr seed=9 subs=2 per=2 dl=50 blk=50 pan=0 span=200 plan=r800,d400 fin=d samp=0",
	}
	for _, c := range corpus {
		for _, l := range strings.Split(fmt.Sprintf(strings.ReplaceAll(c, "%s", "%[1]s"), prop), "\n") {
			out.Line("%s", l)
		}
	}
	if prop == "C12" {
		runs, stop := 100, 1
		if tier == "thorough" {
			runs, stop = 3000, 20
		}
		out.Line("new aim prop=C12 id=0 fam=f1 init=1 q=4 core=- max=2 rate=- ord=cmr idlelo=300000 idlehi=600000 jit=150000 tasks=3 runs=%d stop=%d seed=%d", runs, stop, r.Intn(1000000))
		if tier == "thorough" {
			out.Line("new aim prop=C12 id=0 fam=f2 init=1 q=8 core=2 max=3 rate=- ord=cmr idlelo=1 idlehi=2000 tasks=6 runs=%d stop=10 seed=%d", 3000, r.Intn(1000000))
		}
	}
	// directed scenarios (seeded defects C11-a, C12-a; DESIGN Appendix B): one line each, many rounds
	rd := r.Fork()
	if prop == "C11" {
		reps := 90
		if tier == "thorough" {
			reps = 900
		}
		for _, cfg := range []string{
			"init=1 q=64 core=- max=3 rate=- idle=0 ord=cmr subs=16",
			"init=1 q=64 core=- max=2 rate=- idle=0 ord=cmr subs=12",
			"init=2 q=32 core=3 max=4 rate=0 idle=0 ord=cmr subs=16",
			"init=1 q=16 core=2 max=3 rate=250 idle=0 ord=mcr subs=8",
			"init=2 q=64 core=- max=3 rate=- idle=0 ord=cmr subs=16",
			"init=3 q=64 core=- max=- rate=- idle=0 ord=cmr subs=16",
		} {
			out.Line("new burst prop=C11 id=0 %s reps=%d seed=%d", cfg, reps, rd.Intn(1000000))
		}
	}
	if prop == "C10" {
		iters := 450
		if tier == "thorough" {
			iters = 4500
		}
		for _, cfg := range []string{
			"init=1 q=8 core=2 max=- rate=- idle=300000 ord=cmr jlo=-60 jhi=200",
			"init=1 q=8 core=- max=2 rate=- idle=200000 ord=cmr jlo=-40 jhi=150",
			"init=1 q=4 core=2 max=3 rate=- idle=400000 ord=cmr jlo=-80 jhi=250",
			"init=2 q=8 core=3 max=- rate=0 idle=300000 ord=cmr jlo=-60 jhi=200",
			"init=1 q=8 core=2 max=- rate=- idle=150000 ord=cmr jlo=-30 jhi=120",
		} {
			out.Line("new idlesub prop=C10 id=0 %s iters=%d patience=100 seed=%d", cfg, iters, rd.Intn(1000000))
		}
	}
	if prop == "C10" {
		trials := 500
		if tier == "thorough" {
			trials = 5000
		}
		for _, cfg := range []string{
			"init=1 q=9 core=2 max=8 rate=- idle=0 ord=cmr gated=8 small=1 mode=pre",
			"init=1 q=8 core=2 max=6 rate=- idle=0 ord=cmr gated=6 small=2 mode=pre",
			"init=1 q=6 core=2 max=4 rate=- idle=0 ord=cmr gated=4 small=1 mode=pre",
			"init=2 q=10 core=3 max=8 rate=- idle=0 ord=cmr gated=8 small=2 mode=pre",
			"init=1 q=12 core=2 max=8 rate=0 idle=0 ord=cmr gated=8 small=1 mode=post",
			"init=1 q=5 core=2 max=3 rate=- idle=0 ord=cmr gated=3 small=1 mode=pre",
		} {
			out.Line("new gburst prop=C10 id=0 %s trials=%d patience=3000 seed=%d", cfg, trials, rd.Intn(1000000))
		}
	}
	if prop == "C12" {
		rounds := 60
		if tier == "thorough" {
			rounds = 600
		}
		for _, cfg := range []string{
			"init=2 q=4 core=- max=- rate=- idle=0 ord=cmr busy=1 park=100 order=sr",
			"init=2 q=4 core=- max=- rate=- idle=0 ord=cmr busy=1 park=0 order=sr",
			"init=2 q=1 core=- max=- rate=- idle=0 ord=cmr busy=1 park=100 order=c",
			"init=3 q=4 core=- max=- rate=- idle=0 ord=cmr busy=2 park=100 order=sr",
			"init=1 q=4 core=- max=2 rate=- idle=0 ord=cmr busy=1 park=150 order=sr",
			"init=2 q=4 core=- max=- rate=- idle=0 ord=cmr busy=1 park=50 order=rs",
		} {
			out.Line("new handoff prop=C12 id=0 %s rounds=%d seed=%d", cfg, rounds, rd.Intn(1000000))
		}
	}
	id := 1
	rs, rc := r.Fork(), r.Fork()
	rdr := r.Fork()
	if prop != "C10" {
		ndrain = 0
	}
	for i := 0; i < ndrain; i++ {
		genDrain(rdr, prop, id, out)
		id++
	}
	for i := 0; i < nseq; i++ {
		genSeq(rs, prop, id, out)
		id++
	}
	for i := 0; i < nconc; i++ {
		genConc(rc, prop, id, out)
		id++
	}
}
