// Correspondence / stress harness for C10, C11, C12 (pool.OnDemandBlockTaskPool).
//
//	pool -mode gen -tier quick|thorough -prop C10|C11|C12 -out ops.txt     (seed from VERIF_SEED)
//	pool -mode run -ops ops.txt -out trace.txt -stats stats.json
//
// Three kinds of cases (each starts with a line beginning "new "):
//
//	new seq  k=v...   followed by op lines (sub/start/rel/idle/shutdown/shutdownnow/waitdone/states/snap):
//	                  one control thread calls the pool sequentially, workers run asynchronously; after
//	                  every op an *atomic* white-box snapshot (double collect, monotone run counters) is
//	                  printed.  The Lean driver (model mode) keeps the set of model states that explain
//	                  all observations so far (the model as an acceptor, all schedules explored).
//	new conc k=v...   ONE line: concurrent submitters (with/without deadlines) racing Start / Shutdown /
//	                  ShutdownNow / States, tasks that return, fail, panic, or are held until released and then
//	                  return / panic / fail (hpan=, herr= percent of the held ones); monitors:
//	                  per-task run counters, returned tasks run in marked mode, high-water mark of
//	                  concurrently running tasks, States() GoCnt, runs before Start, done-channel closure
//	                  vs task completion, call log with global sequence numbers, hang detection.
//	new aim  k=v...   ONE line: many runs of the schedule that aims Shutdown at the idle-timer expiry
//	                  (DESIGN C12, finding C12-F1) or the above-core strand (C12-F2); reports hang counts
//	                  by snapshot class.
package main

import (
	"context"
	"encoding/json"
	"flag"
	"fmt"
	"os"
	"runtime"
	"sort"
	"strconv"
	"strings"
	"sync"
	"sync/atomic"
	"time"

	"github.com/ecodeclub/ekit/bean/option"
	"github.com/ecodeclub/ekit/pool"
	"github.com/ecodeclub/ekit/zzverif/vlib"
)

// ---------------------------------------------------------------------------------------------
// configuration

type conf struct {
	kv map[string]string
}

func parseKV(ws []string) conf {
	c := conf{kv: map[string]string{}}
	for _, w := range ws {
		if i := strings.IndexByte(w, '='); i > 0 {
			c.kv[w[:i]] = w[i+1:]
		}
	}
	return c
}
func (c conf) has(k string) bool { v, ok := c.kv[k]; return ok && v != "-" }
func (c conf) str(k, d string) string {
	if v, ok := c.kv[k]; ok {
		return v
	}
	return d
}
func (c conf) i(k string, d int) int {
	if v, ok := c.kv[k]; ok && v != "-" {
		n, err := strconv.Atoi(v)
		if err == nil {
			return n
		}
	}
	return d
}

// build the pool from init= q= core= max= rate=(permille) idle=(ns, 0 = one hour)
func mkPool(c conf) (*pool.OnDemandBlockTaskPool, error) {
	var opts []option.Option[pool.OnDemandBlockTaskPool]
	// option order as given by ord= (letters c,m,r); default c,m,r
	for _, ch := range c.str("ord", "cmr") {
		switch ch {
		case 'c':
			if c.has("core") {
				opts = append(opts, pool.WithCoreGo(int32(c.i("core", 0))))
			}
		case 'm':
			if c.has("max") {
				opts = append(opts, pool.WithMaxGo(int32(c.i("max", 0))))
			}
		case 'r':
			if c.has("rate") {
				opts = append(opts, pool.WithQueueBacklogRate(float64(c.i("rate", 0))/1000.0))
			}
		}
	}
	idle := c.i("idle", 0)
	if idle <= 0 {
		opts = append(opts, pool.WithMaxIdleTime(time.Hour))
	} else {
		opts = append(opts, pool.WithMaxIdleTime(time.Duration(idle)))
	}
	return pool.NewOnDemandBlockTaskPool(c.i("init", 1), c.i("q", 0), opts...)
}

// ---------------------------------------------------------------------------------------------
// tasks and monitors

type markKey struct{}

type env struct {
	p         *pool.OnDemandBlockTaskPool
	mu        sync.Mutex
	tasks     []*vtask
	seq       int64
	started   int32 // set just before the first Start invocation
	before    int32 // tasks that began to run while started == 0
	running   int32
	hwm       int32
	doneSeen  int32 // the channel returned by Shutdown has been observed closed
	afterDone int32 // tasks that began to run after that
	cstart    int32 // tasks that began to run with an already cancelled pool context
	runAtDone int32 // tasks inside Run at the instant the channel returned by Shutdown was observed closed
	relAll    chan struct{}
	relOnce   sync.Once
	markOrder []int // ids of tasks run in marked mode, in the order ShutdownNow returned them
}

func newEnv(p *pool.OnDemandBlockTaskPool) *env { return &env{p: p, relAll: make(chan struct{})} }
func (e *env) next() int64                      { return atomic.AddInt64(&e.seq, 1) }
func (e *env) releaseAll()                      { e.relOnce.Do(func() { close(e.relAll) }) }

type vtask struct {
	e       *env
	id      int
	beh     string // ret | err | block | panic | spin | bpanic | berr (held like block, then panic / fail)
	runs    int32
	marked  int32
	fin     int64 // sequence number at completion (0 = not finished)
	rel     chan struct{}
	relOnce sync.Once
	body    func() // beh == "ext": what the task does
	// submission record
	sub      string
	inv, res int64
}

func (t *vtask) release() { t.relOnce.Do(func() { close(t.rel) }) }

func (t *vtask) Run(ctx context.Context) error {
	e := t.e
	if ctx.Value(markKey{}) != nil {
		atomic.AddInt32(&t.marked, 1)
		e.mu.Lock()
		e.markOrder = append(e.markOrder, t.id)
		e.mu.Unlock()
		return nil
	}
	atomic.AddInt32(&t.runs, 1)
	if atomic.LoadInt32(&e.started) == 0 {
		atomic.AddInt32(&e.before, 1)
	}
	if atomic.LoadInt32(&e.doneSeen) != 0 {
		atomic.AddInt32(&e.afterDone, 1)
	}
	if ctx.Err() != nil {
		// the ctx handed to tasks is interruptCtx: cancelled = the channel returned by Shutdown is closed
		atomic.AddInt32(&e.cstart, 1)
	}
	cur := atomic.AddInt32(&e.running, 1)
	for {
		h := atomic.LoadInt32(&e.hwm)
		if cur <= h || atomic.CompareAndSwapInt32(&e.hwm, h, cur) {
			break
		}
	}
	defer func() {
		atomic.AddInt32(&e.running, -1)
		atomic.StoreInt64(&t.fin, e.next())
	}()
	switch t.beh {
	case "block", "bpanic", "berr":
		// held inside Run until the scenario releases it — typically across a lifecycle change (Shutdown with a
		// backlog behind it) — and only then it ends: normally, by panicking, or with a plain error
		select {
		case <-t.rel:
		case <-e.relAll:
		}
		if t.beh == "bpanic" {
			panic("verif task panic after release")
		}
		if t.beh == "berr" {
			return errVerifTask
		}
	case "ext":
		if t.body != nil {
			t.body()
		}
	case "panic":
		panic("verif task panic")
	case "err":
		// a task that fails the ordinary way (non-nil error, no panic): still executed exactly once
		return errVerifTask
	case "spin":
		for i := 0; i < 200; i++ {
			runtime.Gosched()
		}
	}
	return nil
}

var errVerifTask = fmt.Errorf("verif task failed")

func (e *env) newTask(beh string) *vtask {
	e.mu.Lock()
	defer e.mu.Unlock()
	t := &vtask{e: e, id: len(e.tasks), beh: beh, rel: make(chan struct{}), sub: "none"}
	e.tasks = append(e.tasks, t)
	return t
}

func (e *env) runsList() string {
	e.mu.Lock()
	defer e.mu.Unlock()
	xs := make([]int, len(e.tasks))
	for i, t := range e.tasks {
		xs[i] = int(atomic.LoadInt32(&t.runs))
	}
	return vlib.Ints(xs)
}

// pstate is what the harness knows about the pool at one instant: white-box through the verif hook, or —
// when the hook had to be replaced by its black-box stub (State = -1) — from one States() sample
// (PoolState, GoCnt, WaitingTasksCnt; States fails once interruptCtx is cancelled, reported as dn=1).
type pstate struct {
	st, goCnt, grp, q, dn int
	wb                    bool
}

func poolState(p *pool.OnDemandBlockTaskPool) pstate {
	s := p.VerifSnapshot()
	if s.State >= 0 {
		d := 0
		if s.Done {
			d = 1
		}
		return pstate{int(s.State), int(s.TotalGo), int(s.Group), s.QLen, d, true}
	}
	ctx, cancel := context.WithCancel(context.Background())
	defer cancel()
	ch, err := p.States(ctx, 100*time.Microsecond)
	if err != nil {
		return pstate{st: 4, dn: 1}
	}
	defer func() {
		go func() {
			for range ch {
			}
		}()
	}()
	select {
	case x, ok := <-ch:
		if !ok {
			return pstate{st: 4, dn: 1}
		}
		return pstate{st: int(x.PoolState), goCnt: int(x.GoCnt), q: x.WaitingTasksCnt}
	case <-time.After(500 * time.Millisecond):
		return pstate{}
	}
}

func snapStr(e *env) string {
	s := poolState(e.p)
	out := fmt.Sprintf("st=%d go=%d grp=%d q=%d dn=%d runs=%s", s.st, s.goCnt, s.grp, s.q, s.dn, e.runsList())
	if !s.wb {
		out += " wb=na"
	}
	return out
}

// stable returns a snapshot that was identical in three consecutive collects (an atomic picture of one
// instant: all compared fields change monotonically or only through calls of the control thread) —
// or, after the time limit, the last collect marked unstable=1 (the driver then skips the comparison).
func stable(e *env, gap time.Duration) string {
	deadline := time.Now().Add(3 * time.Second)
	prev := snapStr(e)
	same := 0
	for {
		time.Sleep(gap)
		cur := snapStr(e)
		if cur == prev {
			same++
			if same >= 2 {
				return cur
			}
		} else {
			same = 0
			prev = cur
		}
		if time.Now().After(deadline) {
			return cur + " unstable=1"
		}
	}
}

// bbSettled is the black-box quiescence criterion used when the white-box hook is replaced by its stub
// (after the pool context is cancelled States() fails, so no worker count is available): either every
// accepted task is already accounted for (ran or was handed back), or the run / handed-back counters of
// all tasks have not moved for `quiet` (generous: a worker holding a received task would have to be
// descheduled that long on an otherwise idle pool).  Returns false (inconclusive) when the counters keep
// moving until `limit`.
func bbSettled(e *env, quiet, limit time.Duration) bool {
	sig := func() (string, bool) {
		e.mu.Lock()
		defer e.mu.Unlock()
		var b strings.Builder
		all := true
		for _, t := range e.tasks {
			r, m := atomic.LoadInt32(&t.runs), atomic.LoadInt32(&t.marked)
			fmt.Fprintf(&b, "%d:%d:%d,", r, m, atomic.LoadInt64(&t.fin))
			if t.sub == "ok" && r+m == 0 {
				all = false
			}
		}
		return b.String(), all
	}
	t0 := time.Now()
	prev, all := sig()
	if all {
		return true
	}
	since := time.Now()
	for time.Since(t0) < limit {
		time.Sleep(2 * time.Millisecond)
		cur, all := sig()
		if all {
			return true
		}
		if cur != prev {
			prev, since = cur, time.Now()
		} else if time.Since(since) >= quiet {
			return true
		}
	}
	return false
}

// bbMark renders the black-box quiescence field of a snapshot line (only in black-box mode)
func bbMark(e *env, snap string) string {
	if !strings.Contains(snap, "wb=na") {
		return snap
	}
	if bbSettled(e, 1500*time.Millisecond, 8*time.Second) {
		return snap + " bbq=1"
	}
	return snap + " bbq=0"
}

// unwrap the tasks returned by ShutdownNow by running them in marked mode
func runMarked(ts []pool.Task) {
	ctx := context.WithValue(context.Background(), markKey{}, 1)
	for _, t := range ts {
		if t != nil {
			_ = t.Run(ctx)
		}
	}
}

// waitDone waits for the channel returned by Shutdown.  A hang is declared only when the pool has had
// no worker (totalGo == 0) for 1.5 s, or after 20 s otherwise.
func waitDone(e *env, done <-chan struct{}) string {
	t0 := time.Now()
	zeroSince := time.Time{}
	tick := time.NewTicker(2 * time.Millisecond)
	defer tick.Stop()
	for {
		select {
		case <-done:
			// graceful closure happens after the last worker left: no task may be inside Run any more
			if n := atomic.LoadInt32(&e.running); n > 0 {
				atomic.StoreInt32(&e.runAtDone, n)
			}
			atomic.StoreInt32(&e.doneSeen, 1)
			return "closed"
		case <-tick.C:
		}
		s := poolState(e.p)
		if s.goCnt == 0 {
			if zeroSince.IsZero() {
				zeroSince = time.Now()
			} else if time.Since(zeroSince) > 1500*time.Millisecond {
				return "hang"
			}
		} else {
			zeroSince = time.Time{}
		}
		if time.Since(t0) > 10*time.Second {
			return "hang"
		}
	}
}

// okDone: the channel of a Shutdown that returned a nil error.  A nil channel can never be observed
// closed (a receive blocks for ever), i.e. it is a done channel that never closes: it is replaced by such
// a channel so that the scenario waits on it and reports the hang instead of treating the call as failed.
func okDone(d <-chan struct{}) <-chan struct{} {
	if d == nil {
		return make(chan struct{})
	}
	return d
}

func cfgStr(hs pool.VerifPoolSnap) string {
	if hs.State < 0 {
		return "na"
	}
	return fmt.Sprintf("%d/%d/%d", hs.InitGo, hs.CoreGo, hs.MaxGo)
}

// ---------------------------------------------------------------------------------------------
// stats

type stats struct {
	Cases    int            `json:"cases"`
	Lines    int            `json:"lines"`
	Distinct int            `json:"distinct_state_op_pairs"`
	Kinds    map[string]int `json:"kinds"`
	Ops      map[string]int `json:"ops"`
	Results  map[string]int `json:"results"`
	Configs  map[string]int `json:"configs"`
	MaxGoCnt int            `json:"max_gocnt_seen"`
	Hangs    map[string]int `json:"hangs"`
	Tasks    int            `json:"tasks_tracked"`
	Skipped  int            `json:"lines_skipped_after_hang_budget"`
	seen     map[string]struct{}
}

// ---------------------------------------------------------------------------------------------
// seq cases

type seqCase struct {
	c    conf
	e    *env
	done <-chan struct{}
}

func (sc *seqCase) op(line string, st *stats) string {
	w := strings.Fields(line)
	e := sc.e
	gap := 300 * time.Microsecond
	res, extra := "", ""
	switch w[0] {
	case "sub":
		beh := w[1]
		ms, _ := strconv.Atoi(w[2])
		t := e.newTask(beh)
		ctx, cancel := context.WithTimeout(context.Background(), time.Duration(ms)*time.Millisecond)
		err := e.p.Submit(ctx, t)
		cancel()
		res = pool.VerifErrKind(err)
		e.mu.Lock()
		t.sub = res
		e.mu.Unlock()
	case "subnil":
		res = pool.VerifErrKind(e.p.Submit(context.Background(), nil))
	case "start":
		atomic.StoreInt32(&e.started, 1)
		res = pool.VerifErrKind(e.p.Start())
	case "shutdown":
		d, err := e.p.Shutdown()
		res = pool.VerifErrKind(err)
		if err == nil {
			sc.done = okDone(d)
		}
	case "shutdownnow":
		ts, err := e.p.ShutdownNow()
		res = pool.VerifErrKind(err)
		if err == nil {
			e.mu.Lock()
			n0 := len(e.markOrder)
			e.mu.Unlock()
			runMarked(ts)
			e.mu.Lock()
			res = "ok:" + vlib.Ints(e.markOrder[n0:])
			e.mu.Unlock()
		}
	case "rel":
		i, _ := strconv.Atoi(w[1])
		if i >= 0 && i < len(e.tasks) {
			e.tasks[i].release()
			res = "ok"
		} else {
			res = "none"
		}
	case "idle":
		d := time.Duration(sc.c.i("idle", 0)) * 20
		if d < 3*time.Millisecond {
			d = 3 * time.Millisecond
		}
		if d > 50*time.Millisecond {
			d = 50 * time.Millisecond
		}
		time.Sleep(d)
		res = "ok"
	case "snap":
		res = "ok"
	case "end":
		// release everything and wait for the workers to come to rest
		e.releaseAll()
		t0 := time.Now()
		for time.Since(t0) < 300*time.Millisecond {
			s := poolState(e.p)
			if s.st != 4 && s.st != 3 || s.goCnt == 0 {
				break
			}
			time.Sleep(200 * time.Microsecond)
		}
		res = "ok"
		if !poolState(e.p).wb {
			if bbSettled(e, 1500*time.Millisecond, 8*time.Second) {
				res = "ok bbq=1"
			} else {
				res = "ok bbq=0"
			}
		}
	case "waitdone":
		if sc.done == nil {
			res = "none"
		} else {
			res = waitDone(e, sc.done)
			if res == "hang" {
				st.Hangs["seq"]++
			}
			extra = fmt.Sprintf(" runatdone=%d", atomic.LoadInt32(&e.runAtDone))
		}
	case "states":
		ctx, cancel := context.WithCancel(context.Background())
		ch, err := e.p.States(ctx, 50*time.Microsecond)
		if err != nil {
			res = "err"
		} else {
			select {
			case s := <-ch:
				res = "gocnt:" + strconv.Itoa(int(s.GoCnt))
				if int(s.GoCnt) > st.MaxGoCnt {
					st.MaxGoCnt = int(s.GoCnt)
				}
			case <-time.After(2 * time.Second):
				res = "gocnt:none"
			}
		}
		cancel()
		if ch != nil {
			go func() {
				for range ch {
				}
			}()
		}
	default:
		return "bad-op"
	}
	return res + " " + stable(e, gap) + extra
}

// ---------------------------------------------------------------------------------------------
// conc cases

type call struct {
	kind     string
	res      string
	inv, ret int64
}

func concCase(c conf, st *stats) string {
	p, err := mkPool(c)
	if err != nil {
		return "ctor=" + pool.VerifErrKind(err)
	}
	if p == nil {
		return "ctor=nil"
	}
	e := newEnv(p)
	r := vlib.NewRng(uint64(c.i("seed", 1)))
	hs := p.VerifSnapshot()
	var cmu sync.Mutex
	var calls []call
	rec := func(k, res string, inv, ret int64) {
		cmu.Lock()
		calls = append(calls, call{k, res, inv, ret})
		cmu.Unlock()
	}
	var done <-chan struct{}
	var dmu sync.Mutex
	var shutOK int32
	doStart := func() {
		atomic.StoreInt32(&e.started, 1)
		inv := e.next()
		err := p.Start()
		rec("T", pool.VerifErrKind(err), inv, e.next())
	}
	doShutdown := func() {
		inv := e.next()
		d, err := p.Shutdown()
		ret := e.next()
		if err == nil {
			dmu.Lock()
			done = okDone(d)
			dmu.Unlock()
			atomic.AddInt32(&shutOK, 1)
		}
		rec("D", pool.VerifErrKind(err), inv, ret)
	}
	var retMu sync.Mutex
	doShutdownNow := func() {
		inv := e.next()
		ts, err := p.ShutdownNow()
		ret := e.next()
		if err == nil {
			atomic.AddInt32(&shutOK, 1)
			retMu.Lock()
			runMarked(ts)
			retMu.Unlock()
		}
		rec("N", pool.VerifErrKind(err), inv, ret)
	}

	subs, per := c.i("subs", 2), c.i("per", 3)
	dlPct, blkPct, panPct := c.i("dl", 30), c.i("blk", 20), c.i("pan", 10)
	// of the held (blocking) tasks: the share that ends with a panic / with a plain error once released
	hpanPct, herrPct := c.i("hpan", 0), c.i("herr", 0)
	span := c.i("span", 600) // µs over which submissions are spread
	var wg sync.WaitGroup
	// pre-draw every random choice so the scenario is a function of the case line
	type subPlan struct {
		beh   string
		dlUs  int
		delay int
	}
	plans := make([][]subPlan, subs)
	for s := 0; s < subs; s++ {
		for j := 0; j < per; j++ {
			sp := subPlan{beh: "ret", delay: r.Intn(span/(per+1) + 1)}
			x := r.Intn(100)
			switch {
			case x < blkPct:
				sp.beh = "block"
				if y := r.Intn(100); y < hpanPct {
					sp.beh = "bpanic"
				} else if y < hpanPct+herrPct {
					sp.beh = "berr"
				}
			case x < blkPct+panPct:
				sp.beh = "panic"
			case x < blkPct+panPct+15:
				sp.beh = "spin"
			case x < blkPct+panPct+25:
				sp.beh = "err"
			}
			if r.Intn(100) < dlPct {
				sp.dlUs = r.Range(20, 3000)
				if r.Intn(100) < 12 {
					sp.dlUs = -1 // a deadline that has already passed when Submit is called
				}
			}
			plans[s] = append(plans[s], sp)
		}
	}
	for s := 0; s < subs; s++ {
		wg.Add(1)
		go func(s int) {
			defer wg.Done()
			for _, sp := range plans[s] {
				if sp.delay > 0 {
					time.Sleep(time.Duration(sp.delay) * time.Microsecond)
				} else {
					runtime.Gosched()
				}
				t := e.newTask(sp.beh)
				ctx := context.Background()
				cancel := func() {}
				if sp.dlUs > 0 {
					ctx, cancel = context.WithTimeout(ctx, time.Duration(sp.dlUs)*time.Microsecond)
				} else if sp.dlUs < 0 {
					ctx, cancel = context.WithTimeout(ctx, 0)
				}
				t.inv = e.next()
				err := p.Submit(ctx, t)
				t.res = e.next()
				t.sub = pool.VerifErrKind(err)
				cancel()
			}
		}(s)
	}
	// States sampler
	gomax := int32(-1)
	var sampWg sync.WaitGroup
	sctx, scancel := context.WithCancel(context.Background())
	if c.i("samp", 1) == 1 {
		ch, err := p.States(sctx, 40*time.Microsecond)
		if err == nil {
			sampWg.Add(1)
			go func() {
				defer sampWg.Done()
				for s := range ch {
					if s.GoCnt > atomic.LoadInt32(&gomax) {
						atomic.StoreInt32(&gomax, s.GoCnt)
					}
				}
			}()
		}
	}
	// plan: s<us> start, d<us> Shutdown, n<us> ShutdownNow, r<us> release all
	var pwg sync.WaitGroup
	for _, item := range strings.Split(c.str("plan", "s100,r400,d600"), ",") {
		if len(item) < 2 {
			continue
		}
		us, _ := strconv.Atoi(item[1:])
		k := item[0]
		pwg.Add(1)
		go func(k byte, us int) {
			defer pwg.Done()
			time.Sleep(time.Duration(us) * time.Microsecond)
			switch k {
			case 's':
				doStart()
			case 'd':
				doShutdown()
			case 'n':
				doShutdownNow()
			case 'r':
				e.releaseAll()
			}
		}(k, us)
	}
	pwg.Wait()
	// epilogue: make sure the pool was started, everything is released, and it is shut down
	if atomic.LoadInt32(&e.started) == 0 {
		doStart()
	}
	e.releaseAll()
	if atomic.LoadInt32(&shutOK) == 0 {
		if c.str("fin", "d") == "n" {
			doShutdownNow()
		} else {
			doShutdown()
		}
	}
	wg.Wait()
	doneRes := "na"
	var dseq int64
	dmu.Lock()
	d := done
	dmu.Unlock()
	if d != nil {
		doneRes = waitDone(e, d)
		dseq = e.next()
	} else {
		// ShutdownNow: wait for the workers to leave
		t0 := time.Now()
		for poolState(p).goCnt != 0 && time.Since(t0) < 20*time.Second {
			time.Sleep(200 * time.Microsecond)
		}
	}
	// settle: give stragglers (a worker that picked a task after ShutdownNow) time to finish
	fin := stable(e, 500*time.Microsecond)
	if strings.Contains(fin, "wb=na") {
		ok := bbSettled(e, 1500*time.Millisecond, 8*time.Second)
		fin = stable(e, 500*time.Microsecond)
		if ok {
			fin += " bbq=1"
		} else {
			fin += " bbq=0"
		}
	}
	scancel()
	sampWg.Wait()
	if doneRes == "hang" {
		st.Hangs["conc"]++
	}
	// render
	var b strings.Builder
	fmt.Fprintf(&b, "ctor=ok cfg=%s hwm=%d gomax=%d before=%d afterdone=%d", cfgStr(hs),
		atomic.LoadInt32(&e.hwm), atomic.LoadInt32(&gomax), atomic.LoadInt32(&e.before), atomic.LoadInt32(&e.afterDone))
	sort.Slice(calls, func(i, j int) bool { return calls[i].inv < calls[j].inv })
	b.WriteString(" calls=")
	for i, cl := range calls {
		if i > 0 {
			b.WriteByte(';')
		}
		fmt.Fprintf(&b, "%s:%s:%d:%d", cl.kind, strings.TrimPrefix(cl.res, "err:"), cl.inv, cl.ret)
		st.Results[cl.kind+"/"+cl.res]++
	}
	if len(calls) == 0 {
		b.WriteByte('-')
	}
	b.WriteString(" tasks=")
	retMu.Lock()
	for i, t := range e.tasks {
		if i > 0 {
			b.WriteByte(';')
		}
		fmt.Fprintf(&b, "%s:%s:%d:%d:%d:%d:%d", strings.TrimPrefix(t.sub, "err:"), t.beh, atomic.LoadInt32(&t.runs),
			atomic.LoadInt32(&t.marked), atomic.LoadInt64(&t.fin), t.inv, t.res)
		st.Results["S/"+t.sub]++
	}
	retMu.Unlock()
	if len(e.tasks) == 0 {
		b.WriteByte('-')
	}
	st.Tasks += len(e.tasks)
	if int(atomic.LoadInt32(&gomax)) > st.MaxGoCnt {
		st.MaxGoCnt = int(atomic.LoadInt32(&gomax))
	}
	fmt.Fprintf(&b, " dseq=%d done=%s cstart=%d runatdone=%d %s", dseq, doneRes, atomic.LoadInt32(&e.cstart),
		atomic.LoadInt32(&e.runAtDone), fin)
	return b.String()
}

// ---------------------------------------------------------------------------------------------
// aimed cases (C12 known findings on the real code)

func aimCase(c conf, st *stats) string {
	runs := c.i("runs", 100)
	r := vlib.NewRng(uint64(c.i("seed", 1)))
	fam := c.str("fam", "f1")
	counts := map[string]int{}
	closed := 0
	hangs, stop, done := 0, c.i("stop", 1<<30), 0
	for k := 0; k < runs && hangs < stop; k++ {
		done++
		cc := conf{kv: map[string]string{}}
		for a, b := range c.kv {
			cc.kv[a] = b
		}
		idle := r.Range(c.i("idlelo", 300000), c.i("idlehi", 600000))
		cc.kv["idle"] = strconv.Itoa(idle)
		p, err := mkPool(cc)
		if err != nil {
			return "ctor=" + pool.VerifErrKind(err)
		}
		e := newEnv(p)
		atomic.StoreInt32(&e.started, 1)
		n := c.i("tasks", 3)
		if fam == "f2" {
			// queue the tasks first so that Start creates the extra workers
			for i := 0; i < n; i++ {
				_ = p.Submit(context.Background(), e.newTask("spin"))
			}
			_ = p.Start()
		} else {
			_ = p.Start()
			for i := 0; i < n; i++ {
				_ = p.Submit(context.Background(), e.newTask("spin"))
			}
		}
		// wait for the tasks to finish (F2 strands some of them: bounded wait)
		t0 := time.Now()
		for time.Since(t0) < 200*time.Millisecond {
			all := true
			for _, t := range e.tasks {
				if atomic.LoadInt64(&t.fin) == 0 {
					all = false
				}
			}
			if all {
				break
			}
			if fam == "f2" {
				s := poolState(p)
				if s.goCnt == 0 && s.q > 0 {
					break
				}
			}
			time.Sleep(20 * time.Microsecond)
		}
		if fam == "f2" {
			s := poolState(p)
			if s.st == 2 && s.goCnt == 0 && s.q > 0 {
				counts["running-go0-queued"]++
			}
		} else {
			// aim at the idle expiry
			j := idle + r.Range(-c.i("jit", 150000), c.i("jit", 150000))
			if j > 0 {
				time.Sleep(time.Duration(j))
			}
		}
		d, err := p.Shutdown()
		if err != nil {
			counts["shutdown-"+pool.VerifErrKind(err)]++
			continue
		}
		res := waitDone(e, d)
		if res == "closed" {
			closed++
			continue
		}
		s := poolState(p)
		cls := fmt.Sprintf("hang/st%d/go%d/q%s", s.st, s.goCnt, map[bool]string{true: "0", false: "+"}[s.q == 0])
		counts[cls]++
		st.Hangs[cls]++
		hangs++
	}
	keys := make([]string, 0, len(counts))
	for k := range counts {
		keys = append(keys, k)
	}
	sort.Strings(keys)
	var b strings.Builder
	fmt.Fprintf(&b, "ctor=ok runs=%d closed=%d classes=", done, closed)
	for i, k := range keys {
		if i > 0 {
			b.WriteByte(';')
		}
		fmt.Fprintf(&b, "%s:%d", k, counts[k])
	}
	if len(keys) == 0 {
		b.WriteByte('-')
	}
	return b.String()
}

// ---------------------------------------------------------------------------------------------
// directed scenarios

// effective maxGo of a valid configuration (white-box from the hook, else from the options)
func effMaxGo(c conf, p *pool.OnDemandBlockTaskPool) int {
	if hs := p.VerifSnapshot(); hs.State >= 0 {
		return int(hs.MaxGo)
	}
	m := c.i("init", 1)
	if c.has("core") {
		m = c.i("core", m)
	}
	if c.has("max") {
		m = c.i("max", m)
	}
	return m
}

// burstCase (C11): `reps` rounds of a burst of `subs` submitters, released together by a spin barrier,
// onto a running pool that may grow from initGo to maxGo; every task blocks until the round's
// measurements are taken, so the tasks executing at once are the live workers.  Reported: the maxima over
// all rounds of (tasks executing concurrently, States().GoCnt, totalGo seen by the hook).  Stops at the
// first round in which one of them exceeds maxGo.
func burstCase(c conf, st *stats) string {
	reps, subs := c.i("reps", 100), c.i("subs", 16)
	maxPeak, maxGoCnt, maxTotal, badRep, done, hangs := 0, -1, -1, -1, 0, 0
	for rep := 0; rep < reps && badRep < 0; rep++ {
		done++
		p, err := mkPool(c)
		if err != nil || p == nil {
			return "ctor=" + pool.VerifErrKind(err)
		}
		mx := effMaxGo(c, p)
		e := newEnv(p)
		atomic.StoreInt32(&e.started, 1)
		if err := p.Start(); err != nil {
			return "start=" + pool.VerifErrKind(err)
		}
		sctx, scancel := context.WithCancel(context.Background())
		var peakGo int32 = -1
		var sampWg sync.WaitGroup
		if ch, err := p.States(sctx, 100*time.Microsecond); err == nil {
			sampWg.Add(1)
			go func() {
				defer sampWg.Done()
				for s := range ch {
					if s.GoCnt > atomic.LoadInt32(&peakGo) {
						atomic.StoreInt32(&peakGo, s.GoCnt)
					}
				}
			}()
		}
		var gate int32
		var wg sync.WaitGroup
		for i := 0; i < subs; i++ {
			wg.Add(1)
			t := e.newTask("block")
			go func() {
				defer wg.Done()
				for n := 0; atomic.LoadInt32(&gate) == 0; n++ {
					if n%64 == 63 {
						runtime.Gosched()
					}
				}
				t.sub = pool.VerifErrKind(p.Submit(context.Background(), t))
			}()
		}
		time.Sleep(50 * time.Microsecond)
		atomic.StoreInt32(&gate, 1)
		wg.Wait()
		// the workers pick the blocking tasks up; then look a little longer for one worker too many
		total := -1
		t0 := time.Now()
		for time.Since(t0) < 3*time.Millisecond {
			if hs := p.VerifSnapshot(); int(hs.TotalGo) > total {
				total = int(hs.TotalGo)
			}
			r := int(atomic.LoadInt32(&e.hwm))
			if r > mx || total > mx || int(atomic.LoadInt32(&peakGo)) > mx {
				break
			}
			if r >= mx && time.Since(t0) > 1200*time.Microsecond {
				break
			}
			time.Sleep(50 * time.Microsecond)
		}
		pk, gc := int(atomic.LoadInt32(&e.hwm)), int(atomic.LoadInt32(&peakGo))
		if pk > maxPeak {
			maxPeak = pk
		}
		if gc > maxGoCnt {
			maxGoCnt = gc
		}
		if total > maxTotal {
			maxTotal = total
		}
		if pk > mx || gc > mx || total > mx {
			badRep = rep
		}
		e.releaseAll()
		if d, err := p.Shutdown(); err == nil {
			if waitDone(e, d) == "hang" {
				hangs++
				st.Hangs["burst"]++
			}
		}
		scancel()
		sampWg.Wait()
		st.Tasks += len(e.tasks)
		if hangs > 0 {
			break
		}
	}
	return fmt.Sprintf("ctor=ok reps=%d maxpeak=%d maxgocnt=%d maxtotal=%d badrep=%d hangs=%d", done, maxPeak, maxGoCnt,
		maxTotal, badRep, hangs)
}

// handoffCase (C12): `rounds` rounds of: all workers but one busy with a task that ends on `release`,
// one worker parked on the queue; Submit(last) (handed straight to the parked worker); Shutdown; release.
// Graceful shutdown promises that the done channel (= the ctx given to the tasks) is not closed while an
// accepted task is queued, received-but-not-started, or running: `last` must start with a live ctx and
// must have finished when done is observed closed.  Variants: busy tasks spin or block on a channel
// (alternating), pause before Submit(last) (park=µs), order=sr (Shutdown then release) | rs | c (both at once).
func handoffCase(c conf, st *stats) string {
	rounds := c.i("rounds", 50)
	busy := c.i("busy", 1)
	park := c.i("park", 100)
	order := c.str("order", "sr")
	early, cstart, hangs, badRound, done := 0, 0, 0, -1, 0
	for r := 0; r < rounds && badRound < 0; r++ {
		done++
		p, err := mkPool(c)
		if err != nil || p == nil {
			return "ctor=" + pool.VerifErrKind(err)
		}
		e := newEnv(p)
		atomic.StoreInt32(&e.started, 1)
		if err := p.Start(); err != nil {
			return "start=" + pool.VerifErrKind(err)
		}
		spin := r%2 == 0
		var rel int32
		relCh := make(chan struct{})
		var startedBusy int32
		for i := 0; i < busy; i++ {
			t := e.newTask("ext")
			t.body = func() {
				atomic.AddInt32(&startedBusy, 1)
				if spin {
					for atomic.LoadInt32(&rel) == 0 {
					}
				} else {
					<-relCh
				}
			}
			t.sub = pool.VerifErrKind(p.Submit(context.Background(), t))
		}
		t0 := time.Now()
		for int(atomic.LoadInt32(&startedBusy)) < busy && time.Since(t0) < 2*time.Second {
			runtime.Gosched()
		}
		if park > 0 {
			time.Sleep(time.Duration(park) * time.Microsecond)
		}
		last := e.newTask("ext")
		last.body = func() { time.Sleep(200 * time.Microsecond) }
		last.sub = pool.VerifErrKind(p.Submit(context.Background(), last))
		release := func() {
			atomic.StoreInt32(&rel, 1)
			close(relCh)
		}
		var d <-chan struct{}
		var serr error
		switch order {
		case "rs":
			release()
			d, serr = p.Shutdown()
		case "c":
			go release()
			d, serr = p.Shutdown()
		default:
			d, serr = p.Shutdown()
			release()
		}
		if serr != nil {
			return "shutdown=" + pool.VerifErrKind(serr)
		}
		res := waitDone(e, d)
		bad := false
		if res == "hang" {
			hangs++
			st.Hangs["handoff"]++
			bad = true
		} else {
			n0 := early
			for _, t := range e.tasks {
				if t.sub == "ok" && atomic.LoadInt64(&t.fin) == 0 {
					early++
					bad = true
				}
			}
			if n := int(atomic.LoadInt32(&e.runAtDone)); n > 0 && early == n0 {
				early += n
				bad = true
			}
		}
		if n := int(atomic.LoadInt32(&e.cstart)); n > 0 {
			cstart += n
			bad = true
		}
		if bad {
			badRound = r
		}
		st.Tasks += len(e.tasks)
	}
	return fmt.Sprintf("ctor=ok rounds=%d early=%d cstart=%d hangs=%d badround=%d", done, early, cstart, hangs, badRound)
}

// gburstCase (C10): "gated burst release above coreGo with a short backlog".  initGo < coreGo < maxGo, idle
// timers that cannot expire (idle=0 = one hour).  Per trial: `gated` tasks that spin on a common gate
// plus `small` tasks are queued before Start (mode=pre: Start creates the workers) or submitted right
// after it (mode=post: growth by backlog); when every live worker holds a gated task the gate is opened
// (spin barrier: the workers finish together and take the surplus-worker decision at the same instant).
// Then (1) every small task must run within `patience` — nobody shuts the pool down, its idle timers
// cannot expire, so a running pool has to execute its queue (`late` = tasks that did not); (2) white-box:
// the live-worker count may only fall through the above-core exit, which never goes below coreGo, so at
// rest totalGo >= min(coreGo, peak totalGo seen) (`floorviol` = trials violating this model invariant,
// c10_core_floor).  Each trial ends with ShutdownNow and the exactly-once accounting (`lost`, `dup`).
func gburstCase(c conf, st *stats) string {
	trials, gated, small := c.i("trials", 1000), c.i("gated", 8), c.i("small", 1)
	mode := c.str("mode", "pre")
	patience := time.Duration(c.i("patience", 3000)) * time.Millisecond
	late, floorviol, lost, dup, incon, badTrial, done := 0, 0, 0, 0, 0, -1, 0
	badLow, badPeak, core := -1, -1, -1
	for tr := 0; tr < trials && badTrial < 0; tr++ {
		done++
		p, err := mkPool(c)
		if err != nil || p == nil {
			return "ctor=" + pool.VerifErrKind(err)
		}
		e := newEnv(p)
		if hs := p.VerifSnapshot(); hs.State >= 0 {
			core = int(hs.CoreGo)
		}
		var gate, entered int32
		var smalls []*vtask
		submitAll := func() string {
			for i := 0; i < gated; i++ {
				t := e.newTask("ext")
				t.body = func() {
					atomic.AddInt32(&entered, 1)
					for atomic.LoadInt32(&gate) == 0 {
					}
				}
				if t.sub = pool.VerifErrKind(p.Submit(context.Background(), t)); t.sub != "ok" {
					return t.sub
				}
			}
			for i := 0; i < small; i++ {
				t := e.newTask("ret")
				if t.sub = pool.VerifErrKind(p.Submit(context.Background(), t)); t.sub != "ok" {
					return t.sub
				}
				smalls = append(smalls, t)
			}
			return ""
		}
		atomic.StoreInt32(&e.started, 1)
		msg := ""
		if mode == "pre" {
			atomic.StoreInt32(&e.started, 0)
			msg = submitAll()
			atomic.StoreInt32(&e.started, 1)
			if err := p.Start(); err != nil {
				return "start=" + pool.VerifErrKind(err)
			}
		} else {
			if err := p.Start(); err != nil {
				return "start=" + pool.VerifErrKind(err)
			}
			msg = submitAll()
		}
		if msg != "" {
			atomic.StoreInt32(&gate, 1)
			return "submit=" + msg
		}
		// wait until every live worker holds a gated task (or all gated tasks are held)
		peak := -1
		t0 := time.Now()
		ready := false
		for time.Since(t0) < 2*time.Second {
			hs := p.VerifSnapshot()
			if int(hs.TotalGo) > peak {
				peak = int(hs.TotalGo)
			}
			n := int(atomic.LoadInt32(&entered))
			if n >= gated || (hs.State >= 0 && n >= int(hs.TotalGo) && n > 0 && time.Since(t0) > 300*time.Microsecond) {
				ready = true
				break
			}
			if hs.State < 0 && n > 0 && time.Since(t0) > 2*time.Millisecond {
				ready = true
				break
			}
			runtime.Gosched()
		}
		atomic.StoreInt32(&gate, 1)
		if !ready {
			incon++
		}
		// (1) the small tasks run
		t1 := time.Now()
		allRan := false
		for time.Since(t1) < patience {
			allRan = true
			for _, t := range smalls {
				if atomic.LoadInt64(&t.fin) == 0 {
					allRan = false
				}
			}
			if allRan {
				break
			}
			if time.Since(t1) > time.Millisecond {
				time.Sleep(50 * time.Microsecond)
			} else {
				runtime.Gosched()
			}
		}
		bad := false
		if !allRan {
			for _, t := range smalls {
				if atomic.LoadInt64(&t.fin) == 0 {
					late++
				}
			}
			bad = true
		}
		// (2) at rest the worker count is not below min(coreGo, peak)
		low := -1
		if hs := p.VerifSnapshot(); hs.State >= 0 && ready {
			prev, same := int(hs.TotalGo), 0
			t2 := time.Now()
			for time.Since(t2) < 20*time.Millisecond && same < 4 {
				for k := 0; k < 8; k++ {
					runtime.Gosched()
				}
				cur := int(p.VerifSnapshot().TotalGo)
				if cur == prev {
					same++
				} else {
					prev, same = cur, 0
				}
			}
			low = prev
			floor := core
			if peak < floor {
				floor = peak
			}
			if low < floor {
				floorviol++
				bad = true
				badLow, badPeak = low, peak
			}
		}
		// teardown with the accounting
		ts, err2 := p.ShutdownNow()
		if err2 == nil {
			runMarked(ts)
		}
		for t3 := time.Now(); time.Since(t3) < 5*time.Millisecond; {
			if poolState(p).goCnt == 0 {
				break
			}
			runtime.Gosched()
		}
		settled := true
		if !poolState(p).wb {
			settled = bbSettled(e, 1500*time.Millisecond, 8*time.Second)
		}
		if settled {
			for _, t := range e.tasks {
				if t.sub != "ok" {
					continue
				}
				n := int(atomic.LoadInt32(&t.runs)) + int(atomic.LoadInt32(&t.marked))
				if n > 1 {
					dup++
					bad = true
				}
				if n == 0 && (poolState(p).wb && poolState(p).goCnt == 0 || !poolState(p).wb) {
					lost++
					bad = true
				}
			}
		}
		if bad {
			badTrial = tr
		}
		st.Tasks += len(e.tasks)
	}
	return fmt.Sprintf("ctor=ok trials=%d late=%d floorviol=%d lost=%d dup=%d incon=%d core=%d badlow=%d badpeak=%d badtrial=%d",
		done, late, floorviol, lost, dup, incon, core, badLow, badPeak, badTrial)
}

// idleSubCase (C10): "submit aimed at an idle-timer expiry while all other workers are busy".
// initGo < coreGo, short maxIdleTime; the initGo permanent workers are blocked in long tasks, so every
// further task is served by an on-demand worker that carries an idle timer after each task.  `iters`
// times: Submit a task, wait (patience) for it to run, then spin until idle + jitter after its completion
// and submit the next one — right around the expiry of that worker's idle timer.  A task that has not
// run within the patience is not an error (the unmodified pool sometimes leaves it queued behind the
// blocked workers): ShutdownNow is called, the blocked tasks are released, the pool is left to come to
// rest (totalGo = 0, generous limit) and the exactly-once accounting is taken over all tasks of that pool:
// every accepted task ran or was handed back, exactly once.  `lost` / `dup` count the tasks violating it;
// `stuck` = pools whose workers never came to rest after ShutdownNow.
func idleSubCase(c conf, st *stats) string {
	iters := c.i("iters", 500)
	idle := time.Duration(c.i("idle", 300000))
	jlo, jhi := c.i("jlo", -60), c.i("jhi", 200) // µs around the expiry
	patience := time.Duration(c.i("patience", 100)) * time.Millisecond
	r := vlib.NewRng(uint64(c.i("seed", 1)))
	parked, lost, dup, stuck, badIt, done, incon := 0, 0, 0, 0, -1, 0, 0

	var e *env
	setup := func() string {
		p, err := mkPool(c)
		if err != nil || p == nil {
			return "ctor=" + pool.VerifErrKind(err)
		}
		e = newEnv(p)
		atomic.StoreInt32(&e.started, 1)
		if err := p.Start(); err != nil {
			return "start=" + pool.VerifErrKind(err)
		}
		nb := c.i("init", 1)
		var startedBusy int32
		for i := 0; i < nb; i++ {
			t := e.newTask("ext")
			t.body = func() {
				atomic.AddInt32(&startedBusy, 1)
				<-e.relAll
			}
			t.sub = pool.VerifErrKind(p.Submit(context.Background(), t))
		}
		t0 := time.Now()
		for int(atomic.LoadInt32(&startedBusy)) < nb && time.Since(t0) < 2*time.Second {
			time.Sleep(20 * time.Microsecond)
		}
		return ""
	}
	// ShutdownNow, release, come to rest, account
	teardown := func(it int) {
		ts, err := e.p.ShutdownNow()
		if err == nil {
			runMarked(ts)
		}
		e.releaseAll()
		rest := false
		t0 := time.Now()
		for time.Since(t0) < 3*time.Second {
			s := poolState(e.p)
			if s.goCnt == 0 {
				rest = true
				break
			}
			time.Sleep(200 * time.Microsecond)
		}
		if !poolState(e.p).wb {
			// black-box: no worker count after the cancel; use the counter-based criterion, and if it
			// cannot be established the pool's accounting is inconclusive (not counted)
			if !bbSettled(e, 1500*time.Millisecond, 8*time.Second) {
				incon++
				st.Tasks += len(e.tasks)
				return
			}
		}
		bad := false
		for _, t := range e.tasks {
			if t.sub != "ok" {
				continue
			}
			n := int(atomic.LoadInt32(&t.runs)) + int(atomic.LoadInt32(&t.marked))
			if n == 0 {
				lost++
				bad = true
			} else if n > 1 {
				dup++
				bad = true
			}
		}
		if !rest {
			stuck++
		}
		if bad && badIt < 0 {
			badIt = it
		}
		st.Tasks += len(e.tasks)
	}

	if msg := setup(); msg != "" {
		return msg
	}
	for it := 0; it < iters && badIt < 0; it++ {
		done++
		t := e.newTask("ret")
		t.sub = pool.VerifErrKind(e.p.Submit(context.Background(), t))
		if t.sub != "ok" {
			return "submit=" + t.sub
		}
		ran := false
		t0 := time.Now()
		for time.Since(t0) < patience {
			if atomic.LoadInt64(&t.fin) != 0 {
				ran = true
				break
			}
			if time.Since(t0) > 200*time.Microsecond {
				time.Sleep(20 * time.Microsecond)
			}
		}
		if !ran {
			parked++
			teardown(it)
			if badIt >= 0 {
				break
			}
			if msg := setup(); msg != "" {
				return msg
			}
			continue
		}
		target := time.Now().Add(idle + time.Duration(r.Range(jlo, jhi))*time.Microsecond)
		for time.Now().Before(target) {
		}
	}
	if badIt < 0 {
		teardown(done)
	}
	return fmt.Sprintf("ctor=ok iters=%d parked=%d lost=%d dup=%d stuck=%d incon=%d badit=%d", done, parked, lost, dup, stuck,
		incon, badIt)
}

// ---------------------------------------------------------------------------------------------
// run

// directedFailed: a directed scenario line that stopped at a violating round / iteration
func directedFailed(res string) bool {
	for _, k := range []string{"badrep=", "badround=", "badit=", "badtrial="} {
		if i := strings.Index(res, k); i >= 0 && !strings.HasPrefix(res[i+len(k):], "-1") {
			return true
		}
	}
	return false
}

// hangBudget: once this many seq/conc scenarios have hung (each costs seconds), the remaining cases are
// not executed ("skipped"): a tree on which Shutdown hangs systematically is reported from the first
// hang lines, without spending minutes on the rest.
var hangBudget = 4

func run(ops []string, out *vlib.Out, st *stats) {
	var sc *seqCase
	skipping := false
	// a larger run (thorough tier) may meet the two recorded hang families more often
	ncases := 0
	for _, line := range ops {
		if strings.HasPrefix(line, "new ") {
			ncases++
		}
	}
	if b := ncases / 150; b > hangBudget && os.Getenv("VERIF_HANG_BUDGET") == "" {
		hangBudget = b
	}
	for _, line := range ops {
		w := strings.Fields(line)
		st.Lines++
		if st.Hangs["seq"]+st.Hangs["conc"] >= hangBudget {
			skipping = true
		}
		if skipping {
			st.Skipped++
			out.Line("%s => skipped", line)
			continue
		}
		if w[0] == "new" {
			st.Cases++
			sc = nil
			c := parseKV(w[2:])
			st.Kinds[w[1]]++
			st.Configs[fmt.Sprintf("%s/%s/%s/q%s", c.str("init", "?"), c.str("core", "-"), c.str("max", "-"), c.str("q", "?"))]++
			switch w[1] {
			case "seq":
				p, err := mkPool(c)
				if err != nil || p == nil {
					out.Line("%s => ctor=%s", line, pool.VerifErrKind(err))
					continue
				}
				sc = &seqCase{c: c, e: newEnv(p)}
				hs := p.VerifSnapshot()
				out.Line("%s => ctor=ok cfg=%s %s", line, cfgStr(hs), snapStr(sc.e))
			case "conc":
				var res string
				pn := vlib.Catch(func() { res = concCase(c, st) })
				if pn != "" {
					res = pn
				}
				out.Line("%s => %s", line, res)
			case "aim":
				var res string
				pn := vlib.Catch(func() { res = aimCase(c, st) })
				if pn != "" {
					res = pn
				}
				out.Line("%s => %s", line, res)
			case "burst":
				var res string
				pn := vlib.Catch(func() { res = burstCase(c, st) })
				if pn != "" {
					res = pn
				}
				out.Line("%s => %s", line, res)
				if directedFailed(res) {
					skipping = true // a self-evident violation was found: do not spend time on the rest
				}
			case "idlesub":
				var res string
				pn := vlib.Catch(func() { res = idleSubCase(c, st) })
				if pn != "" {
					res = pn
				}
				out.Line("%s => %s", line, res)
				if directedFailed(res) {
					skipping = true // a self-evident violation was found: do not spend time on the rest
				}
			case "gburst":
				var res string
				pn := vlib.Catch(func() { res = gburstCase(c, st) })
				if pn != "" {
					res = pn
				}
				out.Line("%s => %s", line, res)
				if directedFailed(res) {
					skipping = true
				}
			case "handoff":
				var res string
				pn := vlib.Catch(func() { res = handoffCase(c, st) })
				if pn != "" {
					res = pn
				}
				out.Line("%s => %s", line, res)
				if directedFailed(res) {
					skipping = true // a self-evident violation was found: do not spend time on the rest
				}
			default:
				out.Line("%s => bad-kind", line)
			}
			continue
		}
		st.Ops[w[0]]++
		if sc == nil {
			out.Line("%s => no-pool", line)
			continue
		}
		before := snapStr(sc.e)
		var res string
		pn := vlib.Catch(func() { res = sc.op(line, st) })
		if pn != "" {
			res = pn
		}
		rk := strings.Fields(res)[0]
		if i := strings.IndexByte(rk, ':'); i > 0 && !strings.HasPrefix(rk, "err") {
			rk = rk[:i]
		}
		st.Results[w[0]+"/"+rk]++
		after := snapStr(sc.e)
		if before != after || strings.HasPrefix(res, "err") {
			st.seen[before+"|"+w[0]+"|"+fmt.Sprint(sc.c.kv)] = struct{}{}
		}
		out.Line("%s => %s", line, res)
	}
	st.Distinct = len(st.seen)
}

func main() {
	mode := flag.String("mode", "gen", "gen|run")
	tier := flag.String("tier", "quick", "quick|thorough")
	prop := flag.String("prop", "C10", "C10|C11|C12")
	opsF := flag.String("ops", "", "ops file (run mode)")
	outF := flag.String("out", "", "output file")
	statsF := flag.String("stats", "", "stats json (run mode)")
	flag.Parse()
	out := vlib.Create(*outF)
	defer out.Close()
	switch *mode {
	case "gen":
		gen(*tier, *prop, out)
	case "run":
		if v := os.Getenv("VERIF_HANG_BUDGET"); v != "" {
			hangBudget, _ = strconv.Atoi(v)
		}
		st := &stats{Kinds: map[string]int{}, Ops: map[string]int{}, Results: map[string]int{}, Configs: map[string]int{},
			Hangs: map[string]int{}, seen: map[string]struct{}{}}
		run(vlib.ReadLines(*opsF), out, st)
		if *statsF != "" {
			b, _ := json.MarshalIndent(st, "", " ")
			os.WriteFile(*statsF, b, 0o644)
		}
	}
}
