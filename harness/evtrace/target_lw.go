package main

// targets clist, cow: list.ConcurrentList (over ArrayList / LinkedList) and list.CopyOnWriteArrayList — the lock-wrapped
// containers of C06 (model Ekit.Linz.LockWrapped: explicit RWMutex, bodies split into a read and a write step).
//
// The logged actions are the Lock/RLock (logged right after they return) and the Unlock/RUnlock (atomic with their log
// entry, with a white-box snapshot `vals=…,cap=…` of the protected data taken inside the critical section).
//
// A scenario: thread 0 alone appends `pre` values, then g goroutines issue `calls` random calls each on a small index
// universe (so index errors, duplicates and empty lists occur); w = percentage of writers.

import (
	"fmt"
	"runtime"
	"strconv"
	"sync"

	"github.com/ecodeclub/ekit/list"
	"github.com/ecodeclub/ekit/zzverif/vlib"
)

var listLog = evlog{list.VerifEvInstrumented, list.VerifEvStart, list.VerifEvStop, list.VerifEvTid, list.VerifEvNote}

func errRes(err error) string { return "res " + vlib.Err(err) }

func runLWList(l list.List[int], w []string, seed uint64, log evlog) {
	g, calls, pre, wr := kv(w, "g"), kv(w, "calls"), kv(w, "pre"), kv(w, "w")
	var wg sync.WaitGroup
	start := make(chan struct{})
	ready := make(chan struct{}, g)
	for t := 0; t < g; t++ {
		wg.Add(1)
		go func(t int) {
			defer wg.Done()
			log.Tid(t)
			r := vlib.NewRng(seed*7919 + uint64(t))
			if t == 0 && pre > 0 {
				vs := make([]int, pre)
				for i := range vs {
					vs[i] = 100 + i
				}
				log.Note("inv append " + ints(vs))
				log.Note(errRes(l.Append(vs...)))
			}
			ready <- struct{}{}
			<-start
			for i := 0; i < calls; i++ {
				idx := r.Intn(pre+4) - 1 // -1 … pre+2
				v := (t+1)*1000 + i
				if r.Intn(100) < wr {
					switch r.Intn(5) {
					case 0:
						k := 1 + r.Intn(3)
						vs := make([]int, k)
						for j := range vs {
							vs[j] = v*10 + j
						}
						log.Note("inv append " + ints(vs))
						log.Note(errRes(l.Append(vs...)))
					case 1, 2:
						log.Note(fmt.Sprintf("inv add %d %d", idx, v))
						log.Note(errRes(l.Add(idx, v)))
					case 3:
						log.Note(fmt.Sprintf("inv set %d %d", idx, v))
						log.Note(errRes(l.Set(idx, v)))
					default:
						log.Note(fmt.Sprintf("inv delete %d", idx))
						if x, err := l.Delete(idx); err == nil {
							log.Note("res v:" + strconv.Itoa(x))
						} else {
							log.Note(errRes(err))
						}
					}
				} else {
					switch r.Intn(4) {
					case 0:
						log.Note(fmt.Sprintf("inv get %d", idx))
						if x, err := l.Get(idx); err == nil {
							log.Note("res v:" + strconv.Itoa(x))
						} else {
							log.Note(errRes(err))
						}
					case 1:
						log.Note("inv len")
						log.Note("res n:" + strconv.Itoa(l.Len()))
					case 2:
						log.Note("inv asslice")
						log.Note("res s:" + ints(l.AsSlice()))
					default:
						log.Note("inv range")
						var seen []int
						err := l.Range(func(_ int, x int) error { seen = append(seen, x); return nil })
						if err == nil {
							log.Note("res s:" + ints(seen))
						} else {
							log.Note(errRes(err))
						}
					}
				}
				if r.Chance(25) {
					runtime.Gosched()
				}
			}
		}(t)
	}
	for t := 0; t < g; t++ {
		<-ready
	}
	close(start)
	wg.Wait()
}

func genLW(kinds []string) func(r *vlib.Rng) string {
	return func(r *vlib.Rng) string {
		s := fmt.Sprintf("g=%d calls=%d pre=%d w=%d", vlib.Pick(r, []int{1, 2, 3, 3, 4, 6}), vlib.Pick(r, []int{2, 3, 4, 6, 8}),
			vlib.Pick(r, []int{0, 0, 1, 3, 5}), vlib.Pick(r, []int{10, 30, 50, 50, 70, 100}))
		if len(kinds) > 0 {
			s = fmt.Sprintf("base=%s cap=%d ", vlib.Pick(r, kinds), vlib.Pick(r, []int{0, 1, 4, 16})) + s
		}
		return s
	}
}

func init() {
	register(&target{name: "clist", log: listLog, gen: genLW([]string{"array", "array", "linked"}),
		corpus: []string{"new evt clist base=array cap=0 g=3 calls=5 pre=0 w=60 seed=21", "new evt clist base=array cap=4 g=4 calls=6 pre=3 w=50 seed=22",
			"new evt clist base=linked cap=0 g=4 calls=6 pre=2 w=50 seed=23", "new evt clist base=array cap=16 g=3 calls=8 pre=5 w=100 seed=24",
			"new evt clist base=linked cap=0 g=4 calls=4 pre=3 w=0 seed=25"},
		run: func(w []string, seed uint64, log evlog) {
			var l list.List[int]
			if kvs(w, "base") == "linked" {
				l = list.NewLinkedList[int]()
			} else {
				l = list.NewArrayList[int](kv(w, "cap"))
			}
			runLWList(&list.ConcurrentList[int]{List: l}, w, seed, log)
		}})
	register(&target{name: "cow", log: listLog, gen: genLW(nil),
		corpus: []string{"new evt cow g=3 calls=5 pre=0 w=60 seed=31", "new evt cow g=4 calls=6 pre=3 w=50 seed=32",
			"new evt cow g=4 calls=8 pre=5 w=20 seed=33", "new evt cow g=2 calls=6 pre=2 w=100 seed=34"},
		run: func(w []string, seed uint64, log evlog) {
			runLWList(list.NewCopyOnWriteArrayList[int](), w, seed, log)
		}})
}
