package main

// target cpq: queue.ConcurrentPriorityQueue[int] (model: Ekit.Linz.LockWrapped around the heap model of C05 —
// `rawParams cmp capacity grow` of Ekit/Props/C06Heap.lean).  Comparators nat / div3 (many ties) / rev as in harness/heap;
// capacity 0 (unbounded: growth and shrinking of the array) or small (ErrOutOfCapacity).  The snapshot logged at every
// Unlock/RUnlock is the whole heap array, the capacity setting and the capacity of the array.

import (
	"errors"
	"fmt"
	"runtime"
	"strconv"
	"sync"

	iqueue "github.com/ecodeclub/ekit/internal/queue"
	"github.com/ecodeclub/ekit/queue"
	"github.com/ecodeclub/ekit/zzverif/vlib"
)

func cpqCmp(name string) func(a, b int) int {
	nat := func(a, b int) int {
		if a < b {
			return -1
		} else if a == b {
			return 0
		}
		return 1
	}
	switch name {
	case "div3":
		return func(a, b int) int { return nat(a/3, b/3) }
	case "rev":
		return func(a, b int) int { return nat(b, a) }
	}
	return nat
}

func cpqErr(err error) string {
	switch {
	case err == nil:
		return "res ok"
	case errors.Is(err, iqueue.ErrEmptyQueue):
		return "res empty"
	case errors.Is(err, iqueue.ErrOutOfCapacity):
		return "res full"
	}
	return "res err"
}

func runCPQ(w []string, seed uint64, log evlog) {
	g, calls, pre, wr, span := kv(w, "g"), kv(w, "calls"), kv(w, "pre"), kv(w, "w"), kv(w, "span")
	q := queue.NewConcurrentPriorityQueue[int](kv(w, "cap"), cpqCmp(kvs(w, "cmp")))
	var wg sync.WaitGroup
	start := make(chan struct{})
	ready := make(chan struct{}, g)
	enq := func(v int) {
		log.Note("inv enq " + strconv.Itoa(v))
		log.Note(cpqErr(q.Enqueue(v)))
	}
	for t := 0; t < g; t++ {
		wg.Add(1)
		go func(t int) {
			defer wg.Done()
			log.Tid(t)
			r := vlib.NewRng(seed*7919 + uint64(t))
			if t == 0 {
				for i := 0; i < pre; i++ {
					enq(r.Intn(span))
				}
			}
			ready <- struct{}{}
			<-start
			for i := 0; i < calls; i++ {
				if r.Intn(100) < wr {
					if r.Intn(100) < 55 {
						enq(r.Intn(span))
					} else {
						log.Note("inv deq")
						if v, err := q.Dequeue(); err == nil {
							log.Note("res val " + strconv.Itoa(v))
						} else {
							log.Note(cpqErr(err))
						}
					}
				} else {
					switch r.Intn(3) {
					case 0:
						log.Note("inv peek")
						if v, err := q.Peek(); err == nil {
							log.Note("res val " + strconv.Itoa(v))
						} else {
							log.Note(cpqErr(err))
						}
					case 1:
						log.Note("inv len")
						log.Note("res n " + strconv.Itoa(q.Len()))
					default:
						log.Note("inv cap")
						log.Note("res n " + strconv.Itoa(q.Cap()))
					}
				}
				if r.Chance(25) {
					runtime.Gosched()
				}
			}
		}(t)
	}
	for t := 0; t < g; t++ {
		<-ready
	}
	close(start)
	wg.Wait()
}

func init() {
	register(&target{name: "cpq", log: queueLog,
		gen: func(r *vlib.Rng) string {
			return fmt.Sprintf("cap=%d cmp=%s g=%d calls=%d pre=%d w=%d span=%d", vlib.Pick(r, []int{0, 0, -1, 1, 2, 4}),
				vlib.Pick(r, []string{"nat", "nat", "div3", "div3", "rev"}), vlib.Pick(r, []int{1, 2, 3, 3, 4, 6}),
				vlib.Pick(r, []int{2, 4, 6, 8, 12}), vlib.Pick(r, []int{0, 0, 2, 5, 70}), vlib.Pick(r, []int{30, 50, 70, 70, 100}),
				vlib.Pick(r, []int{4, 12, 100}))
		},
		// corpus: bounded and full; unbounded with ties; a pre-filled unbounded heap beyond its first array (growth), drained
		// (shrinking); readers only on an empty heap
		corpus: []string{"new evt cpq cap=1 cmp=nat g=3 calls=5 pre=0 w=70 span=4 seed=41", "new evt cpq cap=0 cmp=div3 g=4 calls=8 pre=3 w=70 span=12 seed=42",
			"new evt cpq cap=0 cmp=nat g=3 calls=12 pre=70 w=100 span=100 seed=43", "new evt cpq cap=2 cmp=rev g=4 calls=6 pre=2 w=50 span=12 seed=44",
			"new evt cpq cap=-1 cmp=nat g=3 calls=4 pre=0 w=0 span=4 seed=45"},
		run: runCPQ})
}
