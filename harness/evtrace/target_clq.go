package main

// target clq: queue.ConcurrentLinkedQueue (model Ekit.Linz.CLQ: one step per atomic load / CAS over a monotone node history).
//
// Every atomic.LoadPointer / atomic.CompareAndSwapPointer is non-blocking, so evinst runs it inside the log mutex: the log
// order is the real order of the atomic actions.  evinst logs pointer IDENTITIES (p0, p1, … by first sight, nil) of the
// word operated on, the pointer read and the expected/new pointers of a CAS, so the replayer can tie every pointer to
// the model's node index.
//
// A scenario: `pre` values enqueued by thread 0 alone (a non-empty start), then g goroutines issue `calls` random
// Enqueue/Dequeue calls each (mix = percentage of enqueues), some of them yielding between calls so that the windows
// between two atomic actions of one call are hit by the others.

import (
	"errors"
	"fmt"
	"os"
	"runtime"
	"strconv"
	"strings"
	"sync"
	"time"

	iqueue "github.com/ecodeclub/ekit/internal/queue"
	"github.com/ecodeclub/ekit/queue"
	"github.com/ecodeclub/ekit/zzverif/vlib"
)

func clqDeq(q *queue.ConcurrentLinkedQueue[int], log evlog) {
	log.Note("inv deq")
	v, err := q.Dequeue()
	switch {
	case err == nil:
		log.Note("res val " + strconv.Itoa(v))
	case errors.Is(err, iqueue.ErrEmptyQueue):
		log.Note("res empty")
	default:
		log.Note("res err")
	}
}

func clqEnq(q *queue.ConcurrentLinkedQueue[int], v int, log evlog) {
	log.Note(fmt.Sprintf("inv enq %d", v))
	if err := q.Enqueue(v); err == nil {
		log.Note("res ok")
	} else {
		log.Note("res err")
	}
}

// clqPanic: a Go panic inside a call (nil dereference) becomes the call's result in the trace, which no model accepts.  If
// the panic happened inside an instrumented atomic action the log mutex is still held and nothing can be logged any more:
// then the process ends like any crashed harness (the pipeline reports the crash with the scenario).
func clqPanic(log evlog) {
	p := recover()
	if p == nil {
		return
	}
	wd := time.AfterFunc(500*time.Millisecond, func() {
		fmt.Fprintln(os.Stderr, "evtrace clq: panic inside an atomic action:", p)
		os.Exit(2)
	})
	log.Note("res panic")
	wd.Stop()
}

func runCLQ(w []string, seed uint64, log evlog) {
	g, calls, pre, mix := kv(w, "g"), kv(w, "calls"), kv(w, "pre"), kv(w, "mix")
	q := queue.NewConcurrentLinkedQueue[int]()
	var wg sync.WaitGroup
	start := make(chan struct{})
	ready := make(chan struct{}, g)
	for t := 0; t < g; t++ {
		wg.Add(1)
		go func(t int) {
			defer wg.Done()
			defer clqPanic(log)
			log.Tid(t)
			r := vlib.NewRng(seed*7919 + uint64(t))
			if t == 0 {
				for i := 0; i < pre; i++ {
					clqEnq(q, 100+i, log)
				}
			}
			ready <- struct{}{}
			<-start
			for i := 0; i < calls; i++ {
				if r.Intn(100) < mix {
					clqEnq(q, (t+1)*1000+i, log)
				} else {
					clqDeq(q, log)
				}
				if r.Chance(30) {
					runtime.Gosched()
				}
			}
		}(t)
	}
	// a scenario takes milliseconds; a livelock (every Enqueue spinning on a tail that is never swung) or a thread that
	// died with the log mutex held would never end: the process ends like a crashed harness
	wd := time.AfterFunc(20*time.Second, func() {
		fmt.Fprintln(os.Stderr, "evtrace clq: scenario does not end (livelock?):", strings.Join(w, " "))
		os.Exit(2)
	})
	defer wd.Stop()
	for t := 0; t < g; t++ {
		<-ready
	}
	close(start)
	wg.Wait()
}

func init() {
	register(&target{name: "clq", log: queueLog,
		gen: func(r *vlib.Rng) string {
			return fmt.Sprintf("g=%d calls=%d pre=%d mix=%d", vlib.Pick(r, []int{1, 2, 2, 3, 3, 4, 6}), vlib.Pick(r, []int{2, 3, 4, 6, 8, 12}),
				vlib.Pick(r, []int{0, 0, 1, 2, 5}), vlib.Pick(r, []int{20, 40, 50, 50, 60, 80, 100}))
		},
		// corpus: empty start with dequeuers only racing one enqueuer (the empty answer), enqueuers only (link / swing
		// contention), balanced, drain of a pre-filled queue, single thread
		corpus: []string{"new evt clq g=3 calls=4 pre=0 mix=30 seed=11", "new evt clq g=4 calls=6 pre=0 mix=100 seed=12",
			"new evt clq g=4 calls=8 pre=2 mix=50 seed=13", "new evt clq g=3 calls=5 pre=5 mix=0 seed=14",
			"new evt clq g=1 calls=8 pre=1 mix=50 seed=15"},
		run: runCLQ})
}
