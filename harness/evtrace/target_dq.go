package main

// target dq: queue.DelayQueue (model Ekit.DelayQ: virtual clock, mutex, the two cond generations, per-call timer, ctx)
//
// Time.  The only clock the DelayQueue code looks at is Delay() of its elements (time.NewTimer / Reset get
// the duration Delay() returned).  The elements of this target have a FIXED ABSOLUTE deadline `dl` (ns on the
// event log's clock: monotonic, origin one second before the scenario started, so that deadlines in the past
// are still natural numbers) and Delay() = dl - VerifEvClock(): the clock is read INSIDE the log mutex and the
// reading is logged at that position, `e <tid> clk:Delay => <id>/<dl>@<reading>`.  The replayer moves the
// model's clock to exactly that reading before the model evaluates the same Delay() (so the model takes the
// branch `delay <= 0` iff the code did, and arms its timer with the same duration), and otherwise only moves
// it when an observation proves that real time has passed (a received tick, a Reset that reports an expired
// timer): the model's clock is always a lower bound of the real time of the log position.
//
// Distinct deadlines of a scenario are 300 µs apart (slots).  The heap's comparator reads Delay() of its two
// arguments at two instants; the replayer sees both readings and knows when a stall between them has
// inverted the order of two deadlines (then, and only then, a root that is not of minimal deadline is not
// held against the code: the scenario is left unjudged from there on).

import (
	"context"
	"fmt"
	"os"
	"strconv"
	"strings"
	"sync"
	"time"

	"github.com/ecodeclub/ekit/queue"
	"github.com/ecodeclub/ekit/zzverif/vlib"
)

type dqElem struct {
	id int
	dl int64
}

func (e dqElem) Delay() time.Duration {
	return time.Duration(e.dl - queue.VerifEvClock(fmt.Sprintf("clk:Delay %d/%d", e.id, e.dl)))
}

// String: how the white-box snapshot renders an element (never calls Delay)
func (e dqElem) String() string { return strconv.Itoa(e.id) + ":" + strconv.FormatInt(e.dl, 10) }

const dqSlotNs = 300_000

// dqDisc names the timer-channel discipline of this process (as harness/delayq does): the harness is built inside
// the ekit module (go.mod says go 1.20), so the default is the pre-1.23 asynchronous channel;
// GODEBUG=asynctimerchan=0 selects the synchronous one.
func dqDisc() string {
	for _, kv := range strings.Split(os.Getenv("GODEBUG"), ",") {
		if kv == "asynctimerchan=0" {
			return "sync"
		}
	}
	return "async"
}

func runDQ(w []string, seed uint64, log evlog) {
	if d := kvs(w, "disc"); d != dqDisc() {
		panic("scenario generated for timer discipline " + d + ", this process runs " + dqDisc())
	}
	capc, g, calls, late, bulk := kv(w, "cap"), kv(w, "g"), kv(w, "calls"), kv(w, "late"), kv(w, "bulk")
	q := queue.NewDelayQueue[dqElem](capc)
	base := queue.VerifEvClock("")
	var wg sync.WaitGroup
	start := make(chan struct{})
	for t := 0; t < g; t++ {
		wg.Add(1)
		go func(t int) {
			defer wg.Done()
			log.Tid(t)
			r := vlib.NewRng(seed*7919 + uint64(t))
			<-start
			if t == 0 && bulk > 0 {
				// backlog phase (unbounded queues: the heap array grows beyond its initial 64 slots and shrinks again):
				// thread 0 enqueues `bulk` expired elements with distinct deadlines in random order, then takes them out
				slots := make([]int, bulk)
				for i := range slots {
					j := r.Intn(i + 1)
					slots[i], slots[j] = slots[j], i
				}
				for i := 0; i < 2*bulk; i++ {
					ctx, cancel := context.WithTimeout(context.Background(), 50*time.Millisecond)
					if i < bulk {
						v := dqElem{id: 100000 + i, dl: base - int64(1+slots[i])*dqSlotNs}
						log.Note(fmt.Sprintf("inv enq %d %d to", v.id, v.dl))
						err := q.Enqueue(ctx, v)
						log.Note("res " + errTok(err))
					} else {
						log.Note("inv deq to")
						v, err := q.Dequeue(ctx)
						if err == nil {
							log.Note("res val " + strconv.Itoa(v.id))
						} else {
							log.Note("res " + errTok(err))
						}
					}
					cancel()
				}
			}
			for i := 0; i < calls; i++ {
				ctx, cancel, kind := randCtx(r)
				if r.Intn(100) < 45 {
					// deadline slots: already expired / expiring while consumers wait / later than most contexts
					slot := r.Intn(4+late) - 1
					if r.Chance(15) {
						slot = 8 + r.Intn(6)
					}
					v := dqElem{id: (t+1)*1000 + i, dl: base + int64(slot)*dqSlotNs}
					log.Note(fmt.Sprintf("inv enq %d %d %s", v.id, v.dl, kind))
					err := q.Enqueue(ctx, v)
					log.Note("res " + errTok(err))
				} else {
					log.Note("inv deq " + kind)
					v, err := q.Dequeue(ctx)
					if err == nil {
						log.Note("res val " + strconv.Itoa(v.id))
					} else {
						log.Note("res " + errTok(err))
					}
				}
				cancel()
			}
		}(t)
	}
	close(start)
	wg.Wait()
}

func genDQ(r *vlib.Rng) string {
	c := vlib.Pick(r, []int{0, 0, 1, 1, 2, 3, -1})
	bulk := 0
	if c <= 0 && r.Chance(4) {
		bulk = 70 + r.Intn(80)
	}
	return fmt.Sprintf("cap=%d g=%d calls=%d late=%d bulk=%d disc=%s", c, vlib.Pick(r, []int{1, 2, 2, 3, 3, 4}), vlib.Pick(r, []int{2, 3, 4, 6, 8}),
		vlib.Pick(r, []int{0, 2, 4, 6}), bulk, dqDisc())
}

func init() {
	d := dqDisc()
	register(&target{name: "dq", log: queueLog, gen: genDQ,
		// corpus: bounded and full (producers park on dequeueSignal), unbounded with late deadlines (consumers park on
		// their timers, several on the same head: stale ticks, re-peek finds the head gone), one thread, many threads
		corpus: []string{
			"new evt dq cap=1 g=3 calls=6 late=0 disc=" + d + " seed=11",
			"new evt dq cap=0 g=4 calls=6 late=6 disc=" + d + " seed=12",
			"new evt dq cap=2 g=4 calls=8 late=2 disc=" + d + " seed=13",
			"new evt dq cap=0 g=1 calls=8 late=4 disc=" + d + " seed=14",
			"new evt dq cap=-1 g=2 calls=4 late=2 disc=" + d + " seed=15",
			"new evt dq cap=0 g=2 calls=4 late=2 bulk=100 disc=" + d + " seed=16",
		},
		run: runDQ})
}
