package main

// targets limit, seg: syncx.LimitPool / syncx.SegmentKeysLock (models Ekit.LimitPool, Ekit.SegmentLock; C14)
//
// limit: g goroutines issue random Get/Put on one LimitPool (element kinds as in harness/syncx: non-nil pointers and
// zero-valued legitimately borrowed objects); only borrowed objects are Put, objects are handed from one goroutine to
// another through a bag; the factory notes itself in the log ("Factory:Call(factory)", which tells the replayer
// which way sync.Pool.Get went).  A closing phase on one more thread (tid g) puts everything back and then makes
// max+2 uninterrupted Gets ("exactly maxTokens further Gets succeed").
//
// seg: g goroutines issue random Lock/RLock/TryLock/TryRLock/Unlock/RUnlock on a few keys (every call receives a
// freshly allocated string).  No deadlines exist for Lock/RLock, so the scenario ends by construction: a goroutine
// calls a BLOCKING method only while it holds nothing, a goroutine that holds something only makes Try… calls and
// releases; everything is released at the end.

import (
	"encoding/hex"
	"fmt"
	"runtime"
	"strings"
	"sync"

	"github.com/ecodeclub/ekit/syncx"
	"github.com/ecodeclub/ekit/zzverif/vlib"
)

var syncxLog = evlog{syncx.VerifEvInstrumented, syncx.VerifEvStart, syncx.VerifEvStop, syncx.VerifEvTid, syncx.VerifEvNote}

// ---------------------------------------------------------------------------------------------
// LimitPool

type evObj struct{ id int64 }

var evLimKinds = []string{"ptr", "ptr", "int0", "unit", "str0", "val"}

// yield=<permille> of a scenario line: how often the instrumented code yields the processor between two of its
// non-blocking synchronisation actions (syncx.VerifEvYield; more interleavings inside one call)
var evYields = []int{0, 100, 300, 300, 600}

func runLimit[T any](max, g, calls int, seed uint64, log evlog, mk func(n int64) T) {
	var made int64 // only touched inside the factory, which sync.Pool.Get calls on the getter's goroutine
	var madeMu sync.Mutex
	p := syncx.NewLimitPool[T](max, func() T {
		log.Note("Factory:Call(factory)")
		madeMu.Lock()
		made++
		n := made
		madeMu.Unlock()
		return mk(n)
	})
	var bagMu sync.Mutex
	var bag []T // objects handed over between goroutines (borrowed, not yet Put)
	var wg sync.WaitGroup
	start := make(chan struct{})
	for t := 0; t < g; t++ {
		wg.Add(1)
		go func(t int) {
			defer wg.Done()
			log.Tid(t)
			r := vlib.NewRng(seed*7919 + uint64(t))
			var mine []T
			<-start
			for i := 0; i < calls; i++ {
				if r.Chance(25) {
					runtime.Gosched()
				}
				doPut := len(mine) > 0 && r.Chance(45)
				var x T
				if doPut {
					x, mine = mine[len(mine)-1], mine[:len(mine)-1]
				} else if r.Chance(15) {
					bagMu.Lock()
					if len(bag) > 0 {
						x, bag = bag[len(bag)-1], bag[:len(bag)-1]
						doPut = true
					}
					bagMu.Unlock()
				}
				if doPut {
					log.Note("inv put")
					p.Put(x)
					log.Note("res ok")
					continue
				}
				log.Note("inv get")
				x, ok := p.Get()
				if !ok {
					log.Note("res false")
					continue
				}
				log.Note("res true")
				if r.Chance(25) {
					bagMu.Lock()
					bag = append(bag, x)
					bagMu.Unlock()
				} else {
					mine = append(mine, x)
				}
			}
			bagMu.Lock()
			bag = append(bag, mine...)
			bagMu.Unlock()
		}(t)
	}
	close(start)
	wg.Wait()
	// closing phase (thread g): everything borrowed is put back, then max+2 uninterrupted Gets, then those are put back
	done := make(chan struct{})
	go func() {
		defer close(done)
		log.Tid(g)
		for _, x := range bag {
			log.Note("inv put")
			p.Put(x)
			log.Note("res ok")
		}
		var got []T
		for i := 0; i < max+2; i++ {
			log.Note("inv get")
			x, ok := p.Get()
			if ok {
				log.Note("res true")
				got = append(got, x)
			} else {
				log.Note("res false")
			}
		}
		for _, x := range got {
			log.Note("inv put")
			p.Put(x)
			log.Note("res ok")
		}
	}()
	<-done
}

func runLimitKind(kind string, max, g, calls int, seed uint64, log evlog) {
	switch kind {
	case "", "ptr":
		runLimit[*evObj](max, g, calls, seed, log, func(n int64) *evObj { return &evObj{id: n} })
	case "int0":
		runLimit[int](max, g, calls, seed, log, func(int64) int { return 0 })
	case "unit":
		runLimit[struct{}](max, g, calls, seed, log, func(int64) struct{} { return struct{}{} })
	case "str0":
		runLimit[string](max, g, calls, seed, log, func(int64) string { return "" })
	case "val":
		runLimit[evObj](max, g, calls, seed, log, func(n int64) evObj { return evObj{id: n - 1} }) // the first object is the zero evObj
	default:
		panic("limit kind " + kind)
	}
}

func genLimit(r *vlib.Rng) string {
	return fmt.Sprintf("max=%d g=%d calls=%d kind=%s yield=%d", vlib.Pick(r, []int{0, 0, 1, 1, 1, 2, 2, 3, 5}),
		vlib.Pick(r, []int{1, 2, 3, 3, 4, 4, 4}), vlib.Pick(r, []int{3, 5, 8, 12, 16}), vlib.Pick(r, evLimKinds), vlib.Pick(r, evYields))
}

// ---------------------------------------------------------------------------------------------
// SegmentKeysLock

func evHex(b []byte) string {
	if len(b) == 0 {
		return "-"
	}
	return hex.EncodeToString(b)
}

func evUnhex(s string) []byte {
	if s == "-" {
		return []byte{}
	}
	b, err := hex.DecodeString(s)
	if err != nil {
		panic("bad hex key " + s)
	}
	return b
}

// evFresh: a newly allocated string with the given contents (equal contents, distinct allocations on every call)
func evFresh(b []byte) string {
	var sb strings.Builder
	for _, c := range b {
		sb.WriteByte(c)
	}
	return sb.String()
}

func evKeyPool() [][]byte {
	long := make([]byte, 300)
	for i := range long {
		long[i] = 'x'
	}
	return [][]byte{
		{}, []byte("a"), []byte("b"), []byte("ab"), []byte("ba"), []byte("key1"), []byte("key2"),
		[]byte("héllo"), []byte("键值"), []byte("🙂🙂"), []byte("ключ"), long,
		{0}, {0xff, 0xfe}, []byte("a\x00b"), {0x80}, []byte("key1 "), []byte("Key1"),
	}
}

type evHold struct {
	key   []byte
	write bool
}

func runSeg(size, g, calls int, keys [][]byte, seed uint64, log evlog) {
	s := syncx.NewSegmentKeysLock(uint32(size))
	var wg sync.WaitGroup
	start := make(chan struct{})
	for t := 0; t < g; t++ {
		wg.Add(1)
		go func(t int) {
			defer wg.Done()
			log.Tid(t)
			r := vlib.NewRng(seed*7919 + uint64(t))
			var holds []evHold
			release := func(i int) {
				h := holds[i]
				holds = append(holds[:i], holds[i+1:]...)
				if h.write {
					log.Note("inv unlock " + evHex(h.key))
					s.Unlock(evFresh(h.key))
				} else {
					log.Note("inv runlock " + evHex(h.key))
					s.RUnlock(evFresh(h.key))
				}
				log.Note("res ok")
			}
			try := func(k []byte, write bool) {
				var ok bool
				if write {
					log.Note("inv trylock " + evHex(k))
					ok = s.TryLock(evFresh(k))
				} else {
					log.Note("inv tryrlock " + evHex(k))
					ok = s.TryRLock(evFresh(k))
				}
				log.Note(fmt.Sprintf("res %v", ok))
				if ok {
					holds = append(holds, evHold{k, write})
				}
			}
			<-start
			for i := 0; i < calls; i++ {
				if r.Chance(30) {
					runtime.Gosched()
				}
				k := vlib.Pick(r, keys)
				p := r.Intn(100)
				switch {
				case len(holds) > 0 && (p < 50 || len(holds) >= 3):
					release(r.Intn(len(holds)))
				case len(holds) > 0 || p < 40:
					try(k, r.Chance(50))
				case p < 70:
					// blocking, only while holding nothing
					log.Note("inv lock " + evHex(k))
					s.Lock(evFresh(k))
					log.Note("res ok")
					holds = append(holds, evHold{k, true})
				default:
					log.Note("inv rlock " + evHex(k))
					s.RLock(evFresh(k))
					log.Note("res ok")
					holds = append(holds, evHold{k, false})
				}
			}
			for len(holds) > 0 {
				release(len(holds) - 1)
			}
		}(t)
	}
	close(start)
	wg.Wait()
}

func genSeg(r *vlib.Rng) string {
	pool := evKeyPool()
	nk := r.Range(1, 4)
	ks := make([]string, nk)
	for i := range ks {
		ks[i] = evHex(vlib.Pick(r, pool))
	}
	return fmt.Sprintf("size=%d g=%d calls=%d keys=%s yield=%d", vlib.Pick(r, []int{1, 1, 2, 2, 3, 4, 7, 16, 1000}),
		vlib.Pick(r, []int{1, 2, 3, 3, 4, 4}), vlib.Pick(r, []int{4, 6, 10, 14}), strings.Join(ks, ","), vlib.Pick(r, evYields))
}

func init() {
	register(&target{name: "limit", log: syncxLog, gen: genLimit,
		corpus: []string{
			"new evt limit max=1 g=3 calls=8 kind=ptr seed=11", "new evt limit max=0 g=4 calls=6 kind=ptr seed=12",
			"new evt limit max=2 g=4 calls=10 kind=int0 seed=13", "new evt limit max=1 g=2 calls=6 kind=unit seed=14",
			"new evt limit max=3 g=3 calls=8 kind=str0 seed=15", "new evt limit max=2 g=3 calls=8 kind=val seed=16",
			// several failing Gets between their decrement and their compensation at once (counter below -1)
			"new evt limit max=0 g=4 calls=20 kind=ptr yield=300 seed=17", "new evt limit max=1 g=4 calls=20 kind=int0 yield=600 seed=18",
			"new evt limit max=0 g=3 calls=20 kind=val yield=300 seed=19",
		},
		run: func(w []string, seed uint64, log evlog) {
			syncx.VerifEvYield(kv(w, "yield"))
			runLimitKind(kvs(w, "kind"), kv(w, "max"), kv(w, "g"), kv(w, "calls"), seed, log)
		}})
	register(&target{name: "seg", log: syncxLog, gen: genSeg,
		corpus: []string{
			// one key, one segment: pure contention; colliding keys on few segments; empty / long / non-ASCII keys
			"new evt seg size=1 g=4 calls=10 keys=6b yield=300 seed=21", "new evt seg size=2 g=3 calls=10 keys=61,62,6162 seed=22",
			"new evt seg size=3 g=4 calls=12 keys=-,e994aee580bc,6b657931 seed=23",
			"new evt seg size=1000 g=3 calls=8 keys=6b657931,6b657932 seed=24",
			"new evt seg size=7 g=2 calls=8 keys=" + evHex(evKeyPool()[11]) + ",00,fffe seed=25",
		},
		run: func(w []string, seed uint64, log evlog) {
			var keys [][]byte
			for _, k := range strings.Split(kvs(w, "keys"), ",") {
				keys = append(keys, evUnhex(k))
			}
			syncx.VerifEvYield(kv(w, "yield"))
			runSeg(kv(w, "size"), kv(w, "g"), kv(w, "calls"), keys, seed, log)
		}})
}
