// Synchronisation-event traces of the real code (C06–C09, C14: model-mode correspondence at the level of
// single lock / semaphore / atomic / channel actions).
//
// This harness is built against a scratch copy of the repository that harness/evinst has instrumented:
// every synchronisation action of the concurrent files appends "<goroutine> <function>:<action> <result>"
// to a global log in an order that is a legal order of the real execution (see evinst).  A scenario starts
// g goroutines that issue random calls with random contexts on one object; the log, interleaved with the
// harness's own invocation/response notes, is written as one trace line per event:
//
//	new evt abq cap=2 g=3 calls=5 seed=77   => ok instrumented=true
//	e 0 inv enq 1001 to                      => -
//	e 0 ConcurrentArrayBlockingQueue_Enqueue:SemAcquire(enqueueCap) => nil
//	e 0 ConcurrentArrayBlockingQueue_Enqueue:Lock(mutex)            => -
//	...
//	e 0 res ok                               => -
//	end                                      => ok
//
// The Lean driver (area evtrace, model mode) replays the events on the transition-system model the theorems
// are about: every event must be the next synchronisation action of that thread in the model (statements
// between two synchronisation actions are advanced silently), the model's step must be enabled in the
// model's state (a Lock only when the lock is free, an Acquire only when a permit is free, a receive only
// from a closed generation, …), white-box snapshots taken inside critical sections must equal the model's
// state, and the results of the calls must be the model's.  In spec mode nothing is decided here.
package main

import (
	"context"
	"encoding/json"
	"flag"
	"fmt"
	"os"
	"strconv"
	"strings"
	"sync"
	"time"

	"github.com/ecodeclub/ekit/queue"
	"github.com/ecodeclub/ekit/zzverif/vlib"
)

type stats struct {
	Cases     int            `json:"cases"`
	Lines     int            `json:"lines"`
	Distinct  int            `json:"distinct_state_op_pairs"`
	Targets   map[string]int `json:"targets"`
	Events    map[string]int `json:"events_by_action"`
	Results   map[string]int `json:"call_results"`
	MaxEvents int            `json:"max_events_per_scenario"`
}

func kv(w []string, k string) int {
	for _, x := range w {
		if strings.HasPrefix(x, k+"=") {
			n, _ := strconv.Atoi(x[len(k)+1:])
			return n
		}
	}
	return 0
}

func gen(tier string, targets []string, out *vlib.Out) {
	want := map[string]bool{}
	for _, t := range targets {
		want[t] = true
	}
	r := vlib.NewRng(vlib.Seed())
	n := 120
	if tier == "thorough" {
		n = 1200
	}
	// corpus: the shapes the models distinguish (full / empty / wrap-around / cancelled before, during, after)
	for _, l := range []string{
		"new evt abq cap=1 g=2 calls=4 seed=1",
		"new evt abq cap=2 g=4 calls=5 seed=2",
		"new evt abq cap=3 g=3 calls=8 seed=3",
		"new evt lbq cap=1 g=2 calls=4 seed=4",
		"new evt lbq cap=2 g=4 calls=5 seed=5",
		"new evt lbq cap=0 g=3 calls=6 seed=6",
	} {
		if want[strings.Fields(l)[2]] {
			out.Line("%s", l)
		}
	}
	var bqs []string
	for _, t := range []string{"abq", "lbq"} {
		if want[t] {
			bqs = append(bqs, t)
		}
	}
	for i := 0; i < n && len(bqs) > 0; i++ {
		tgt := vlib.Pick(r, bqs)
		c := vlib.Pick(r, []int{1, 1, 2, 2, 3, 4})
		if tgt == "lbq" && r.Chance(20) {
			c = vlib.Pick(r, []int{0, -1})
		}
		out.Line("new evt %s cap=%d g=%d calls=%d seed=%d", tgt, c, vlib.Pick(r, []int{1, 2, 2, 3, 3, 4}),
			vlib.Pick(r, []int{2, 3, 4, 6, 8}), r.Intn(1<<30))
	}
}

// bq is what both blocking queues offer
type bq interface {
	Enqueue(ctx context.Context, t int) error
	Dequeue(ctx context.Context) (int, error)
	Len() int
	AsSlice() []int
}

func ints(xs []int) string {
	if len(xs) == 0 {
		return "-"
	}
	s := make([]string, len(xs))
	for i, x := range xs {
		s[i] = strconv.Itoa(x)
	}
	return strings.Join(s, ",")
}

func errTok(err error) string {
	switch {
	case err == nil:
		return "ok"
	case err == context.Canceled || err == context.DeadlineExceeded:
		return "ctxErr"
	}
	return "err"
}

// runBQ: g goroutines, `calls` calls each; blocking calls always carry a deadline so a scenario ends.
func runBQ(q bq, g, calls int, seed uint64) {
	var wg sync.WaitGroup
	start := make(chan struct{})
	for t := 0; t < g; t++ {
		wg.Add(1)
		go func(t int) {
			defer wg.Done()
			queue.VerifEvTid(t)
			r := vlib.NewRng(seed*7919 + uint64(t))
			<-start
			for i := 0; i < calls; i++ {
				ctx, cancel := context.Background(), context.CancelFunc(func() {})
				kind := "to"
				switch p := r.Intn(100); {
				case p < 12: // cancelled before the call
					ctx, cancel = context.WithCancel(ctx)
					cancel()
					kind = "pre"
				case p < 30: // expires very soon: lands at an arbitrary point of the call
					ctx, cancel = context.WithTimeout(ctx, time.Duration(1+r.Intn(60))*time.Microsecond)
					kind = "soon"
				default:
					ctx, cancel = context.WithTimeout(ctx, time.Duration(1+r.Intn(4))*time.Millisecond)
				}
				switch p := r.Intn(100); {
				case p < 42:
					v := (t+1)*1000 + i
					queue.VerifEvNote(fmt.Sprintf("inv enq %d %s", v, kind))
					err := q.Enqueue(ctx, v)
					queue.VerifEvNote("res " + errTok(err))
				case p < 84:
					queue.VerifEvNote("inv deq " + kind)
					v, err := q.Dequeue(ctx)
					if err == nil {
						queue.VerifEvNote("res val " + strconv.Itoa(v))
					} else {
						queue.VerifEvNote("res " + errTok(err))
					}
				case p < 92:
					queue.VerifEvNote("inv len")
					queue.VerifEvNote("res n " + strconv.Itoa(q.Len()))
				default:
					queue.VerifEvNote("inv asslice")
					queue.VerifEvNote("res slice " + ints(q.AsSlice()))
				}
				cancel()
			}
		}(t)
	}
	close(start)
	wg.Wait()
}

func run(ops []string, out *vlib.Out, st *stats) {
	for _, line := range ops {
		w := strings.Fields(line)
		if len(w) < 3 || w[0] != "new" || w[1] != "evt" {
			continue // event lines of an earlier trace (shrinking feeds them back): only scenarios are executed
		}
		st.Cases++
		st.Targets[w[2]]++
		c, g, calls := kv(w, "cap"), kv(w, "g"), kv(w, "calls")
		seed := uint64(kv(w, "seed")) ^ vlib.Seed()<<20
		var events []string
		p := vlib.Catch(func() {
			var q bq
			switch w[2] {
			case "abq":
				q = queue.NewConcurrentArrayBlockingQueue[int](c)
			case "lbq":
				q = queue.NewConcurrentLinkedBlockingQueue[int](c)
			default:
				panic("target " + w[2])
			}
			queue.VerifEvStart()
			runBQ(q, g, calls, seed)
			events = queue.VerifEvStop()
		})
		if p != "" {
			out.Line("%s => %s", line, p)
			continue
		}
		out.Line("%s => ok instrumented=%v", line, queue.VerifEvInstrumented())
		for _, e := range events {
			f := strings.SplitN(e, " ", 3) // tid, site, result
			res := "-"
			if len(f) == 3 && !strings.HasPrefix(f[1], "inv") && !strings.HasPrefix(f[1], "res") {
				res = f[2]
				e = f[0] + " " + f[1]
			}
			out.Line("e %s => %s", e, res)
			act := f[1]
			if i := strings.Index(act, ":"); i >= 0 {
				act = act[i+1:]
			}
			if f[1] == "res" && len(f) == 3 {
				st.Results[strings.Fields(f[2])[0]]++
			}
			st.Events[act]++
		}
		if len(events) > st.MaxEvents {
			st.MaxEvents = len(events)
		}
		st.Distinct += len(events)
		out.Line("end => ok")
	}
}

func main() {
	mode := flag.String("mode", "", "gen|run")
	tier := flag.String("tier", "quick", "quick|thorough")
	opsPath := flag.String("ops", "", "ops file (run)")
	outPath := flag.String("out", "", "output file")
	statsPath := flag.String("stats", "", "stats json (run)")
	targets := flag.String("targets", "abq,lbq", "gen: comma separated targets")
	flag.Parse()
	out := vlib.Create(*outPath)
	defer out.Close()
	switch *mode {
	case "gen":
		gen(*tier, strings.Split(*targets, ","), out)
	case "run":
		st := &stats{Targets: map[string]int{}, Events: map[string]int{}, Results: map[string]int{}}
		run(vlib.ReadLines(*opsPath), out, st)
		st.Lines = out.N
		if *statsPath != "" {
			b, _ := json.MarshalIndent(st, "", " ")
			os.WriteFile(*statsPath, b, 0o644)
		}
	default:
		fmt.Fprintln(os.Stderr, "usage: -mode gen|run")
		os.Exit(2)
	}
}
