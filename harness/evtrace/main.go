// Synchronisation-event traces of the real code (C06–C14: model-mode correspondence at the level of
// single lock / semaphore / atomic / channel actions).
//
// This harness is built against a scratch copy of the repository that harness/evinst has instrumented:
// every synchronisation action of the concurrent files appends "<goroutine> <function>:<action> <result>"
// to a global log in an order that is a legal order of the real execution (see evinst).  A scenario starts
// g goroutines that issue random calls with random contexts on one object; the log, interleaved with the
// harness's own invocation/response notes, is written as one trace line per event:
//
//	new evt abq cap=2 g=3 calls=5 seed=77   => ok instrumented=true
//	e 0 inv enq 1001 to                      => -
//	e 0 ConcurrentArrayBlockingQueue_Enqueue:SemAcquire(enqueueCap) => nil
//	e 0 ConcurrentArrayBlockingQueue_Enqueue:Lock(mutex)            => -
//	...
//	e 0 res ok                               => -
//	end                                      => ok
//
// The Lean driver (area evtrace, model mode) replays the events on the transition-system model the theorems
// are about: every event must be the next synchronisation action of that thread in the model (statements
// between two synchronisation actions are advanced silently), the model's step must be enabled in the
// model's state (a Lock only when the lock is free, an Acquire only when a permit is free, a receive only
// from a closed generation, …), white-box snapshots taken inside critical sections must equal the model's
// state, and the results of the calls must be the model's.  In spec mode nothing is decided here.
//
// One file per target (target_<name>.go) registers: how scenario lines are generated and how a scenario is
// run.  The event log lives in the instrumented package (queue.VerifEv…, syncx.VerifEv…).
package main

import (
	"encoding/json"
	"flag"
	"fmt"
	"os"
	"sort"
	"strconv"
	"strings"

	"github.com/ecodeclub/ekit/zzverif/vlib"
)

type stats struct {
	Cases     int            `json:"cases"`
	Lines     int            `json:"lines"`
	Distinct  int            `json:"distinct_state_op_pairs"`
	Targets   map[string]int `json:"targets"`
	Events    map[string]int `json:"events_by_action"`
	Results   map[string]int `json:"call_results"`
	MaxEvents int            `json:"max_events_per_scenario"`
}

// evlog is the log API of one instrumented package
type evlog struct {
	Instrumented func() bool
	Start        func()
	Stop         func() []string
	Tid          func(int)
	Note         func(string)
}

// target: one modelled object
type target struct {
	name   string
	log    evlog
	corpus []string                                 // scenario lines ("new evt <name> k=v …") that always run first
	gen    func(r *vlib.Rng) string                 // one random scenario line (without the "new evt <name> " prefix)
	run    func(w []string, seed uint64, log evlog) // executes one scenario (w = fields of the line); panics are caught
}

var targets = map[string]*target{}

func register(t *target) { targets[t.name] = t }

func kv(w []string, k string) int {
	for _, x := range w {
		if strings.HasPrefix(x, k+"=") {
			n, _ := strconv.Atoi(x[len(k)+1:])
			return n
		}
	}
	return 0
}

func kvs(w []string, k string) string {
	for _, x := range w {
		if strings.HasPrefix(x, k+"=") {
			return x[len(k)+1:]
		}
	}
	return ""
}

func ints(xs []int) string {
	if len(xs) == 0 {
		return "-"
	}
	s := make([]string, len(xs))
	for i, x := range xs {
		s[i] = strconv.Itoa(x)
	}
	return strings.Join(s, ",")
}

func gen(tier string, names []string, out *vlib.Out) {
	r := vlib.NewRng(vlib.Seed())
	n := 120
	if tier == "thorough" {
		n = 1200
	}
	var ts []*target
	sort.Strings(names)
	for _, nm := range names {
		t := targets[nm]
		if t == nil {
			fmt.Fprintln(os.Stderr, "evtrace: unknown target", nm)
			os.Exit(2)
		}
		ts = append(ts, t)
		for _, l := range t.corpus {
			out.Line("%s", l)
		}
	}
	for i := 0; i < n && len(ts) > 0; i++ {
		t := vlib.Pick(r, ts)
		out.Line("new evt %s %s seed=%d", t.name, t.gen(r), r.Intn(1<<30))
	}
}

func run(ops []string, out *vlib.Out, st *stats) {
	for _, line := range ops {
		w := strings.Fields(line)
		if len(w) < 3 || w[0] != "new" || w[1] != "evt" {
			continue // event lines of an earlier trace (shrinking feeds them back): only scenarios are executed
		}
		t := targets[w[2]]
		if t == nil {
			out.Line("%s => bad-target", line)
			continue
		}
		st.Cases++
		st.Targets[w[2]]++
		seed := uint64(kv(w, "seed")) ^ vlib.Seed()<<20
		var events []string
		p := vlib.Catch(func() {
			t.log.Start()
			t.run(w, seed, t.log)
			events = t.log.Stop()
		})
		if p != "" {
			t.log.Stop()
			out.Line("%s => %s", line, p)
			continue
		}
		out.Line("%s => ok instrumented=%v", line, t.log.Instrumented())
		for _, e := range events {
			f := strings.SplitN(e, " ", 3) // tid, site, result
			res := "-"
			if len(f) == 3 && f[1] != "inv" && f[1] != "res" {
				res = f[2]
				e = f[0] + " " + f[1]
			}
			out.Line("e %s => %s", e, res)
			act := f[1]
			if i := strings.Index(act, ":"); i >= 0 {
				act = act[i+1:]
			}
			if f[1] == "res" && len(f) == 3 {
				st.Results[strings.Fields(f[2])[0]]++
			}
			st.Events[act]++
		}
		if len(events) > st.MaxEvents {
			st.MaxEvents = len(events)
		}
		st.Distinct += len(events)
		out.Line("end => ok")
	}
}

func main() {
	mode := flag.String("mode", "", "gen|run")
	tier := flag.String("tier", "quick", "quick|thorough")
	opsPath := flag.String("ops", "", "ops file (run)")
	outPath := flag.String("out", "", "output file")
	statsPath := flag.String("stats", "", "stats json (run)")
	names := flag.String("targets", "abq,lbq", "gen: comma separated targets")
	flag.Parse()
	out := vlib.Create(*outPath)
	defer out.Close()
	switch *mode {
	case "gen":
		gen(*tier, strings.Split(*names, ","), out)
	case "run":
		st := &stats{Targets: map[string]int{}, Events: map[string]int{}, Results: map[string]int{}}
		run(vlib.ReadLines(*opsPath), out, st)
		st.Lines = out.N
		if *statsPath != "" {
			b, _ := json.MarshalIndent(st, "", " ")
			os.WriteFile(*statsPath, b, 0o644)
		}
	default:
		fmt.Fprintln(os.Stderr, "usage: -mode gen|run")
		os.Exit(2)
	}
}
