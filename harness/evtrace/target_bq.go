package main

// targets abq, lbq: ConcurrentArrayBlockingQueue / ConcurrentLinkedBlockingQueue (models Ekit.ArrayBQ, Ekit.LinkedBQ)

import (
	"context"
	"fmt"
	"strconv"
	"sync"
	"time"

	"github.com/ecodeclub/ekit/queue"
	"github.com/ecodeclub/ekit/zzverif/vlib"
)

var queueLog = evlog{queue.VerifEvInstrumented, queue.VerifEvStart, queue.VerifEvStop, queue.VerifEvTid, queue.VerifEvNote}

// bq is what both blocking queues offer
type bq interface {
	Enqueue(ctx context.Context, t int) error
	Dequeue(ctx context.Context) (int, error)
	Len() int
	AsSlice() []int
}

func errTok(err error) string {
	switch {
	case err == nil:
		return "ok"
	case err == context.Canceled || err == context.DeadlineExceeded:
		return "ctxErr"
	}
	return "err"
}

// randCtx: cancelled before the call / expiring at an arbitrary point of the call / generous (blocking
// calls always carry a deadline so that a scenario ends)
func randCtx(r *vlib.Rng) (context.Context, context.CancelFunc, string) {
	ctx := context.Background()
	switch p := r.Intn(100); {
	case p < 12:
		c, cancel := context.WithCancel(ctx)
		cancel()
		return c, cancel, "pre"
	case p < 30:
		c, cancel := context.WithTimeout(ctx, time.Duration(1+r.Intn(60))*time.Microsecond)
		return c, cancel, "soon"
	}
	c, cancel := context.WithTimeout(ctx, time.Duration(1+r.Intn(4))*time.Millisecond)
	return c, cancel, "to"
}

func runBQ(q bq, g, calls int, seed uint64, log evlog) {
	var wg sync.WaitGroup
	start := make(chan struct{})
	for t := 0; t < g; t++ {
		wg.Add(1)
		go func(t int) {
			defer wg.Done()
			log.Tid(t)
			r := vlib.NewRng(seed*7919 + uint64(t))
			<-start
			for i := 0; i < calls; i++ {
				ctx, cancel, kind := randCtx(r)
				switch p := r.Intn(100); {
				case p < 42:
					v := (t+1)*1000 + i
					log.Note(fmt.Sprintf("inv enq %d %s", v, kind))
					err := q.Enqueue(ctx, v)
					log.Note("res " + errTok(err))
				case p < 84:
					log.Note("inv deq " + kind)
					v, err := q.Dequeue(ctx)
					if err == nil {
						log.Note("res val " + strconv.Itoa(v))
					} else {
						log.Note("res " + errTok(err))
					}
				case p < 92:
					log.Note("inv len")
					log.Note("res n " + strconv.Itoa(q.Len()))
				default:
					log.Note("inv asslice")
					log.Note("res slice " + ints(q.AsSlice()))
				}
				cancel()
			}
		}(t)
	}
	close(start)
	wg.Wait()
}

func genBQ(lbq bool) func(r *vlib.Rng) string {
	return func(r *vlib.Rng) string {
		c := vlib.Pick(r, []int{1, 1, 2, 2, 3, 4})
		if lbq && r.Chance(20) {
			c = vlib.Pick(r, []int{0, -1})
		}
		return fmt.Sprintf("cap=%d g=%d calls=%d", c, vlib.Pick(r, []int{1, 2, 2, 3, 3, 4}), vlib.Pick(r, []int{2, 3, 4, 6, 8}))
	}
}

func init() {
	// corpus: the shapes the models distinguish (full / empty / wrap-around / cancelled before, during, after)
	register(&target{name: "abq", log: queueLog, gen: genBQ(false),
		corpus: []string{"new evt abq cap=1 g=2 calls=4 seed=1", "new evt abq cap=2 g=4 calls=5 seed=2", "new evt abq cap=3 g=3 calls=8 seed=3"},
		run: func(w []string, seed uint64, log evlog) {
			runBQ(queue.NewConcurrentArrayBlockingQueue[int](kv(w, "cap")), kv(w, "g"), kv(w, "calls"), seed, log)
		}})
	register(&target{name: "lbq", log: queueLog, gen: genBQ(true),
		corpus: []string{"new evt lbq cap=1 g=2 calls=4 seed=4", "new evt lbq cap=2 g=4 calls=5 seed=5", "new evt lbq cap=0 g=3 calls=6 seed=6"},
		run: func(w []string, seed uint64, log evlog) {
			runBQ(queue.NewConcurrentLinkedBlockingQueue[int](kv(w, "cap")), kv(w, "g"), kv(w, "calls"), seed, log)
		}})
}
