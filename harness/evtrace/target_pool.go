package main

// target pool: pool.OnDemandBlockTaskPool (model Ekit.Pool, properties C10–C12).
//
// The instrumented pool/task_pool.go (evinst options poll,go,chan=queue,cancel=interruptCtxCancel) logs
// every load / CAS of the lifecycle cell, every Lock/Unlock of b.mutex and of the timeout group's mutex
// (with snapshots), every len(b.queue), the select arms of trySubmit and of the worker loop (polled: the
// arm taken is logged atomically with the channel operation), close / cancel, the go statements and
// ShutdownNow's drain loop.  Worker goroutines are created inside the library: their events carry the
// names g<N> and are bound to the model's workers by the replayer (Driver/Ev/Pool.lean).
//
// A scenario: g caller threads issue Submit (tasks that return, panic or block until released / their own
// timeout; contexts already cancelled, expiring soon, generous), Start, Shutdown, ShutdownNow, pauses and
// releases; then the harness's own goroutine (caller g) releases every task, calls Start and ShutdownNow
// (whatever they answer) and waits until every goroutine of the scenario is gone.  Nothing ever waits for
// the done channel of a graceful Shutdown (known findings C12-F1/F2: it may never be closed).
// States() is not exercised here (its sampling goroutine calls getState inside a select send arm).

import (
	"context"
	"fmt"
	"runtime"
	"strconv"
	"sync"
	"time"

	"github.com/ecodeclub/ekit/pool"
	"github.com/ecodeclub/ekit/zzverif/vlib"
)

var poolLog = evlog{pool.VerifEvInstrumented, pool.VerifEvStart, pool.VerifEvStop, pool.VerifEvTid, pool.VerifEvNote}

type evTask struct {
	k   int
	beh string
	rel chan struct{}
	log evlog
}

func (t *evTask) Run(ctx context.Context) error {
	if p, ok := ctx.Value(probeKey{}).(*int); ok {
		*p = t.k
		return nil
	}
	t.log.Note("trun " + strconv.Itoa(t.k))
	switch t.beh {
	case "panic":
		t.log.Note("tpanic " + strconv.Itoa(t.k))
		panic("boom")
	case "block":
		tm := time.NewTimer(2 * time.Millisecond)
		select {
		case <-t.rel:
		case <-ctx.Done():
		case <-tm.C:
		}
		tm.Stop()
	}
	t.log.Note("tend " + strconv.Itoa(t.k))
	return nil
}

type poolScen struct {
	mu      sync.Mutex
	blocked []*evTask
}

func (s *poolScen) add(t *evTask) {
	s.mu.Lock()
	s.blocked = append(s.blocked, t)
	s.mu.Unlock()
}

// release one (or all) of the blocking tasks submitted so far
func (s *poolScen) release(all bool) {
	s.mu.Lock()
	for len(s.blocked) > 0 {
		t := s.blocked[0]
		s.blocked = s.blocked[1:]
		close(t.rel)
		if !all {
			break
		}
	}
	s.mu.Unlock()
}

func poolCtx(r *vlib.Rng) (context.Context, context.CancelFunc, string) {
	ctx := context.Background()
	switch p := r.Intn(100); {
	case p < 8:
		c, cancel := context.WithCancel(ctx)
		cancel()
		return c, cancel, "pre"
	case p < 45:
		c, cancel := context.WithTimeout(ctx, time.Duration(5+r.Intn(80))*time.Microsecond)
		return c, cancel, "soon"
	}
	c, cancel := context.WithTimeout(ctx, time.Duration(100+r.Intn(300))*time.Microsecond)
	return c, cancel, "to"
}

// what ShutdownNow hands back are the library's wrappers around the submitted tasks: a returned task is
// identified by running it with a marked context (the harness task then only reports its key, no event).
type probeKey struct{}

func taskKeys(ts []pool.Task) string {
	ks := make([]int, 0, len(ts))
	for _, t := range ts {
		k := -1
		_ = t.Run(context.WithValue(context.Background(), probeKey{}, &k))
		ks = append(ks, k)
	}
	return ints(ks)
}

func poolCall(p *pool.OnDemandBlockTaskPool, sc *poolScen, log evlog, r *vlib.Rng, t, i int, kind string) {
	switch kind {
	case "submit":
		ctx, cancel, ck := poolCtx(r)
		beh := "ret"
		switch q := r.Intn(100); {
		case q < 10:
			beh = "panic"
		case q < 28:
			beh = "block"
		}
		k := (t+1)*1000 + i
		task := &evTask{k: k, beh: beh, rel: make(chan struct{}), log: log}
		if beh == "block" {
			sc.add(task)
		}
		log.Note(fmt.Sprintf("inv submit %d %s %s", k, ck, beh))
		err := p.Submit(ctx, task)
		log.Note("res " + pool.VerifErrKind(err))
		cancel()
	case "submitnil":
		log.Note("inv submitnil")
		err := p.Submit(context.Background(), nil)
		log.Note("res " + pool.VerifErrKind(err))
	case "start":
		log.Note("inv start")
		err := p.Start()
		log.Note("res " + pool.VerifErrKind(err))
	case "shutdown":
		log.Note("inv shutdown")
		_, err := p.Shutdown()
		log.Note("res " + pool.VerifErrKind(err))
	case "shutdownnow":
		log.Note("inv shutdownnow")
		ts, err := p.ShutdownNow()
		if err == nil {
			log.Note("res ok " + taskKeys(ts))
		} else {
			log.Note("res " + pool.VerifErrKind(err))
		}
	case "release":
		sc.release(false)
	case "pause":
		time.Sleep(time.Duration(10+r.Intn(200)) * time.Microsecond)
	}
}

func runPool(w []string, seed uint64, log evlog) {
	// the number of goroutines before the scenario (minimum of a few samples: a context timer of the previous
	// scenario may just be running its callback goroutine)
	base := runtime.NumGoroutine()
	for i := 0; i < 2; i++ {
		time.Sleep(20 * time.Microsecond)
		if n := runtime.NumGoroutine(); n < base {
			base = n
		}
	}
	g, calls := kv(w, "g"), kv(w, "calls")
	p, err := pool.NewOnDemandBlockTaskPool(kv(w, "init"), kv(w, "q"),
		pool.WithCoreGo(int32(kv(w, "core"))), pool.WithMaxGo(int32(kv(w, "max"))),
		pool.WithQueueBacklogRate(float64(kv(w, "rate"))/1000),
		pool.WithMaxIdleTime(time.Duration(kv(w, "idle"))*time.Microsecond))
	if err != nil {
		panic("constructor: " + pool.VerifErrKind(err))
	}
	log.Tid(g) // the harness's own goroutine is caller g
	sc := &poolScen{}
	early := kv(w, "early") // percentage: thread 0 begins with Start
	var wg sync.WaitGroup
	start := make(chan struct{})
	for t := 0; t < g; t++ {
		wg.Add(1)
		go func(t int) {
			defer wg.Done()
			log.Tid(t)
			r := vlib.NewRng(seed*7919 + uint64(t))
			<-start
			for i := 0; i < calls; i++ {
				kind := "submit"
				switch q := r.Intn(100); {
				case i == 0 && t == 0 && r.Intn(100) < early:
					kind = "start"
				case q < 56:
					kind = "submit"
				case q < 58:
					kind = "submitnil"
				case q < 68:
					kind = "start"
				case q < 75:
					kind = "shutdown"
				case q < 80:
					kind = "shutdownnow"
				case q < 88:
					kind = "release"
				default:
					kind = "pause"
				}
				poolCall(p, sc, log, r, t, i, kind)
			}
		}(t)
	}
	close(start)
	wg.Wait()
	// wind down: every task may end, the pool is started if it never was, stopped at once if it still runs
	r := vlib.NewRng(seed*104729 + 17)
	sc.release(true)
	poolCall(p, sc, log, r, g, 0, "start")
	poolCall(p, sc, log, r, g, 1, "shutdownnow")
	deadline := time.Now().Add(2 * time.Second)
	for {
		n := p.VerifEvTotalGo()
		if n <= 0 && runtime.NumGoroutine() <= base {
			break
		}
		if time.Now().After(deadline) {
			panic(fmt.Sprintf("workers still alive after the scenario: totalGo=%d goroutines=%d (base %d)", n, runtime.NumGoroutine(), base))
		}
		time.Sleep(50 * time.Microsecond)
	}
}

func genPool(r *vlib.Rng) string {
	init := vlib.Pick(r, []int{1, 1, 1, 2, 2, 3})
	core := init + vlib.Pick(r, []int{0, 0, 1, 1, 2})
	max := core + vlib.Pick(r, []int{0, 1, 1, 2, 3})
	q := vlib.Pick(r, []int{1, 1, 2, 2, 3, 4, 6})
	rate := vlib.Pick(r, []int{0, 0, 250, 333, 500, 500, 667, 1000})
	idle := vlib.Pick(r, []int{30, 80, 150, 300, 1000, 20000})
	return fmt.Sprintf("init=%d core=%d max=%d q=%d rate=%d idle=%d g=%d calls=%d early=%d", init, core, max, q, rate, idle,
		vlib.Pick(r, []int{1, 2, 2, 3, 3, 4}), vlib.Pick(r, []int{3, 4, 5, 6, 8}), vlib.Pick(r, []int{0, 50, 80, 100}))
}

func init() {
	register(&target{name: "pool", log: poolLog, gen: genPool,
		corpus: []string{
			// fixed size; growth up to max by backlog; above-core exits and idle timers; created-state submits then Start
			"new evt pool init=1 core=1 max=1 q=2 rate=0 idle=20000 g=2 calls=5 early=100 seed=11",
			"new evt pool init=1 core=2 max=4 q=2 rate=500 idle=60 g=3 calls=6 early=100 seed=12",
			"new evt pool init=2 core=2 max=5 q=4 rate=250 idle=100 g=4 calls=6 early=80 seed=13",
			"new evt pool init=1 core=3 max=3 q=3 rate=333 idle=40 g=3 calls=8 early=100 seed=14",
			"new evt pool init=2 core=3 max=4 q=6 rate=0 idle=150 g=3 calls=6 early=0 seed=15",
			"new evt pool init=1 core=1 max=3 q=1 rate=1000 idle=30 g=4 calls=8 early=100 seed=16",
		},
		run: runPool})
}
