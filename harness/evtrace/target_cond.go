package main

// target cond: syncx.Cond (model Ekit.Cond, replayer lean/Driver/Ev/Cond.lean)
//
// A scenario: g goroutines share one Cond whose Locker L is a plain *sync.Mutex (Wait's own c.L.Unlock() /
// deferred c.L.Lock() are logged by the instrumented cond.go; the CLIENT's L.Lock()/L.Unlock() are
// bracketed here: "res locked" is written right after L.Lock() returned (an acquisition: late is legal) and
// "inv unlock" right BEFORE L.Unlock() (a release: nobody can acquire L between the note and the real
// unlock, so the noted order is a legal order).  Every goroutine performs `calls` random operations:
//
//	wait      lock L; 1–2 × Wait(ctx) with ctx already cancelled ("pre") / expiring after 1–60µs ("soon")
//	          / after 0.3–2ms ("to"); unlock L.  Every context can also be cancelled by another goroutine.
//	signal    Signal, with or without holding L, optionally right after / right before cancelling the context
//	          of some other goroutine's current Wait (this is what makes the expiry race the channel send: the
//	          victim's outer select sees both arms ready, and when it takes ctx.Done() while the notifier gets
//	          mu first the inner select finds the token and hands it on — or drops it on an empty list)
//	broadcast the same with Broadcast
//
// GC is off during a scenario so that sync.Pool keeps the freed nodes (recycled nodes are then the rule).

import (
	"context"
	"fmt"
	"runtime"
	"runtime/debug"
	"sync"
	"time"

	"github.com/ecodeclub/ekit/syncx"
	"github.com/ecodeclub/ekit/zzverif/vlib"
)

var condLog = evlog{syncx.VerifEvInstrumented, syncx.VerifEvStart, syncx.VerifEvStop, syncx.VerifEvTid, syncx.VerifEvNote}

func condCtx(r *vlib.Rng, long int) (context.Context, context.CancelFunc, string) {
	ctx := context.Background()
	switch p := r.Intn(100); {
	case p < 10:
		c, cancel := context.WithCancel(ctx)
		cancel()
		return c, cancel, "pre"
	case p < 35:
		c, cancel := context.WithTimeout(ctx, time.Duration(1+r.Intn(60))*time.Microsecond)
		return c, cancel, "soon"
	}
	c, cancel := context.WithTimeout(ctx, time.Duration(300+r.Intn(long))*time.Microsecond)
	return c, cancel, "to"
}

func runCond(g, calls, pw, long int, seed uint64, log evlog) {
	old := debug.SetGCPercent(-1)
	defer debug.SetGCPercent(old)
	L := &sync.Mutex{}
	c := syncx.NewCond(L)
	var hm sync.Mutex // harness-only: guards cancels
	cancels := make([]context.CancelFunc, g)
	var wg sync.WaitGroup
	start := make(chan struct{})
	for t := 0; t < g; t++ {
		wg.Add(1)
		go func(t int) {
			defer wg.Done()
			log.Tid(t)
			r := vlib.NewRng(seed*7919 + uint64(t))
			holding := false
			lock := func() {
				log.Note("inv lock")
				L.Lock()
				holding = true
				log.Note("res locked")
			}
			unlock := func() {
				log.Note("inv unlock")
				holding = false
				L.Unlock()
				log.Note("res unlocked")
			}
			// a Go panic inside the code under test ends this goroutine's script (noted as the call's result, which
			// no model call has); L is given back so that the other goroutines still finish
			defer func() {
				if e := recover(); e != nil {
					log.Note("res panic")
					if holding {
						L.Unlock()
					}
				}
			}()
			cancelOther := func() {
				if g < 2 {
					return
				}
				v := r.Intn(g - 1)
				if v >= t {
					v++
				}
				hm.Lock()
				f := cancels[v]
				hm.Unlock()
				if f != nil {
					f()
				}
			}
			pause := func() {
				switch p := r.Intn(100); {
				case p < 30:
					runtime.Gosched()
				case p < 45:
					for i, n := 0, r.Intn(400); i < n; i++ {
						_ = i
					}
				case p < 50:
					time.Sleep(time.Duration(1+r.Intn(200)) * time.Microsecond)
				}
			}
			<-start
			for i := 0; i < calls; i++ {
				pause()
				p := r.Intn(100)
				if p < pw {
					lock()
					for n := 1 + r.Intn(2); n > 0; n-- {
						ctx, cancel, kind := condCtx(r, long)
						hm.Lock()
						cancels[t] = cancel
						hm.Unlock()
						log.Note("inv wait " + kind)
						err := c.Wait(ctx)
						if err == nil {
							log.Note("res nil")
						} else {
							log.Note("res " + errTok(err))
						}
						hm.Lock()
						cancels[t] = nil
						hm.Unlock()
						cancel()
					}
					unlock()
					continue
				}
				withL := r.Chance(35)
				race := r.Intn(4) // 0,1: none; 2: cancel a waiter, then notify; 3: notify, then cancel a waiter
				if withL {
					lock()
				}
				if race == 2 {
					cancelOther()
				}
				if p < pw+(100-pw)*2/3 {
					log.Note("inv signal")
					c.Signal()
					log.Note("res unit")
				} else {
					log.Note("inv broadcast")
					c.Broadcast()
					log.Note("res unit")
				}
				if race == 3 {
					cancelOther()
				}
				if withL {
					unlock()
				}
			}
		}(t)
	}
	close(start)
	done := make(chan struct{})
	go func() { wg.Wait(); close(done) }()
	select {
	case <-done:
	case <-time.After(3 * time.Second):
		// every Wait carries a deadline: a scenario that does not end is a hang of the code under test
		panic("hang: the scenario did not end within 3s")
	}
}

func genCond(r *vlib.Rng) string {
	return fmt.Sprintf("g=%d calls=%d pw=%d long=%d", vlib.Pick(r, []int{2, 2, 3, 3, 4, 5}), vlib.Pick(r, []int{2, 3, 4, 6}),
		vlib.Pick(r, []int{35, 50, 50, 65}), vlib.Pick(r, []int{200, 700, 1700}))
}

func init() {
	register(&target{name: "cond", log: condLog, gen: genCond,
		corpus: []string{
			"new evt cond g=2 calls=4 pw=50 long=700 seed=11",  // one waiter, one notifier
			"new evt cond g=3 calls=6 pw=65 long=1700 seed=12", // waiters queue up: hand-off has a next waiter
			"new evt cond g=5 calls=4 pw=50 long=200 seed=13",  // many short waits: recycled nodes, expiry races
			"new evt cond g=4 calls=6 pw=35 long=700 seed=14",  // notifier-heavy: Signals on an empty list, Broadcasts
			"new evt cond g=1 calls=3 pw=100 long=200 seed=15", // a lone waiter: every Wait ends by its context
		},
		run: func(w []string, seed uint64, log evlog) {
			long := kv(w, "long")
			if long < 1 {
				long = 1
			}
			runCond(kv(w, "g"), kv(w, "calls"), kv(w, "pw"), long, seed, log)
		}})
}
