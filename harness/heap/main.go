// Correspondence harness for C05 (priority queue): drives internal/queue.PriorityQueue and the
// public queue.PriorityQueue wrapper and writes one "op => observation" line per call, with a
// white-box dump of the heap array (slot 0 included) and its capacity.
//
//	heap -mode gen -tier quick|thorough -out ops.txt     (seed from VERIF_SEED)
//	heap -mode run -ops ops.txt -out trace.txt -stats stats.json
package main

import (
	"encoding/json"
	"errors"
	"flag"
	"fmt"
	"math"
	"os"
	"strconv"
	"strings"

	iq "github.com/ecodeclub/ekit/internal/queue"
	"github.com/ecodeclub/ekit/queue"
	"github.com/ecodeclub/ekit/zzverif/vlib"
)

var capacities = []int{1, 2, 3, 8, 64, 65, 100, 0, 0, -1, -7}
var cmps = []string{"nat", "nat", "div3", "div3", "rev", "diff"}

// extreme elements (never under "diff": a-b must not overflow)
var extremes = []int{math.MaxInt, math.MinInt, math.MaxInt - 1, math.MinInt + 1}
var kinds = []string{"pq", "pq", "pqpub"}

func cmpOf(name string) func(a, b int) int {
	nat := func(a, b int) int {
		if a < b {
			return -1
		} else if a == b {
			return 0
		}
		return 1
	}
	switch name {
	case "nat":
		return nat
	case "div3":
		return func(a, b int) int { return nat(a/3, b/3) }
	case "rev":
		return func(a, b int) int { return nat(b, a) }
	case "diff":
		// results of any magnitude (not only -1/0/1): only the sign may matter
		return func(a, b int) int { return a - b }
	}
	panic("cmp " + name)
}

func gen(tier string, out *vlib.Out) {
	r := vlib.NewRng(vlib.Seed())
	cases := 700
	if tier == "thorough" {
		cases = 5000
	}
	corpus := []string{
		// boundaries of a bounded queue
		"new pq nat 1\npeek\ndeq\nenq 5\nenq 4\npeek\nlen\ncap\nboundless\ndeq\ndeq\nenq 7\npeek",
		"new pq nat 3\nenq 3\nenq 2\nenq 1\nenq 0\nlen\ndeq\nenq 0\ndeq\ndeq\ndeq\ndeq\nlen",
		"new pqpub div3 2\nenq 4\nenq 3\nenq 5\npeek\ndeq\ndeq\ndeq",
		// constructor's capacity rule
		"new pq nat 0\ncap\nboundless\nlen\npeek\ndeq",
		"new pq nat -3\ncap\nboundless\nenq 1\ndeq\ndeq",
		// ties: sift-down must pick the smaller child, left on ties
		"new pq div3 0\nenq 9\nenq 3\nenq 4\nenq 5\nenq 0\nenq 1\nenq 2\ndeq\ndeq\ndeq\ndeq\ndeq\ndeq\ndeq\ndeq",
		"new pq nat 8\nenq 5\nenq 5\nenq 5\nenq 1\nenq 1\nenq 9\ndeq\ndeq\ndeq\ndeq\ndeq\ndeq\ndeq",
		"new pq rev 8\nenq 1\nenq 2\nenq 3\nenq 4\nenq 5\nenq 6\nenq 7\ndeq\ndeq\ndeq\npeek\ndeq\ndeq\ndeq\ndeq",
		// comparator results other than -1/0/1 (`return a - b`), sift-up and both sift-down branches
		"new pq diff 0\nenq 50\nenq 40\nenq 30\nenq 20\nenq 10\nenq 0\nenq -10\npeek\ndeq\ndeq\ndeq\ndeq\ndeq\ndeq\ndeq\ndeq",
		"new pqpub diff 4\nenq 7\nenq 0\nenq 7\nenq -3\nenq 1\ndeq\ndeq\ndeq\ndeq\ndeq",
		// zero-valued and extreme elements (slot 0 of the array holds the zero value too)
		"new pq nat 0\nenq 0\npeek\nlen\ndeq\nlen\nenq 0\nenq 0\nenq -1\ndeq\ndeq\ndeq\ndeq",
		"new pq nat 0\nenq 9223372036854775807\nenq -9223372036854775808\nenq 0\nenq -1\nenq 9223372036854775807\nenq 1\npeek\ndeq\ndeq\ndeq\ndeq\ndeq\ndeq\ndeq",
		"new pq rev 3\nenq -9223372036854775808\nenq 9223372036854775807\nenq 0\nenq 5\ndeq\ndeq\ndeq\ndeq",
		"new pq div3 0\nenq -9223372036854775808\nenq -9223372036854775807\nenq 9223372036854775807\nenq 9223372036854775805\nenq 0\nenq -2\nenq 2\ndeq\ndeq\ndeq\ndeq\ndeq\ndeq\ndeq",
	}
	for _, c := range corpus {
		for _, l := range strings.Split(c, "\n") {
			out.Line("%s", l)
		}
	}
	// growth beyond 64 then a full drain: every shrink threshold of an unbounded queue
	big := func(kind, cmp string, capacity, n, span int, rr *vlib.Rng) {
		out.Line("new %s %s %d", kind, cmp, capacity)
		for i := 0; i < n; i++ {
			out.Line("enq %d", rr.Range(-span, span))
		}
		out.Line("len")
		for i := 0; i < n+2; i++ {
			out.Line("deq")
		}
		for i := 0; i < 5; i++ {
			out.Line("enq %d", rr.Range(-span, span))
		}
		out.Line("deq")
	}
	big("pq", "nat", 0, 200, 50, r.Fork())
	big("pq", "div3", -1, 131, 20, r.Fork())
	big("pqpub", "nat", 0, 70, 1000, r.Fork())
	big("pq", "nat", 100, 101, 30, r.Fork())
	big("pq", "diff", 0, 90, 40, r.Fork())
	big("pq", "nat", 0, 2100, 5000, r.Fork())
	if tier == "thorough" {
		big("pq", "div3", 0, 2600, 100, r.Fork())
		big("pq", "rev", 0, 4200, 100000, r.Fork())
	}
	for c := 0; c < cases; c++ {
		kind := vlib.Pick(r, kinds)
		cmp := vlib.Pick(r, cmps)
		capacity := vlib.Pick(r, capacities)
		span := vlib.Pick(r, []int{1, 4, 12, 40, 1000})
		out.Line("new %s %s %d", kind, cmp, capacity)
		n := 0
		limit := capacity
		if limit <= 0 {
			limit = 1 << 30
		}
		enq := func() {
			if cmp != "diff" && r.Chance(2) {
				out.Line("enq %d", vlib.Pick(r, extremes))
			} else {
				out.Line("enq %d", r.Range(-span, span))
			}
			if n < limit {
				n++
			}
		}
		deq := func() {
			out.Line("deq")
			if n > 0 {
				n--
			}
		}
		phases := []string{"fill", "churn", "drain", "refill", "churn", "drain"}
		if r.Chance(25) {
			phases = []string{"churn"}
		}
		if r.Chance(12) && capacity <= 0 {
			phases = []string{"bigfill", "churn", "drain", "refill"}
		}
		for _, ph := range phases {
			steps := r.Range(3, 30)
			switch ph {
			case "drain":
				steps = n + 2
			case "bigfill":
				steps = vlib.Pick(r, []int{66, 130, 200})
			case "fill":
				if capacity > 0 && r.Chance(60) {
					steps = capacity + 2
				}
			}
			for s := 0; s < steps; s++ {
				pick := r.Intn(100)
				switch ph {
				case "fill", "refill", "bigfill":
					if pick < 85 {
						enq()
					} else if pick < 92 {
						out.Line("peek")
					} else {
						out.Line("len")
					}
				case "drain":
					if pick < 90 {
						deq()
					} else {
						out.Line("peek")
					}
				default:
					switch {
					case pick < 40:
						enq()
					case pick < 75:
						deq()
					case pick < 88:
						out.Line("peek")
					case pick < 94:
						out.Line("len")
					case pick < 97:
						out.Line("cap")
					default:
						out.Line("boundless")
					}
				}
			}
		}
	}
}

type stats struct {
	Ops      map[string]int `json:"ops"`
	Results  map[string]int `json:"results"`
	Kinds    map[string]int `json:"kinds"`
	Cmps     map[string]int `json:"comparators"`
	MaxLen   int            `json:"max_len"`
	MaxCap   int            `json:"max_slice_cap"`
	Shrinks  int            `json:"shrinks"`
	Growths  int            `json:"growths"`
	TieDeqs  int            `json:"dequeues_with_tied_minimum"`
	Cases    int            `json:"cases"`
	Lines    int            `json:"lines"`
	Distinct int            `json:"distinct_state_op_pairs"`
}

// pq is the common surface of the internal queue and the public wrapper
type pq struct {
	in  *iq.PriorityQueue[int]
	pub *queue.PriorityQueue[int]
}

func (p *pq) Enqueue(t int) error {
	if p.pub != nil {
		return p.pub.Enqueue(t)
	}
	return p.in.Enqueue(t)
}
func (p *pq) Dequeue() (int, error) {
	if p.pub != nil {
		return p.pub.Dequeue()
	}
	return p.in.Dequeue()
}
func (p *pq) Peek() (int, error) {
	if p.pub != nil {
		return p.pub.Peek()
	}
	return p.in.Peek()
}
func (p *pq) Len() int {
	if p.pub != nil {
		return p.pub.Len()
	}
	return p.in.Len()
}

// white-box view; ok=false when the hooks are the black-box stubs (or the wrapped queue is hidden)
func wb(p *pq) (data []int, sliceCap int, ok bool) {
	if p.in == nil {
		return nil, -1, false
	}
	data, sliceCap = p.in.VerifData(), p.in.VerifSliceCap()
	return data, sliceCap, data != nil && sliceCap >= 0
}

func state(p *pq) string {
	d, c, ok := wb(p)
	if !ok {
		return fmt.Sprintf("len=%d wb=na", p.Len())
	}
	if len(d) > 128 {
		return fmt.Sprintf("len=%d cap=%d dh=%d", p.Len(), c, vlib.Hash(d))
	}
	return fmt.Sprintf("len=%d cap=%d data=%s", p.Len(), c, vlib.Ints(d))
}

func qerr(err error) string {
	switch {
	case err == nil:
		return "ok"
	case errors.Is(err, iq.ErrOutOfCapacity):
		return "err:cap"
	case errors.Is(err, iq.ErrEmptyQueue):
		return "err:empty"
	}
	return "err:other"
}

func okv(v int, err error) string {
	if err != nil {
		return qerr(err)
	}
	return "ok:" + strconv.Itoa(v)
}

func run(ops []string, out *vlib.Out, st *stats) {
	var p *pq
	var cmp func(a, b int) int
	seen := map[string]struct{}{}
	for _, line := range ops {
		w := strings.Fields(line)
		st.Ops[w[0]]++
		st.Lines++
		if w[0] == "new" {
			st.Cases++
			st.Kinds[w[1]]++
			st.Cmps[w[2]]++
			perr := vlib.Catch(func() {
				capacity, _ := strconv.Atoi(w[3])
				cmp = cmpOf(w[2])
				p = &pq{}
				if w[1] == "pqpub" {
					p.pub = queue.NewPriorityQueue[int](capacity, cmp)
					p.in = p.pub.VerifInner()
				} else {
					p.in = iq.NewPriorityQueue[int](capacity, cmp)
				}
			})
			if perr != "" {
				p = nil
				out.Line("%s => %s", line, perr)
				continue
			}
			capacity := "na"
			if p.in != nil {
				capacity = strconv.Itoa(p.in.Cap())
			}
			out.Line("%s => ok capacity=%s %s", line, capacity, state(p))
			continue
		}
		if p == nil {
			out.Line("%s => no-container", line)
			continue
		}
		before := state(p)
		_, capBefore, _ := wb(p)
		var res string
		perr := vlib.Catch(func() {
			switch w[0] {
			case "enq":
				t, _ := strconv.Atoi(w[1])
				res = qerr(p.Enqueue(t))
			case "deq":
				d, _, _ := wb(p)
				tied := len(d) > 2 && ((len(d) > 2 && cmp(d[1], d[2]) == 0) || (len(d) > 3 && cmp(d[1], d[3]) == 0))
				v, err := p.Dequeue()
				res = okv(v, err)
				if err == nil && tied {
					st.TieDeqs++
				}
			case "peek":
				res = okv(p.Peek())
			case "len":
				res = "ok:" + strconv.Itoa(p.Len())
			case "cap":
				if p.in == nil {
					res = "na" // not reachable through the public wrapper
				} else {
					res = "ok:" + strconv.Itoa(p.in.Cap())
				}
			case "boundless":
				if p.in == nil {
					res = "na"
				} else {
					res = "ok:" + strconv.FormatBool(p.in.IsBoundless())
				}
			default:
				panic("op " + w[0])
			}
		})
		if perr != "" {
			res = perr
		}
		after := state(p)
		_, c, _ := wb(p)
		if c < capBefore {
			st.Shrinks++
		} else if c > capBefore {
			st.Growths++
		}
		if p.Len() > st.MaxLen {
			st.MaxLen = p.Len()
		}
		if c > st.MaxCap {
			st.MaxCap = c
		}
		rk := res
		if i := strings.IndexByte(rk, ':'); i > 0 && !strings.HasPrefix(rk, "err") {
			rk = rk[:i]
		}
		st.Results[w[0]+"/"+rk]++
		if before != after || strings.HasPrefix(res, "err") || strings.HasPrefix(res, "panic") {
			seen[before+"|"+line] = struct{}{}
		}
		out.Line("%s => %s %s", line, res, after)
	}
	st.Distinct = len(seen)
}

func main() {
	mode := flag.String("mode", "gen", "gen|run")
	tier := flag.String("tier", "quick", "quick|thorough")
	opsF := flag.String("ops", "", "ops file (run mode)")
	outF := flag.String("out", "", "output file")
	statsF := flag.String("stats", "", "stats json (run mode)")
	flag.Parse()
	out := vlib.Create(*outF)
	defer out.Close()
	switch *mode {
	case "gen":
		gen(*tier, out)
	case "run":
		st := &stats{Ops: map[string]int{}, Results: map[string]int{}, Kinds: map[string]int{}, Cmps: map[string]int{}}
		run(vlib.ReadLines(*opsF), out, st)
		if *statsF != "" {
			b, _ := json.MarshalIndent(st, "", " ")
			os.WriteFile(*statsF, b, 0o644)
		}
	}
}
