// Correspondence harness for C05 (priority queue): drives internal/queue.PriorityQueue and the
// public queue.PriorityQueue wrapper and writes one "op => observation" line per call, with a
// white-box dump of the heap array (slot 0 included) and its capacity.
//
//	heap -mode gen -tier quick|thorough [-deep] -out ops.txt     (seed from VERIF_SEED)
//	heap -mode run -ops ops.txt -out trace.txt -stats stats.json
package main

import (
	"encoding/json"
	"errors"
	"flag"
	"fmt"
	"math"
	"os"
	"strconv"
	"strings"

	iq "github.com/ecodeclub/ekit/internal/queue"
	"github.com/ecodeclub/ekit/queue"
	"github.com/ecodeclub/ekit/zzverif/vlib"
)

var capacities = []int{1, 2, 3, 8, 64, 65, 100, 0, 0, -1, -7}
var cmps = []string{"nat", "nat", "div3", "div3", "rev", "diff"}

// extreme elements (never under "diff": a-b must not overflow)
var extremes = []int{math.MaxInt, math.MinInt, math.MaxInt - 1, math.MinInt + 1}
var kinds = []string{"pq", "pq", "pqpub"}

func cmpOf(name string) func(a, b int) int {
	nat := func(a, b int) int {
		if a < b {
			return -1
		} else if a == b {
			return 0
		}
		return 1
	}
	switch name {
	case "nat":
		return nat
	case "div3":
		return func(a, b int) int { return nat(a/3, b/3) }
	case "rev":
		return func(a, b int) int { return nat(b, a) }
	case "diff":
		// results of any magnitude (not only -1/0/1): only the sign may matter
		return func(a, b int) int { return a - b }
	}
	panic("cmp " + name)
}

// Capacities far above the small ones of the random cases. The property is stated for EVERY capacity
// ("full exactly when it holds capacity elements", "Cap() is the value given to the constructor"), while
// code that treats large capacities differently (allocation caps, thresholds, narrow index arithmetic)
// only shows beyond its threshold: the capacity domain has to span several orders of magnitude, and a
// bounded queue has to be filled all the way to such a capacity.

// boundaryCap draws a capacity from [lo, hi]: mostly powers of two and their neighbours (where
// thresholds and growth steps of allocators live), otherwise anywhere in the range.
func boundaryCap(r *vlib.Rng, lo, hi int) int {
	var fam []int
	for k := 1; k < 62; k++ {
		for _, d := range []int{-1, 0, 1} {
			if c := 1<<k + d; c >= lo && c <= hi {
				fam = append(fam, c)
			}
		}
	}
	if len(fam) > 0 && r.Chance(60) {
		return vlib.Pick(r, fam)
	}
	return r.Range(lo, hi)
}

// capProbe: a queue of a (possibly huge) capacity is created and touched only lightly: constructor
// observations (Cap, IsBoundless, white-box slice capacity), a handful of elements in and out.
func capProbe(out *vlib.Out, r *vlib.Rng, kind, cmp string, capacity int) {
	out.Line("new %s %s %d", kind, cmp, capacity)
	for _, l := range []string{"cap", "boundless", "len", "peek", "deq"} {
		out.Line("%s", l)
	}
	n := r.Range(2, 9)
	for i := 0; i < n; i++ {
		out.Line("enq %d", r.Range(-4, 4))
	}
	for _, l := range []string{"len", "cap", "boundless", "peek"} {
		out.Line("%s", l)
	}
	for i := 0; i < n+1; i++ {
		out.Line("deq")
	}
	out.Line("enq %d", r.Range(-4, 4))
	out.Line("len")
}

// deepFill: a bounded queue is filled to its capacity and beyond (every Enqueue up to the capacity
// must succeed, the ones after it must fail and change nothing), a few slots are freed and taken
// again (full once more exactly at the capacity), then `drain` elements are taken out (<0: all of
// them and two more).
func deepFill(out *vlib.Out, r *vlib.Rng, kind, cmp string, capacity, span, drain int) {
	out.Line("new %s %s %d", kind, cmp, capacity)
	out.Line("cap")
	every := r.Range(300, 700)
	for i := 0; i < capacity+2; i++ {
		out.Line("enq %d", r.Range(-span, span))
		if i%every == every-1 {
			out.Line("%s", vlib.Pick(r, []string{"len", "peek", "len", "cap"}))
		}
	}
	out.Line("len")
	k := r.Range(1, 4)
	for i := 0; i < k; i++ {
		out.Line("deq")
	}
	for i := 0; i < k+1; i++ {
		out.Line("enq %d", r.Range(-span, span))
	}
	out.Line("len")
	if drain < 0 {
		drain = capacity + 2
	}
	for i := 0; i < drain; i++ {
		out.Line("deq")
		if i%every == every-1 {
			out.Line("%s", vlib.Pick(r, []string{"len", "peek"}))
		}
	}
	out.Line("enq %d", r.Range(-span, span))
	out.Line("peek")
}

// genDeep is the search family used when the white-box correspondence broke but every call of the
// ordinary run was acceptable to the specification (see checklib/props/C05.py): much larger queues than the
// ordinary run can afford to replay on the list-based model, judged by the specification only.
func genDeep(out *vlib.Out, r *vlib.Rng) {
	// every element of a deep heap is taken out again: unbounded (growth and every shrink) and bounded
	out.Line("new pq nat 0")
	for i := 0; i < 9000; i++ {
		out.Line("enq %d", r.Range(-100000, 100000))
	}
	for i := 0; i < 9002; i++ {
		out.Line("deq")
	}
	deepFill(out, r.Fork(), "pq", "nat", r.Range(6000, 7000), 100000, -1)
	deepFill(out, r.Fork(), "pqpub", "div3", boundaryCap(r, 4000, 8200), 3000, -1)
	// capacity ladder, filled to the brim
	for k := 13; k <= 16; k++ {
		deepFill(out, r.Fork(), "pq", vlib.Pick(r, []string{"nat", "rev", "div3"}), 1<<k+r.Range(1, 1<<(k-4)), 1<<k, 50)
	}
}

func gen(tier string, deep bool, out *vlib.Out) {
	r := vlib.NewRng(vlib.Seed())
	if deep {
		genDeep(out, r)
		return
	}
	cases := 700
	if tier == "thorough" {
		cases = 5000
	}
	corpus := []string{
		// boundaries of a bounded queue
		"new pq nat 1\npeek\ndeq\nenq 5\nenq 4\npeek\nlen\ncap\nboundless\ndeq\ndeq\nenq 7\npeek",
		"new pq nat 3\nenq 3\nenq 2\nenq 1\nenq 0\nlen\ndeq\nenq 0\ndeq\ndeq\ndeq\ndeq\nlen",
		"new pqpub div3 2\nenq 4\nenq 3\nenq 5\npeek\ndeq\ndeq\ndeq",
		// constructor's capacity rule
		"new pq nat 0\ncap\nboundless\nlen\npeek\ndeq",
		"new pq nat -3\ncap\nboundless\nenq 1\ndeq\ndeq",
		// ties: sift-down must pick the smaller child, left on ties
		"new pq div3 0\nenq 9\nenq 3\nenq 4\nenq 5\nenq 0\nenq 1\nenq 2\ndeq\ndeq\ndeq\ndeq\ndeq\ndeq\ndeq\ndeq",
		"new pq nat 8\nenq 5\nenq 5\nenq 5\nenq 1\nenq 1\nenq 9\ndeq\ndeq\ndeq\ndeq\ndeq\ndeq\ndeq",
		"new pq rev 8\nenq 1\nenq 2\nenq 3\nenq 4\nenq 5\nenq 6\nenq 7\ndeq\ndeq\ndeq\npeek\ndeq\ndeq\ndeq\ndeq",
		// comparator results other than -1/0/1 (`return a - b`), sift-up and both sift-down branches
		"new pq diff 0\nenq 50\nenq 40\nenq 30\nenq 20\nenq 10\nenq 0\nenq -10\npeek\ndeq\ndeq\ndeq\ndeq\ndeq\ndeq\ndeq\ndeq",
		"new pqpub diff 4\nenq 7\nenq 0\nenq 7\nenq -3\nenq 1\ndeq\ndeq\ndeq\ndeq\ndeq",
		// zero-valued and extreme elements (slot 0 of the array holds the zero value too)
		"new pq nat 0\nenq 0\npeek\nlen\ndeq\nlen\nenq 0\nenq 0\nenq -1\ndeq\ndeq\ndeq\ndeq",
		"new pq nat 0\nenq 9223372036854775807\nenq -9223372036854775808\nenq 0\nenq -1\nenq 9223372036854775807\nenq 1\npeek\ndeq\ndeq\ndeq\ndeq\ndeq\ndeq\ndeq",
		"new pq rev 3\nenq -9223372036854775808\nenq 9223372036854775807\nenq 0\nenq 5\ndeq\ndeq\ndeq\ndeq",
		"new pq div3 0\nenq -9223372036854775808\nenq -9223372036854775807\nenq 9223372036854775807\nenq 9223372036854775805\nenq 0\nenq -2\nenq 2\ndeq\ndeq\ndeq\ndeq\ndeq\ndeq\ndeq",
	}
	for _, c := range corpus {
		for _, l := range strings.Split(c, "\n") {
			out.Line("%s", l)
		}
	}
	// growth beyond 64 then a full drain: every shrink threshold of an unbounded queue
	big := func(kind, cmp string, capacity, n, span int, rr *vlib.Rng) {
		out.Line("new %s %s %d", kind, cmp, capacity)
		for i := 0; i < n; i++ {
			out.Line("enq %d", rr.Range(-span, span))
		}
		out.Line("len")
		for i := 0; i < n+2; i++ {
			out.Line("deq")
		}
		for i := 0; i < 5; i++ {
			out.Line("enq %d", rr.Range(-span, span))
		}
		out.Line("deq")
	}
	big("pq", "nat", 0, 200, 50, r.Fork())
	big("pq", "div3", -1, 131, 20, r.Fork())
	big("pqpub", "nat", 0, 70, 1000, r.Fork())
	big("pq", "nat", 100, 101, 30, r.Fork())
	big("pq", "diff", 0, 90, 40, r.Fork())
	big("pq", "nat", 0, 2100, 5000, r.Fork())
	if tier == "thorough" {
		big("pq", "div3", 0, 2600, 100, r.Fork())
		big("pq", "rev", 0, 4200, 100000, r.Fork())
	}
	// large capacities. Probes: the whole range the constructor can be asked for without exhausting memory
	// (capacity+1 slots are allocated up front); deep fills: as deep as the tier can afford to replay.
	probes := 6
	if tier == "thorough" {
		probes = 40
	}
	bands := []int{101, 1 << 10, 1 << 13, 1 << 16, 1 << 19, 1<<22 + 1} // every run visits every band
	for i := 0; i < probes; i++ {
		b := i % (len(bands) - 1)
		capProbe(out, r.Fork(), vlib.Pick(r, kinds), vlib.Pick(r, cmps), boundaryCap(r, bands[b], bands[b+1]))
	}
	deepFill(out, r.Fork(), vlib.Pick(r, kinds), vlib.Pick(r, cmps), boundaryCap(r, 101, 2100), vlib.Pick(r, []int{4, 40, 1000}), 150)
	deepFill(out, r.Fork(), vlib.Pick(r, kinds), vlib.Pick(r, []string{"nat", "div3", "rev"}), r.Range(4600, 5400), vlib.Pick(r, []int{40, 1000, 100000}), 60)
	if tier == "thorough" {
		deepFill(out, r.Fork(), "pq", "nat", boundaryCap(r, 2000, 4200), 500, -1)
		deepFill(out, r.Fork(), "pqpub", "div3", r.Range(8000, 9000), 1000, -1)
		deepFill(out, r.Fork(), "pq", "rev", boundaryCap(r, 16000, 17000), 1<<20, 200)
	}
	for c := 0; c < cases; c++ {
		kind := vlib.Pick(r, kinds)
		cmp := vlib.Pick(r, cmps)
		capacity := vlib.Pick(r, capacities)
		span := vlib.Pick(r, []int{1, 4, 12, 40, 1000})
		out.Line("new %s %s %d", kind, cmp, capacity)
		n := 0
		limit := capacity
		if limit <= 0 {
			limit = 1 << 30
		}
		enq := func() {
			if cmp != "diff" && r.Chance(2) {
				out.Line("enq %d", vlib.Pick(r, extremes))
			} else {
				out.Line("enq %d", r.Range(-span, span))
			}
			if n < limit {
				n++
			}
		}
		deq := func() {
			out.Line("deq")
			if n > 0 {
				n--
			}
		}
		phases := []string{"fill", "churn", "drain", "refill", "churn", "drain"}
		if r.Chance(25) {
			phases = []string{"churn"}
		}
		if r.Chance(12) && capacity <= 0 {
			phases = []string{"bigfill", "churn", "drain", "refill"}
		}
		for _, ph := range phases {
			steps := r.Range(3, 30)
			switch ph {
			case "drain":
				steps = n + 2
			case "bigfill":
				steps = vlib.Pick(r, []int{66, 130, 200})
			case "fill":
				if capacity > 0 && r.Chance(60) {
					steps = capacity + 2
				}
			}
			for s := 0; s < steps; s++ {
				pick := r.Intn(100)
				switch ph {
				case "fill", "refill", "bigfill":
					if pick < 85 {
						enq()
					} else if pick < 92 {
						out.Line("peek")
					} else {
						out.Line("len")
					}
				case "drain":
					if pick < 90 {
						deq()
					} else {
						out.Line("peek")
					}
				default:
					switch {
					case pick < 40:
						enq()
					case pick < 75:
						deq()
					case pick < 88:
						out.Line("peek")
					case pick < 94:
						out.Line("len")
					case pick < 97:
						out.Line("cap")
					default:
						out.Line("boundless")
					}
				}
			}
		}
	}
}

type stats struct {
	Ops           map[string]int `json:"ops"`
	Results       map[string]int `json:"results"`
	Kinds         map[string]int `json:"kinds"`
	Cmps          map[string]int `json:"comparators"`
	MaxLen        int            `json:"max_len"`
	MaxCap        int            `json:"max_slice_cap"`
	Caps          map[string]int `json:"capacity_magnitudes"`
	MaxCapacity   int            `json:"max_capacity"`
	MaxBoundedLen int            `json:"max_len_of_a_bounded_queue"`
	FullAbove100  int            `json:"err_cap_results_with_capacity_above_100"`
	Shrinks       int            `json:"shrinks"`
	Growths       int            `json:"growths"`
	TieDeqs       int            `json:"dequeues_with_tied_minimum"`
	Cases         int            `json:"cases"`
	Lines         int            `json:"lines"`
	Distinct      int            `json:"distinct_state_op_pairs"`
}

// pq is the common surface of the internal queue and the public wrapper
type pq struct {
	in  *iq.PriorityQueue[int]
	pub *queue.PriorityQueue[int]
}

func (p *pq) Enqueue(t int) error {
	if p.pub != nil {
		return p.pub.Enqueue(t)
	}
	return p.in.Enqueue(t)
}
func (p *pq) Dequeue() (int, error) {
	if p.pub != nil {
		return p.pub.Dequeue()
	}
	return p.in.Dequeue()
}
func (p *pq) Peek() (int, error) {
	if p.pub != nil {
		return p.pub.Peek()
	}
	return p.in.Peek()
}
func (p *pq) Len() int {
	if p.pub != nil {
		return p.pub.Len()
	}
	return p.in.Len()
}

// white-box view; ok=false when the hooks are the black-box stubs (or the wrapped queue is hidden)
func wb(p *pq) (data []int, sliceCap int, ok bool) {
	if p.in == nil {
		return nil, -1, false
	}
	data, sliceCap = p.in.VerifData(), p.in.VerifSliceCap()
	return data, sliceCap, data != nil && sliceCap >= 0
}

func state(p *pq) string {
	d, c, ok := wb(p)
	if !ok {
		return fmt.Sprintf("len=%d wb=na", p.Len())
	}
	if len(d) > 128 {
		return fmt.Sprintf("len=%d cap=%d dh=%d", p.Len(), c, vlib.Hash(d))
	}
	return fmt.Sprintf("len=%d cap=%d data=%s", p.Len(), c, vlib.Ints(d))
}

func qerr(err error) string {
	switch {
	case err == nil:
		return "ok"
	case errors.Is(err, iq.ErrOutOfCapacity):
		return "err:cap"
	case errors.Is(err, iq.ErrEmptyQueue):
		return "err:empty"
	}
	return "err:other"
}

// capBucket: "<=0", "1-9", "10-99", "100-999", ...
func capBucket(c int) string {
	if c <= 0 {
		return "<=0"
	}
	lo := 1
	for lo*10 <= c {
		lo *= 10
	}
	return fmt.Sprintf("%d-%d", lo, lo*10-1)
}

func okv(v int, err error) string {
	if err != nil {
		return qerr(err)
	}
	return "ok:" + strconv.Itoa(v)
}

func run(ops []string, out *vlib.Out, st *stats) {
	var p *pq
	var cmp func(a, b int) int
	curCap := 0
	last := ""
	seen := map[string]struct{}{}
	for _, line := range ops {
		w := strings.Fields(line)
		st.Ops[w[0]]++
		st.Lines++
		if w[0] == "new" {
			st.Cases++
			st.Kinds[w[1]]++
			st.Cmps[w[2]]++
			curCap, _ = strconv.Atoi(w[3])
			st.Caps[capBucket(curCap)]++
			if curCap > st.MaxCapacity {
				st.MaxCapacity = curCap
			}
			perr := vlib.Catch(func() {
				capacity := curCap
				cmp = cmpOf(w[2])
				p = &pq{}
				if w[1] == "pqpub" {
					p.pub = queue.NewPriorityQueue[int](capacity, cmp)
					p.in = p.pub.VerifInner()
				} else {
					p.in = iq.NewPriorityQueue[int](capacity, cmp)
				}
			})
			if perr != "" {
				p = nil
				out.Line("%s => %s", line, perr)
				continue
			}
			capacity := "na"
			if p.in != nil {
				capacity = strconv.Itoa(p.in.Cap())
			}
			last = state(p)
			out.Line("%s => ok capacity=%s %s", line, capacity, last)
			continue
		}
		if p == nil {
			out.Line("%s => no-container", line)
			continue
		}
		before := last // nothing but the ops below touches the queue
		_, capBefore, _ := wb(p)
		var res string
		perr := vlib.Catch(func() {
			switch w[0] {
			case "enq":
				t, _ := strconv.Atoi(w[1])
				res = qerr(p.Enqueue(t))
			case "deq":
				d, _, _ := wb(p)
				tied := len(d) > 2 && ((len(d) > 2 && cmp(d[1], d[2]) == 0) || (len(d) > 3 && cmp(d[1], d[3]) == 0))
				v, err := p.Dequeue()
				res = okv(v, err)
				if err == nil && tied {
					st.TieDeqs++
				}
			case "peek":
				res = okv(p.Peek())
			case "len":
				res = "ok:" + strconv.Itoa(p.Len())
			case "cap":
				if p.in == nil {
					res = "na" // not reachable through the public wrapper
				} else {
					res = "ok:" + strconv.Itoa(p.in.Cap())
				}
			case "boundless":
				if p.in == nil {
					res = "na"
				} else {
					res = "ok:" + strconv.FormatBool(p.in.IsBoundless())
				}
			default:
				panic("op " + w[0])
			}
		})
		if perr != "" {
			res = perr
		}
		after := state(p)
		last = after
		_, c, _ := wb(p)
		if c < capBefore {
			st.Shrinks++
		} else if c > capBefore {
			st.Growths++
		}
		if p.Len() > st.MaxLen {
			st.MaxLen = p.Len()
		}
		if curCap > 0 && p.Len() > st.MaxBoundedLen {
			st.MaxBoundedLen = p.Len()
		}
		if curCap > 100 && res == "err:cap" {
			st.FullAbove100++
		}
		if c > st.MaxCap {
			st.MaxCap = c
		}
		rk := res
		if i := strings.IndexByte(rk, ':'); i > 0 && !strings.HasPrefix(rk, "err") {
			rk = rk[:i]
		}
		st.Results[w[0]+"/"+rk]++
		if before != after || strings.HasPrefix(res, "err") || strings.HasPrefix(res, "panic") {
			seen[before+"|"+line] = struct{}{}
		}
		out.Line("%s => %s %s", line, res, after)
	}
	st.Distinct = len(seen)
}

func main() {
	mode := flag.String("mode", "gen", "gen|run")
	tier := flag.String("tier", "quick", "quick|thorough")
	deep := flag.Bool("deep", false, "gen: only the deep search family (huge queues, for the specification-only search)")
	opsF := flag.String("ops", "", "ops file (run mode)")
	outF := flag.String("out", "", "output file")
	statsF := flag.String("stats", "", "stats json (run mode)")
	flag.Parse()
	out := vlib.Create(*outF)
	defer out.Close()
	switch *mode {
	case "gen":
		gen(*tier, *deep, out)
	case "run":
		st := &stats{Ops: map[string]int{}, Results: map[string]int{}, Kinds: map[string]int{}, Cmps: map[string]int{}, Caps: map[string]int{}}
		run(vlib.ReadLines(*opsF), out, st)
		if *statsF != "" {
			b, _ := json.MarshalIndent(st, "", " ")
			os.WriteFile(*statsF, b, 0o644)
		}
	}
}
