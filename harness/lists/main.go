// Correspondence harness for C04 (lists): drives ArrayList, LinkedList, CopyOnWriteArrayList and
// the ConcurrentList wrapper in-process and writes one "op => observation" line per call.
//
//	lists -mode gen -tier quick|thorough -out ops.txt     (seed from VERIF_SEED)
//	lists -mode run -ops ops.txt -out trace.txt -stats stats.json
package main

import (
	"encoding/json"
	"errors"
	"flag"
	"fmt"
	"math"
	"os"
	"strconv"
	"strings"

	"github.com/ecodeclub/ekit/list"
	"github.com/ecodeclub/ekit/zzverif/vlib"
)

var caps = []int{0, 1, 2, 8, 63, 64, 65, 66, 100, 128, 129, 257, 2048, 2049, 2050, 3000, 5000}
var kinds = []string{"array", "arrayof", "linked", "linkedof", "cow", "cowof", "conc-array", "conc-linked", "conc-cow",
	// the same containers instantiated with an element type that cannot be compared with == and has no useful zero
	// value test (a struct with a slice field): behaviour must not depend on what the elements are
	"box-array", "box-linkedof", "box-cow", "box-cowof", "box-conc-cow", "box-conc-array"}

// box: an uncomparable element type; boxList presents a List[box] as the List[int] the rest of the harness drives
type box struct {
	v int
	u []byte
}

type boxList struct{ l list.List[box] }

func bx(v int) box { return box{v: v, u: []byte{byte(v)}} }
func bxs(vs []int) []box {
	out := make([]box, len(vs))
	for i, v := range vs {
		out[i] = bx(v)
	}
	return out
}
func (b boxList) Get(i int) (int, error) { x, err := b.l.Get(i); return x.v, err }
func (b boxList) Append(ts ...int) error { return b.l.Append(bxs(ts)...) }
func (b boxList) Add(i int, t int) error { return b.l.Add(i, bx(t)) }
func (b boxList) Set(i int, t int) error { return b.l.Set(i, bx(t)) }
func (b boxList) Delete(i int) (int, error) {
	x, err := b.l.Delete(i)
	return x.v, err
}
func (b boxList) Len() int { return b.l.Len() }
func (b boxList) Cap() int { return b.l.Cap() }
func (b boxList) Range(fn func(index int, t int) error) error {
	return b.l.Range(func(i int, t box) error { return fn(i, t.v) })
}
func (b boxList) AsSlice() []int {
	xs := b.l.AsSlice()
	if xs == nil {
		return nil
	}
	out := make([]int, len(xs), cap(xs)) // same length and spare capacity: the aliasing probes keep their meaning
	for i, x := range xs {
		out[i] = x.v
	}
	return out
}

func mkBox(base string, args []string) list.List[box] {
	switch base {
	case "array":
		cp, _ := strconv.Atoi(args[0])
		return list.NewArrayList[box](cp)
	case "arrayof":
		return list.NewArrayListOf[box](bxs(vlib.ParseInts(args[0])))
	case "linked":
		return list.NewLinkedList[box]()
	case "linkedof":
		return list.NewLinkedListOf[box](bxs(vlib.ParseInts(args[0])))
	case "cow":
		return list.NewCopyOnWriteArrayList[box]()
	case "cowof":
		return list.NewCopyOnWriteArrayListOf[box](bxs(vlib.ParseInts(args[0])))
	}
	panic("kind " + base)
}

func gen(tier string, out *vlib.Out) {
	r := vlib.NewRng(vlib.Seed())
	cases := 400
	if tier == "thorough" {
		cases = 6000
	}
	// corpus first: the defects found on the pinned tree, and boundary shapes
	corpus := []string{
		"new arrayof 1,2,3\nadd 7 9\nlen\nadd -1 9\nasslice",
		"new cowof 1,2,3\nadd 7 9\nlen\nadd -1 9\nasslice",
		"new array 100\nappend 1\ndelete 0\nlen\nappend 5\ndelete 0",
		"new array 2049\nappend 1,2\ndelete 0\ndelete 0\nasslice\nappend 3",
		"new conc-array 65\nappend 1\ndelete 0\ndelete 0",
		"new cowof 1,2,3,4\nrangemut 5 1 7",
		"new linked\nget 0\ndelete 0\nadd 1 5\nadd 0 5\nadd 0 6\nadd 2 7\nadd 1 8\nget 3\nget 2\ndelete 3\ndelete 0",
		"new array 0\nasslice\nrange\nget 0\nset 0 1\ndelete 0\ndelete -1",
		// Range must hand the callback's error back and stop; a copy-on-write Range shows the snapshot
		// whatever a re-entrant writer does (Set/Add/Delete anywhere, not only at the end)
		"new arrayof 1,2,3\nrangestop 0\nrangestop 2\nrangestop 3\nrangestop -1",
		"new linkedof 1,2,3\nrangestop 1\nrangestop 2",
		"new cowof 1,2,3\nrangestop 1\nrangedo 1 set 0 9\nrangedo 0 delete 0\nrangedo 1 add 0 5\nrangedo 0 set 2 8\nrangedo 5 set 0 1\nrangedo 0 set 7 1",
		"new conc-array 4\nappend 1,2\nrangestop 0\nrangestop 1",
		"new conc-cow\nappend 1,2\nrangestop 0",
		// AsSlice of an empty list (never filled / emptied again) is non-nil, for every implementation
		"new linked\nasslice\nappend 1\ndelete 0\nasslice",
		"new cow\nasslice\nappend 1\ndelete 0\nasslice",
		"new arrayof 1\ndelete 0\nasslice",
		"new conc-linked\nasslice",
		"new conc-cow\nasslice",
		"new conc-array 0\nasslice",
		// zero-valued elements through every constructor and writer (a zero element is an element)
		"new array 0\nappend 0\nlen\nappend 0,0\nadd 0 0\nadd 4 0\nset 1 0\nget 1\nasslice\nrange\ndelete 0\ndelete 3\nlen\nasslice",
		"new linked\nappend 0\nlen\nappend 0,0\nadd 0 0\nadd 4 0\nset 1 0\nget 1\nasslice\nrange\ndelete 0\ndelete 3\nlen\nasslice",
		"new cow\nappend 0\nlen\nappend 0,0\nadd 0 0\nadd 4 0\nset 1 0\nget 1\nasslice\nrange\ndelete 0\ndelete 3\nlen\nasslice",
		"new arrayof 0,0,5,0\nlen\nasslice\nget 0\nadd 4 0\nadd 0 0\nset 2 0\ndelete 5\nrangestop 1\nasslice",
		"new linkedof 0,0,5,0\nlen\nasslice\nget 0\nadd 4 0\nadd 0 0\nset 2 0\ndelete 5\nrangestop 1\nasslice",
		"new cowof 0,0,5,0\nlen\nasslice\nget 0\nadd 4 0\nadd 0 0\nset 2 0\ndelete 5\nrangedo 1 set 0 0\nasslice",
		"new conc-linked\nappend 0\nadd 1 0\nlen\nasslice",
		// 5 -> 0 -> 5: overwriting with the zero value and back
		"new arrayof 5\nset 0 0\nget 0\nset 0 5\nget 0",
		"new linkedof 5\nset 0 0\nget 0\nset 0 5\nget 0",
		// negative, extreme and repeated elements
		"new linked\nappend -1,-9223372036854775808,9223372036854775807\nadd 1 -5\nset 0 -2\nget 2\ndelete 2\nasslice",
		"new array 2\nappend -1,-9223372036854775808,9223372036854775807\nadd 1 -5\nset 0 -2\nget 2\ndelete 2\nasslice",
		"new cowof 7,7,7\nadd 1 7\ndelete 1\nset 2 7\nappend 7,7\ndelete 0\nasslice",
		"new linkedof 7,7,7\nadd 1 7\ndelete 1\nset 2 7\nappend 7,7\ndelete 0\nasslice",
	}
	for _, c := range corpus {
		for _, l := range strings.Split(c, "\n") {
			out.Line("%s", l)
		}
	}
	growthSweep(out)
	val := 0
	fresh := func() int { val++; return val }
	// mostly fresh positive values (every position identifiable); sometimes the zero value, a negative,
	// a repeat of the latest fresh value or an extreme int. Never -777/-888: the aliasing probe's marks.
	next := func() int {
		switch p := r.Intn(100); {
		case p < 6:
			return 0
		case p < 9:
			return -r.Range(1, 9)
		case p < 12:
			return val
		case p < 13:
			return vlib.Pick(r, []int{math.MaxInt, math.MinInt})
		}
		return fresh()
	}
	if tier == "thorough" {
		exhaustive(out)
	}
	for c := 0; c < cases; c++ {
		kind := vlib.Pick(r, kinds)
		base := strings.TrimPrefix(strings.TrimPrefix(kind, "box-"), "conc-")
		n := 0
		switch {
		case base == "array":
			cp := vlib.Pick(r, caps)
			out.Line("new %s %d", kind, cp)
		case strings.HasSuffix(base, "of"):
			k := vlib.Pick(r, []int{0, 1, 3, 7, 70, 140})
			xs := make([]int, k)
			for i := range xs {
				xs[i] = next()
			}
			out.Line("new %s %s", kind, vlib.Ints(xs))
			n = k
		default:
			out.Line("new %s", kind)
		}
		// A plain copy-on-write list may be called from inside its own Range callback (Range holds no lock).
		// Such re-entrant calls are made in EVERY phase, so that the walk in progress meets every kind of
		// state the list gets into (just grown - whatever spare capacity the runtime left -, just shrunk,
		// drained, refilled) and every writer, alone or several in a row.
		cowRe := (base == "cow" || base == "cowof") && !strings.Contains(kind, "conc-")
		nestedOp := func(m int) (string, int) { // one ordinary call on a list of length m, and the change of length
			idx := func(hi int) int {
				switch r.Intn(5) {
				case 0:
					return 0
				case 1:
					return hi
				}
				return r.Range(-1, hi+1)
			}
			switch p := r.Intn(100); {
			case p < 30:
				i := idx(m)
				if i >= 0 && i <= m {
					return fmt.Sprintf("add %d %d", i, next()), 1
				}
				return fmt.Sprintf("add %d %d", i, next()), 0
			case p < 45:
				return fmt.Sprintf("set %d %d", idx(m-1), next()), 0
			case p < 65:
				i := idx(m - 1)
				if i >= 0 && i < m {
					return fmt.Sprintf("delete %d", i), -1
				}
				return fmt.Sprintf("delete %d", i), 0
			case p < 85:
				k := r.Range(0, 3)
				xs := make([]int, k)
				for i := range xs {
					xs[i] = next()
				}
				return "append " + vlib.Ints(xs), k
			case p < 90:
				return fmt.Sprintf("get %d", idx(m-1)), 0
			case p < 94:
				return "len", 0
			case p < 97:
				return "asslice", 0
			}
			return "range", 0
		}
		// effect: the change of length an ordinary call makes on a list of length m
		effect := func(line string, m int) int {
			w := strings.Fields(line)
			switch w[0] {
			case "add":
				if i, _ := strconv.Atoi(w[1]); i >= 0 && i <= m {
					return 1
				}
			case "delete":
				if i, _ := strconv.Atoi(w[1]); i >= 0 && i < m {
					return -1
				}
			case "append":
				return len(vlib.ParseInts(w[1]))
			}
			return 0
		}
		// reentrant: `rangedo k call ; call…` - the callback makes the calls when it is shown index k.
		// first (if given) is the first of them; keeps n up to date.
		reentrant := func(first string) {
			k := 0 // mostly early in the walk: most of the sequence is still to be shown
			switch r.Intn(4) {
			case 0:
				k = r.Range(0, n) // k == n: the callback never makes the calls
			case 1:
				if n > 0 {
					k = n - 1
				}
			}
			m := n
			calls := []string{}
			more := r.Range(1, 3)
			if first != "" {
				calls = append(calls, first)
				m += effect(first, m)
				if !r.Chance(35) {
					more = 0
				}
			}
			for j := 0; j < more; j++ {
				c, d := nestedOp(m)
				calls = append(calls, c)
				m += d
			}
			out.Line("rangedo %d %s", k, strings.Join(calls, " ; "))
			if k < n {
				n = m
			}
		}
		// call: an ordinary call of the history (keeps n up to date); on a plain copy-on-write list every
		// fourth one is made from inside a Range callback instead, sometimes followed by further calls.
		call := func(format string, args ...any) {
			line := fmt.Sprintf(format, args...)
			if cowRe && r.Chance(25) {
				reentrant(line)
				return
			}
			out.Line("%s", line)
			n += effect(line, n)
		}
		// phases: grow, churn, drain to empty, refill
		phases := []string{"grow", "churn", "drain", "refill", "churn"}
		if r.Chance(30) {
			phases = []string{"churn"}
		}
		if r.Chance(10) {
			phases = []string{"biggrow", "drain", "refill"}
		}
		for _, ph := range phases {
			steps := r.Range(3, 25)
			switch ph {
			case "drain":
				steps = n + 2
			case "biggrow":
				steps = 1
			}
			for s := 0; s < steps; s++ {
				idx := func(hi int) int { // indices in [-1, hi+1], boundaries favoured
					switch r.Intn(6) {
					case 0:
						return -1
					case 1:
						return hi + 1
					case 2:
						return hi
					case 3:
						return 0
					}
					return r.Range(-1, hi+1)
				}
				pick := r.Intn(100)
				switch ph {
				case "grow", "refill":
					if pick < 50 {
						k := r.Range(0, 4)
						xs := make([]int, k)
						for i := range xs {
							xs[i] = next()
						}
						call("append %s", vlib.Ints(xs))
					} else if pick < 90 {
						call("add %d %d", idx(n), next())
					} else {
						out.Line("len")
					}
				case "biggrow":
					k := vlib.Pick(r, []int{70, 130, 260})
					if tier == "thorough" && r.Chance(10) {
						k = vlib.Pick(r, []int{600, 2100})
					}
					xs := make([]int, k)
					for i := range xs {
						xs[i] = next()
					}
					out.Line("append %s", vlib.Ints(xs))
					n += k
				case "drain":
					i := idx(n - 1)
					if r.Chance(60) {
						i = vlib.Pick(r, []int{0, n - 1})
					}
					call("delete %d", i)
				default: // churn
					switch {
					case pick < 15:
						out.Line("get %d", idx(n-1))
					case pick < 30:
						call("set %d %d", idx(n-1), next())
					case pick < 50:
						call("add %d %d", idx(n), next())
					case pick < 72:
						call("delete %d", idx(n-1))
					case pick < 82:
						k := r.Range(0, 3)
						xs := make([]int, k)
						for i := range xs {
							xs[i] = next()
						}
						call("append %s", vlib.Ints(xs))
					case pick < 85 && cowRe && r.Chance(50):
						// arbitrary re-entrant calls (writers and readers) during Range
						reentrant("")
					case pick < 85 && cowRe:
						// re-entrant writers during Range: a copy-on-write list must show the snapshot
						d := r.Range(0, 2)
						if d > n {
							d = n
						}
						k := r.Range(0, n)
						a := r.Range(0, 2)
						xs := make([]int, a)
						for i := range xs {
							xs[i] = next()
						}
						out.Line("rangemut %d %d %s", k, d, vlib.Ints(xs))
						if k < n {
							n = n - d + a
						}
					case pick < 88:
						out.Line("asslice")
					case pick < 91:
						out.Line("range")
					case pick < 94:
						// callback fails at index k (sometimes beyond the end: no failure)
						out.Line("rangestop %d", idx(n-1))
					default:
						out.Line("len")
					}
				}
			}
		}
	}
}

// growthSweep: copy-on-write lists of every small length (and around the larger powers of two), grown by
// 1..3 elements through Append or Add - how much spare capacity that leaves is the runtime's business and
// depends on length and element size - and then called from inside their own Range callback: the walk
// in progress shows the sequence as it was when Range was called, the calls act on the list as usual.
func growthSweep(out *vlib.Out) {
	v := 1000
	nv := func() int { v++; return v }
	seq := func(k int) string {
		xs := make([]int, k)
		for i := range xs {
			xs[i] = nv()
		}
		return vlib.Ints(xs)
	}
	for _, kind := range []string{"cowof", "box-cowof"} {
		for _, l := range []int{0, 1, 2, 3, 4, 5, 6, 7, 8, 9, 15, 16, 17, 31, 33} {
			for a := 1; a <= 3; a++ {
				n := l + a
				out.Line("new %s %s", kind, seq(l))
				if a == 1 && l%2 == 1 {
					out.Line("add %d %d", l/2, nv())
				} else {
					out.Line("append %s", seq(a))
				}
				out.Line("rangedo 0 add %d %d", n/2, nv())
				out.Line("rangedo 0 delete 0 ; add 0 %d ; get 0", nv())
				out.Line("rangedo %d set %d %d ; append %s", n/2, n, nv(), seq(1))
				out.Line("rangedo 0 append %s ; add %d %d ; add 1 %d ; delete %d", seq(2), n+4, nv(), nv(), n+5)
				out.Line("range")
			}
		}
	}
	for _, kind := range []string{"cow", "box-cow"} {
		out.Line("new %s", kind)
		for i := 0; i < 12; i++ {
			out.Line("append %s", seq(1))
			out.Line("rangedo 0 add %d %d", i, nv())
			out.Line("rangedo %d delete 0 ; len", i)
		}
		out.Line("range")
	}
}

// exhaustive: every op sequence of length <= 4 (array lists: 3 for each of several capacities) over
// append/add/delete/set/get with every index in [-1, len+1], on each implementation.
func exhaustive(out *vlib.Out) {
	type ctor struct {
		line string
		n    int
	}
	ctors := []ctor{{"new array 0", 0}, {"new array 1", 0}, {"new arrayof 1,2", 2}, {"new linked", 0},
		{"new linkedof 1,2,3", 3}, {"new cow", 0}, {"new cowof 1,2", 2}, {"new conc-linked", 0}}
	var rec func(c ctor, prefix []string, n, depth int)
	rec = func(c ctor, prefix []string, n, depth int) {
		if len(prefix) > 0 {
			out.Line("%s", c.line)
			for _, p := range prefix {
				out.Line("%s", p)
			}
			out.Line("asslice")
		}
		if depth == 0 {
			return
		}
		v := 10 + len(prefix)
		rec(c, append(append([]string{}, prefix...), fmt.Sprintf("append %d", v)), n+1, depth-1)
		for i := -1; i <= n+1; i++ {
			n2 := n
			if i >= 0 && i <= n {
				n2 = n + 1
			}
			rec(c, append(append([]string{}, prefix...), fmt.Sprintf("add %d %d", i, v)), n2, depth-1)
		}
		for i := -1; i <= n; i++ {
			n2 := n
			if i >= 0 && i < n {
				n2 = n - 1
			}
			rec(c, append(append([]string{}, prefix...), fmt.Sprintf("delete %d", i)), n2, depth-1)
		}
		for i := -1; i <= n; i++ {
			rec(c, append(append([]string{}, prefix...), fmt.Sprintf("set %d %d", i, v)), n, depth-1)
		}
	}
	for _, c := range ctors {
		rec(c, nil, c.n, 3)
	}
}

type stats struct {
	Ops      map[string]int `json:"ops"`
	Results  map[string]int `json:"results"`
	Kinds    map[string]int `json:"kinds"`
	MaxLen   int            `json:"max_len"`
	MaxCap   int            `json:"max_cap"`
	Shrinks  int            `json:"shrinks"`
	Growths  int            `json:"growths"`
	Cases    int            `json:"cases"`
	Lines    int            `json:"lines"`
	Distinct int            `json:"distinct_state_op_pairs"`
}

func state(l list.List[int]) string {
	vs := l.AsSlice()
	if len(vs) > 128 {
		return fmt.Sprintf("len=%d cap=%d vh=%d", l.Len(), l.Cap(), vlib.Hash(vs))
	}
	return fmt.Sprintf("len=%d cap=%d vals=%s", l.Len(), l.Cap(), vlib.Ints(vs))
}

func mk(kind string, args []string) list.List[int] {
	if strings.HasPrefix(kind, "box-") {
		kind = strings.TrimPrefix(kind, "box-")
		l := mkBox(strings.TrimPrefix(kind, "conc-"), args)
		if strings.HasPrefix(kind, "conc-") {
			l = &list.ConcurrentList[box]{List: l}
		}
		return boxList{l}
	}
	conc := strings.HasPrefix(kind, "conc-")
	base := strings.TrimPrefix(kind, "conc-")
	var l list.List[int]
	switch base {
	case "array":
		cp, _ := strconv.Atoi(args[0])
		l = list.NewArrayList[int](cp)
	case "arrayof":
		l = list.NewArrayListOf[int](vlib.ParseInts(args[0]))
	case "linked":
		l = list.NewLinkedList[int]()
	case "linkedof":
		l = list.NewLinkedListOf[int](vlib.ParseInts(args[0]))
	case "cow":
		l = list.NewCopyOnWriteArrayList[int]()
	case "cowof":
		l = list.NewCopyOnWriteArrayListOf[int](vlib.ParseInts(args[0]))
	default:
		panic("kind " + kind)
	}
	if conc {
		l = &list.ConcurrentList[int]{List: l}
	}
	return l
}

func run(ops []string, out *vlib.Out, st *stats) {
	var l list.List[int]
	seen := map[string]struct{}{}
	for _, line := range ops {
		w := strings.Fields(line)
		st.Ops[w[0]]++
		st.Lines++
		if w[0] == "new" {
			st.Cases++
			st.Kinds[w[1]]++
			p := vlib.Catch(func() { l = mk(w[1], w[2:]) })
			if p != "" {
				l = nil
				out.Line("%s => %s", line, p)
				continue
			}
			// (the driver names the model by the base kind: it strips the box- / conc- prefixes)
			out.Line("new %s%s => ok %s", w[1], argTail(w[2:]), state(l))
			continue
		}
		if l == nil {
			out.Line("%s => no-container", line)
			continue
		}
		before := state(l)
		capBefore := l.Cap()
		var res string
		extra := ""
		p := vlib.Catch(func() {
			switch w[0] {
			case "get":
				i, _ := strconv.Atoi(w[1])
				v, err := l.Get(i)
				res = okv(v, err)
			case "append":
				res = vlib.Err(l.Append(vlib.ParseInts(w[1])...))
			case "add":
				i, _ := strconv.Atoi(w[1])
				t, _ := strconv.Atoi(w[2])
				res = vlib.Err(l.Add(i, t))
			case "set":
				i, _ := strconv.Atoi(w[1])
				t, _ := strconv.Atoi(w[2])
				res = vlib.Err(l.Set(i, t))
			case "delete":
				i, _ := strconv.Atoi(w[1])
				v, err := l.Delete(i)
				res = okv(v, err)
			case "len":
				res = "ok:" + strconv.Itoa(l.Len())
			case "asslice":
				s := l.AsSlice()
				res = "ok:" + render(s)
				nonnil, fresh := 0, 1
				if s != nil {
					nonnil = 1
				}
				// aliasing probe: scribble over the returned slice (and its spare capacity) and
				// look for the change through the list, then the other way round
				snapshot := append([]int{}, s...)
				full := s[:cap(s)]
				for i := range full {
					full[i] = -777
				}
				after := l.AsSlice()
				if len(after) != len(snapshot) {
					fresh = 0
				}
				for i := range after {
					if i < len(snapshot) && after[i] != snapshot[i] {
						fresh = 0
					}
				}
				if len(snapshot) > 0 {
					s2 := l.AsSlice()
					_ = l.Set(0, -888)
					if s2[0] == -888 {
						fresh = 0
					}
					_ = l.Set(0, snapshot[0])
				}
				extra = fmt.Sprintf(" nonnil=%d fresh=%d", nonnil, fresh)
			case "rangemut":
				k, _ := strconv.Atoi(w[1])
				d, _ := strconv.Atoi(w[2])
				app := vlib.ParseInts(w[3])
				var seenVals []int
				err := l.Range(func(i int, t int) error {
					if i == k {
						for j := 0; j < d; j++ {
							if _, e := l.Delete(l.Len() - 1); e != nil {
								return e
							}
						}
						if e := l.Append(app...); e != nil {
							return e
						}
					}
					seenVals = append(seenVals, t)
					return nil
				})
				if err != nil {
					res = "err:range"
				} else {
					res = "ok:" + render(seenVals)
				}
			case "rangestop":
				// the callback fails when shown index k: Range must return that very error; what it
				// showed up to and including k must be the prefix of the sequence (more = how many
				// further elements it showed after the failure)
				k, _ := strconv.Atoi(w[1])
				var seenVals []int
				idxOK := true
				err := l.Range(func(i int, t int) error {
					if i != len(seenVals) {
						idxOK = false
					}
					seenVals = append(seenVals, t)
					if i == k {
						return errStop
					}
					return nil
				})
				more := 0
				if k >= 0 && len(seenVals) > k+1 {
					more = len(seenVals) - (k + 1)
					seenVals = seenVals[:k+1]
				}
				switch {
				case !idxOK:
					res = "err:range"
				case err == nil:
					res = "ok:" + render(seenVals)
				case errors.Is(err, errStop):
					res = "stop:" + render(seenVals)
				default:
					res = "err:range"
				}
				extra = fmt.Sprintf(" more=%d", more)
			case "rangedo":
				// Range whose callback, when shown index k, performs one or more ordinary calls on the
				// list (`call ; call ; …`), writers and readers alike
				k, _ := strconv.Atoi(w[1])
				nested := "-"
				var seenVals []int
				err := l.Range(func(i int, t int) error {
					if i == k {
						var outs []string
						for _, c := range strings.Split(strings.Join(w[2:], " "), " ; ") {
							outs = append(outs, apply(l, strings.Fields(c)))
						}
						nested = strings.Join(outs, ";")
					}
					seenVals = append(seenVals, t)
					return nil
				})
				if err != nil {
					res = "err:range"
				} else {
					res = "ok:" + render(seenVals)
				}
				extra = " nested=" + nested
			case "range":
				var seenVals []int
				idxOK := true
				err := l.Range(func(i int, t int) error {
					if i != len(seenVals) {
						idxOK = false
					}
					seenVals = append(seenVals, t)
					return nil
				})
				if err != nil || !idxOK {
					res = "err:range"
				} else {
					res = "ok:" + render(seenVals)
				}
			default:
				panic("op " + w[0])
			}
		})
		if p != "" {
			res = p
		}
		after := state(l)
		if l.Cap() < capBefore {
			st.Shrinks++
		} else if l.Cap() > capBefore {
			st.Growths++
		}
		if l.Len() > st.MaxLen {
			st.MaxLen = l.Len()
		}
		if l.Cap() > st.MaxCap {
			st.MaxCap = l.Cap()
		}
		rk := res
		if i := strings.IndexByte(rk, ':'); i > 0 {
			rk = rk[:i]
			if strings.HasPrefix(res, "err:idx") {
				rk = "err:idx"
			}
		}
		st.Results[w[0]+"/"+rk]++
		if before != after || strings.HasPrefix(res, "err") || strings.HasPrefix(res, "panic") {
			seen[before+"|"+line] = struct{}{}
		}
		out.Line("%s => %s %s%s", line, res, after, extra)
	}
	st.Distinct = len(seen)
}

var errStop = errors.New("zzverif: stop")

// apply performs one ordinary call (a nested call of rangedo)
func apply(l list.List[int], w []string) string {
	at := func(i int) int { v, _ := strconv.Atoi(w[i]); return v }
	switch w[0] {
	case "get":
		return okv(l.Get(at(1)))
	case "append":
		return vlib.Err(l.Append(vlib.ParseInts(w[1])...))
	case "add":
		return vlib.Err(l.Add(at(1), at(2)))
	case "set":
		return vlib.Err(l.Set(at(1), at(2)))
	case "delete":
		return okv(l.Delete(at(1)))
	case "len":
		return "ok:" + strconv.Itoa(l.Len())
	case "asslice":
		return "ok:" + render(l.AsSlice())
	case "range":
		var vs []int
		if err := l.Range(func(_ int, t int) error { vs = append(vs, t); return nil }); err != nil {
			return "err:range"
		}
		return "ok:" + render(vs)
	}
	panic("nested op " + w[0])
}

func argTail(a []string) string {
	if len(a) == 0 {
		return ""
	}
	return " " + strings.Join(a, " ")
}

func render(xs []int) string {
	if len(xs) > 128 {
		return fmt.Sprintf("h%d", vlib.Hash(xs))
	}
	return vlib.Ints(xs)
}

func okv(v int, err error) string {
	if err != nil {
		return vlib.Err(err)
	}
	return "ok:" + strconv.Itoa(v)
}

func main() {
	mode := flag.String("mode", "gen", "gen|run")
	tier := flag.String("tier", "quick", "quick|thorough")
	opsF := flag.String("ops", "", "ops file (run mode)")
	outF := flag.String("out", "", "output file")
	statsF := flag.String("stats", "", "stats json (run mode)")
	flag.Parse()
	out := vlib.Create(*outF)
	defer out.Close()
	switch *mode {
	case "gen":
		gen(*tier, out)
	case "run":
		st := &stats{Ops: map[string]int{}, Results: map[string]int{}, Kinds: map[string]int{}}
		run(vlib.ReadLines(*opsF), out, st)
		if *statsF != "" {
			b, _ := json.MarshalIndent(st, "", " ")
			os.WriteFile(*statsF, b, 0o644)
		}
	}
}
