// minigopq: Go -> Lean translator for internal/queue/priority_queue.go (fourth MiniGo instance, lean/Ekit/MiniGo/LangPQ.lean:
// aliasing slices + receiver + method calls).
//
// Re-reads the CURRENT source on every run and prints every function of the file as a term of the deep embedding; all semantics
// lives in the Lean interpreter.  Subset: methods of the queue type (receiver = implicit state: fields capacity/data, the
// comparator) and the constructor; locals; `x := e`, `x = e`, `a, b := e1, e2`, `var x T`, `s[i] = e`, the swap
// `s[i], s[j] = s[j], s[i]`, `p.data = e`, `p.capacity = e`; if/else (with init), `for cond {}`, `for {}` with `break`, return with
// 1-2 results; integer literals, `len`, `cap`, `s[i]`, `s[:n]`, `append(s, x)`, `make([]T, 1, c)`, `== != < > <= >= && || ! + - /`,
// `x * 2`, `p.compare(a, b)`, calls of the file's methods, `slice.Shrink(p.data)`, the package's error variables, and the
// constructor's `return &PriorityQueue[T]{capacity: …, data: …, compare: compare}`.  Anything else: FAIL (exit 3) = broken obligation.
//
//	minigopq -root <repo> -out <lean file>
package main

import (
	"flag"
	"fmt"
	"go/ast"
	"go/parser"
	"go/token"
	"os"
	"path/filepath"
	"sort"
	"strings"
)

func fail(format string, a ...any) {
	fmt.Fprintf(os.Stderr, "minigopq: unsupported: "+format+"\n", a...)
	os.Exit(3)
}

type tr struct {
	fset     *token.FileSet
	fn       string
	recv     string
	vars     map[string]int
	varNames []string
	results  int
	errs     map[string]int
	fns      map[string]*ast.FuncDecl
	typeName string
}

func (t *tr) pos(n ast.Node) string { return t.fset.Position(n.Pos()).String() }

func (t *tr) v(name string, declare bool) int {
	if i, ok := t.vars[name]; ok {
		return i
	}
	if !declare {
		fail("%s: unknown identifier %s", t.fn, name)
	}
	i := len(t.varNames)
	t.vars[name] = i
	t.varNames = append(t.varNames, name)
	return i
}

func (t *tr) isRecv(e ast.Expr) bool {
	id, ok := e.(*ast.Ident)
	return ok && t.recv != "" && id.Name == t.recv
}

func (t *tr) expr(e ast.Expr) string {
	switch x := e.(type) {
	case *ast.ParenExpr:
		return t.expr(x.X)
	case *ast.Ident:
		switch x.Name {
		case "true":
			return "(.bool true)"
		case "false":
			return "(.bool false)"
		case "nil":
			fail("%s: nil outside a return position", t.pos(x))
		}
		if c, ok := t.errs[x.Name]; ok {
			return fmt.Sprintf("(.err %d)", c)
		}
		return fmt.Sprintf("(.var %d)", t.v(x.Name, false))
	case *ast.BasicLit:
		if x.Kind != token.INT {
			fail("%s: literal %s", t.pos(x), x.Value)
		}
		return fmt.Sprintf("(.int %s)", x.Value)
	case *ast.SelectorExpr:
		if t.isRecv(x.X) {
			switch x.Sel.Name {
			case "data":
				return ".data"
			case "capacity":
				return ".capacity"
			}
		}
		fail("%s: selector %s", t.pos(x), x.Sel.Name)
	case *ast.IndexExpr:
		return fmt.Sprintf("(.index %s %s)", t.expr(x.X), t.expr(x.Index))
	case *ast.SliceExpr:
		if x.Low != nil || x.High == nil || x.Slice3 {
			fail("%s: only s[:n]", t.pos(x))
		}
		return fmt.Sprintf("(.sliceTo %s %s)", t.expr(x.X), t.expr(x.High))
	case *ast.CallExpr:
		fun := x.Fun
		if ie, ok := fun.(*ast.IndexExpr); ok { // generic instantiation f[T](…)
			fun = ie.X
		}
		if sel, ok := fun.(*ast.SelectorExpr); ok {
			if t.isRecv(sel.X) {
				if sel.Sel.Name == "compare" && len(x.Args) == 2 {
					return fmt.Sprintf("(.cmp %s %s)", t.expr(x.Args[0]), t.expr(x.Args[1]))
				}
				fd, ok := t.fns[sel.Sel.Name]
				if !ok || fd.Recv == nil {
					fail("%s: %s is not a method of the queue type", t.pos(x), sel.Sel.Name)
				}
				switch len(x.Args) {
				case 0:
					return fmt.Sprintf("(.call0 .%s)", sel.Sel.Name)
				case 3:
					return fmt.Sprintf("(.call3 .%s %s %s %s)", sel.Sel.Name, t.expr(x.Args[0]), t.expr(x.Args[1]), t.expr(x.Args[2]))
				}
				fail("%s: method call with %d arguments", t.pos(x), len(x.Args))
			}
			if id, ok := sel.X.(*ast.Ident); ok && id.Name == "slice" && sel.Sel.Name == "Shrink" && len(x.Args) == 1 {
				return fmt.Sprintf("(.shrink %s)", t.expr(x.Args[0]))
			}
			fail("%s: call of a foreign function", t.pos(x))
		}
		name := ""
		if id, ok := fun.(*ast.Ident); ok {
			name = id.Name
		}
		switch name {
		case "len":
			return fmt.Sprintf("(.len %s)", t.expr(x.Args[0]))
		case "cap":
			return fmt.Sprintf("(.cap %s)", t.expr(x.Args[0]))
		case "append":
			if len(x.Args) != 2 || x.Ellipsis.IsValid() {
				fail("%s: append form", t.pos(x))
			}
			return fmt.Sprintf("(.append1 %s %s)", t.expr(x.Args[0]), t.expr(x.Args[1]))
		case "make":
			if len(x.Args) != 3 {
				fail("%s: make form", t.pos(x))
			}
			if bl, ok := x.Args[1].(*ast.BasicLit); !ok || bl.Value != "1" {
				fail("%s: make with a length other than 1", t.pos(x))
			}
			return fmt.Sprintf("(.make1 %s)", t.expr(x.Args[2]))
		}
		fail("%s: call of %s", t.pos(x), name)
	case *ast.BinaryExpr:
		switch x.Op {
		case token.LAND:
			return fmt.Sprintf("(.and %s %s)", t.expr(x.X), t.expr(x.Y))
		case token.LOR:
			return fmt.Sprintf("(.or %s %s)", t.expr(x.X), t.expr(x.Y))
		case token.MUL:
			// only doubling: x * 2 = x + x
			if bl, ok := x.Y.(*ast.BasicLit); ok && bl.Value == "2" {
				if _, pure := x.X.(*ast.Ident); pure {
					return fmt.Sprintf("(.bin .add %s %s)", t.expr(x.X), t.expr(x.X))
				}
			}
			fail("%s: multiplication other than ident * 2", t.pos(x))
		}
		ops := map[token.Token]string{token.EQL: "eq", token.NEQ: "ne", token.LSS: "lt", token.GTR: "gt",
			token.LEQ: "le", token.GEQ: "ge", token.ADD: "add", token.SUB: "sub", token.QUO: "div"}
		op, ok := ops[x.Op]
		if !ok {
			fail("%s: operator %s", t.pos(x), x.Op)
		}
		return fmt.Sprintf("(.bin .%s %s %s)", op, t.expr(x.X), t.expr(x.Y))
	case *ast.UnaryExpr:
		if x.Op == token.NOT {
			return fmt.Sprintf("(.not %s)", t.expr(x.X))
		}
		fail("%s: unary %s", t.pos(x), x.Op)
	}
	fail("%s: expression %T", t.pos(e), e)
	return ""
}

func seq(ss []string) string {
	if len(ss) == 0 {
		return ".skip"
	}
	if len(ss) == 1 {
		return ss[0]
	}
	return fmt.Sprintf("(.seq %s\n    %s)", ss[0], seq(ss[1:]))
}

func (t *tr) assign(lhs ast.Expr, rhs string, define bool) string {
	switch l := lhs.(type) {
	case *ast.Ident:
		return fmt.Sprintf("(.assign %d %s)", t.v(l.Name, define), rhs)
	case *ast.IndexExpr:
		return fmt.Sprintf("(.setIndex %s %s %s)", t.expr(l.X), t.expr(l.Index), rhs)
	case *ast.SelectorExpr:
		if t.isRecv(l.X) {
			switch l.Sel.Name {
			case "data":
				return fmt.Sprintf("(.setData %s)", rhs)
			case "capacity":
				return fmt.Sprintf("(.setCapacity %s)", rhs)
			}
		}
	}
	fail("%s: assignment target", t.pos(lhs))
	return ""
}

func exprStr(e ast.Expr) string {
	switch x := e.(type) {
	case *ast.Ident:
		return x.Name
	case *ast.SelectorExpr:
		return exprStr(x.X) + "." + x.Sel.Name
	case *ast.IndexExpr:
		return exprStr(x.X) + "[" + exprStr(x.Index) + "]"
	case *ast.BasicLit:
		return x.Value
	}
	return fmt.Sprintf("%T", e)
}

func (t *tr) stmt(s ast.Stmt) string {
	switch x := s.(type) {
	case *ast.BlockStmt:
		var ss []string
		for _, y := range x.List {
			ss = append(ss, t.stmt(y))
		}
		return seq(ss)
	case *ast.AssignStmt:
		define := x.Tok == token.DEFINE
		if x.Tok != token.DEFINE && x.Tok != token.ASSIGN {
			fail("%s: assignment operator %s", t.pos(x), x.Tok)
		}
		if len(x.Lhs) == 2 && len(x.Rhs) == 2 && !define {
			// the swap s[i], s[j] = s[j], s[i]
			l0, ok0 := x.Lhs[0].(*ast.IndexExpr)
			l1, ok1 := x.Lhs[1].(*ast.IndexExpr)
			r0, ok2 := x.Rhs[0].(*ast.IndexExpr)
			r1, ok3 := x.Rhs[1].(*ast.IndexExpr)
			if ok0 && ok1 && ok2 && ok3 && exprStr(l0) == exprStr(r1) && exprStr(l1) == exprStr(r0) && exprStr(l0.X) == exprStr(l1.X) {
				return fmt.Sprintf("(.swap %s %s %s)", t.expr(l0.X), t.expr(l0.Index), t.expr(l1.Index))
			}
			fail("%s: parallel assignment that is not a swap of two slots of one slice", t.pos(x))
		}
		if len(x.Lhs) == 2 && len(x.Rhs) == 2 && define {
			// node, parent := e1, e2 : the right-hand sides do not mention the new names
			r0, r1 := t.expr(x.Rhs[0]), t.expr(x.Rhs[1])
			return seq([]string{t.assign(x.Lhs[0], r0, true), t.assign(x.Lhs[1], r1, true)})
		}
		if len(x.Lhs) != 1 || len(x.Rhs) != 1 {
			fail("%s: multiple assignment", t.pos(x))
		}
		return t.assign(x.Lhs[0], t.expr(x.Rhs[0]), define)
	case *ast.DeclStmt:
		gd, ok := x.Decl.(*ast.GenDecl)
		if !ok || gd.Tok != token.VAR {
			fail("%s: declaration", t.pos(x))
		}
		var ss []string
		for _, sp := range gd.Specs {
			vs := sp.(*ast.ValueSpec)
			if len(vs.Values) != 0 {
				fail("%s: var with initialiser", t.pos(vs))
			}
			for _, n := range vs.Names {
				ss = append(ss, fmt.Sprintf("(.assign %d (.int 0))", t.v(n.Name, true)))
			}
		}
		return seq(ss)
	case *ast.ExprStmt:
		return fmt.Sprintf("(.expr %s)", t.expr(x.X))
	case *ast.IfStmt:
		var pre []string
		if x.Init != nil {
			pre = append(pre, t.stmt(x.Init))
		}
		el := ".skip"
		if x.Else != nil {
			el = t.stmt(x.Else)
		}
		return seq(append(pre, fmt.Sprintf("(.ite %s\n    %s\n    %s)", t.expr(x.Cond), t.stmt(x.Body), el)))
	case *ast.ForStmt:
		if x.Init != nil || x.Post != nil {
			fail("%s: three-clause loop", t.pos(x))
		}
		cond := "(.bool true)"
		if x.Cond != nil {
			cond = t.expr(x.Cond)
		}
		return fmt.Sprintf("(.loop %s\n    %s)", cond, t.stmt(x.Body))
	case *ast.BranchStmt:
		if x.Tok == token.BREAK && x.Label == nil {
			return ".break_"
		}
		fail("%s: branch %s", t.pos(x), x.Tok)
	case *ast.ReturnStmt:
		n := len(x.Results)
		if n != t.results {
			fail("%s: return arity", t.pos(x))
		}
		if n == 1 {
			// the constructor's struct literal
			if ue, ok := x.Results[0].(*ast.UnaryExpr); ok && ue.Op == token.AND {
				cl, ok := ue.X.(*ast.CompositeLit)
				if !ok {
					fail("%s: & of a non-literal", t.pos(x))
				}
				var ss []string
				for _, el := range cl.Elts {
					kv, ok := el.(*ast.KeyValueExpr)
					if !ok {
						fail("%s: positional literal", t.pos(el))
					}
					switch kv.Key.(*ast.Ident).Name {
					case "capacity":
						ss = append(ss, fmt.Sprintf("(.setCapacity %s)", t.expr(kv.Value)))
					case "data":
						ss = append(ss, fmt.Sprintf("(.setData %s)", t.expr(kv.Value)))
					case "compare":
					default:
						fail("%s: literal key", t.pos(kv))
					}
				}
				ss = append(ss, "(.ret (.int 0))")
				return seq(ss)
			}
			if id, ok := x.Results[0].(*ast.Ident); ok && id.Name == "nil" {
				return "(.ret .nilErr)"
			}
			return fmt.Sprintf("(.ret %s)", t.expr(x.Results[0]))
		}
		if n == 2 {
			second := ""
			if id, ok := x.Results[1].(*ast.Ident); ok && id.Name == "nil" {
				second = ".nilErr"
			} else {
				second = t.expr(x.Results[1])
			}
			return fmt.Sprintf("(.ret2 %s %s)", t.expr(x.Results[0]), second)
		}
		if n == 0 {
			return "(.ret (.int 0))"
		}
		fail("%s: return arity", t.pos(x))
	}
	fail("%s: statement %T", t.pos(s), s)
	return ""
}

func main() {
	root := flag.String("root", "", "repo root")
	out := flag.String("out", "", "Lean file to write")
	flag.Parse()
	file := "internal/queue/priority_queue.go"
	fset := token.NewFileSet()
	f, err := parser.ParseFile(fset, filepath.Join(*root, file), nil, 0)
	if err != nil {
		fail("parse: %v", err)
	}
	errs := map[string]int{}
	for _, d := range f.Decls {
		gd, ok := d.(*ast.GenDecl)
		if !ok || gd.Tok != token.VAR {
			continue
		}
		for _, sp := range gd.Specs {
			vs := sp.(*ast.ValueSpec)
			for _, n := range vs.Names {
				errs[n.Name] = len(errs) + 1
			}
		}
	}
	fns := map[string]*ast.FuncDecl{}
	var names []string
	for _, d := range f.Decls {
		if fd, ok := d.(*ast.FuncDecl); ok {
			fns[fd.Name.Name] = fd
			names = append(names, fd.Name.Name)
		}
	}
	sort.Strings(names)
	var b strings.Builder
	fmt.Fprintf(&b, "/- GENERATED by harness/minigopq from %s of the current tree — do not edit. -/\n", file)
	b.WriteString("import Ekit.MiniGo.LangPQ\nnamespace Ekit.Gen.PQGo\nopen Ekit.MiniGo.PQ\n\ninductive PName where\n")
	for _, n := range names {
		fmt.Fprintf(&b, "  | %s\n", n)
	}
	b.WriteString("  deriving DecidableEq, Repr\n\n")
	type kv struct {
		n string
		c int
	}
	var es []kv
	for n, c := range errs {
		es = append(es, kv{n, c})
	}
	sort.Slice(es, func(i, j int) bool { return es[i].c < es[j].c })
	for _, e := range es {
		fmt.Fprintf(&b, "/-- error code of `%s` -/\ndef err_%s : Nat := %d\n", e.n, e.n, e.c)
	}
	b.WriteString("\n")
	np := map[string]int{}
	for _, n := range names {
		fd := fns[n]
		t := &tr{fset: fset, fn: n, vars: map[string]int{}, errs: errs, fns: fns}
		if fd.Recv != nil && len(fd.Recv.List) == 1 && len(fd.Recv.List[0].Names) == 1 {
			t.recv = fd.Recv.List[0].Names[0].Name
		}
		for _, p := range fd.Type.Params.List {
			for _, pn := range p.Names {
				t.v(pn.Name, true)
			}
		}
		np[n] = len(t.varNames)
		t.results = 0
		if fd.Type.Results != nil {
			t.results = fd.Type.Results.NumFields()
		}
		body := t.stmt(fd.Body)
		var vn []string
		for i, x := range t.varNames {
			vn = append(vn, fmt.Sprintf("%d=%s", i, x))
		}
		fmt.Fprintf(&b, "/-- `%s`; variables: %s -/\ndef body_%s : Stmt PName :=\n  %s\n\n", n, strings.Join(vn, " "), n, body)
	}
	b.WriteString("def procs : PName → Proc PName\n")
	for _, n := range names {
		fmt.Fprintf(&b, "  | .%s => ⟨%d, body_%s⟩\n", n, np[n], n)
	}
	b.WriteString("\nend Ekit.Gen.PQGo\n")
	if err := os.WriteFile(*out, []byte(b.String()), 0o644); err != nil {
		fmt.Fprintln(os.Stderr, err)
		os.Exit(1)
	}
}
