// Correspondence harness for C13 (syncx.Cond): scripted scenarios on the real Cond.
//
//	cond -mode gen -tier quick|thorough -out ops.txt     (seed from VERIF_SEED)
//	cond -mode run -ops ops.txt -out trace.txt -stats stats.json
//
// A case is a script executed line by line by one controller goroutine:
//
//	new                       a fresh Cond over a gated Locker
//	wait <w> <ctx> [hold]     start waiter w: L.Lock(); Wait(ctx); ...; L.Unlock().  The line returns when
//	                          Wait has enqueued the waiter and called L.Unlock() (observed inside our Locker).
//	                          ctx: bg (never ends) | bgn (context.Background, nil Done channel) | can (ended by
//	                          `cancel w`) | exp (already ended) | to<us> (ends after <us> microseconds).
//	                          hold: the waiter is frozen inside that L.Unlock() (i.e. between add and the
//	                          select of wait) until `release w` — legal behaviour of a slow Locker, and the
//	                          way the expiry/signal race is pinned onto the real code without instrumentation.
//	release <w> | cancel <w> | signal | broadcast | sleep <us> | len
//	lsignal | lbroadcast      Signal / Broadcast called while the controller holds c.L
//	race <a> <b> <skew>       a, b ∈ signal | broadcast | lsignal | lbroadcast | cancel:<w> | release:<w>, run by two goroutines
//	settle                    release everybody, wait for all timers, wait until every waiter has returned
//	                          or is parked in the select (runtime goroutine state), then report
//	                          r=<w>:<nil|err|errother|parked>[!],…  len=<n> dirty=<d> lfree=<0|1> cnt=<k> hang=<0|1>
//	                          ('!' = Wait returned without holding L; err = the error of the waiter's own
//	                          context, by identity; errother = any other non-nil error)
//
// Nothing here asserts anything: the Lean driver decides (model mode: is the outcome reachable in the
// transition system the theorems are about; spec mode: the laws of the property).
package main

import (
	"context"
	"encoding/json"
	"errors"
	"flag"
	"fmt"
	"os"
	"runtime"
	"runtime/debug"
	"sort"
	"strconv"
	"strings"
	"sync"
	"sync/atomic"
	"time"

	"github.com/ecodeclub/ekit/syncx"
	"github.com/ecodeclub/ekit/zzverif/vlib"
)

// ---------------------------------------------------------------------------------------------
// generation

type gen struct {
	r    *vlib.Rng
	out  *vlib.Out
	base int // waiter ids of the current family start at base+1 (ids below belong to the history prefix)
}

// begin opens a case.  With probability pct the family is PRECEDED, on the same Cond, by rounds in
// which waiters are woken the normal way by Broadcast (and Signal), so that the sync.Pool holds nodes
// with history when the family's own waiters allocate theirs: a defect that leaves state on a
// recycled node (a stale token, a stale mark) only shows on such a node.
func (g *gen) begin(pct int) {
	g.l("new")
	g.base = 0
	if g.r.Chance(pct) {
		g.history()
	}
}

// history: 1–3 rounds of 2–4 never-cancelling waiters, all woken through the receive arm by one
// Broadcast (mostly) or by as many Signals, then a settle (everybody returned nil, nodes pooled).
func (g *gen) history() {
	r := g.r
	rounds := r.Range(1, 3)
	for i := 0; i < rounds; i++ {
		k := r.Range(2, 4)
		for j := 0; j < k; j++ {
			g.base++
			g.l("wait %d %s", g.base, vlib.Pick(r, []string{"bg", "bg", "bgn"}))
		}
		switch p := r.Intn(100); {
		case p < 60 || i == 0:
			g.l("broadcast")
		case p < 75:
			g.l("lbroadcast")
		default:
			for j := 0; j < k; j++ {
				g.l("signal")
			}
		}
		g.l("settle")
	}
}

// pinned: after a history prefix, the exact window of the property, several times on the same Cond:
// waiter A (cancellable, frozen by the gated Locker right after it enqueued, i.e. before its select)
// with a never-cancelling waiter B queued behind it; Signal reaches A; A's context ends; A is released.
// Whichever arm A's select takes, one Wait must return nil for that Signal.
func (g *gen) pinned() {
	r := g.r
	g.l("new")
	g.base = 0
	g.history()
	reps := r.Range(2, 4)
	for i := 0; i < reps; i++ {
		a := g.base + 1
		b := g.base + 2
		g.base += 2
		g.l("wait %d %s hold", a, vlib.Pick(r, []string{"can", "can", "can", "exp", "to0"}))
		extra := 0
		if r.Chance(30) { // somebody cancelled in between: chained hand-off
			extra = g.base + 1
			g.base++
			g.l("wait %d can hold", extra)
		}
		g.l("wait %d %s", b, vlib.Pick(r, []string{"bg", "bg", "bgn"}))
		g.l("%s", vlib.Pick(r, []string{"signal", "signal", "lsignal"}))
		g.l("cancel %d", a)
		if extra != 0 {
			g.l("cancel %d", extra)
		}
		if r.Chance(50) {
			g.l("release %d", a)
		}
		g.l("settle")
		g.l("signal") // wakes b if a's select took the receive arm
		g.l("settle")
		if r.Chance(40) { // refresh the history
			g.l("wait %d bg", g.base+1)
			g.l("wait %d bg", g.base+2)
			g.base += 2
			g.l("broadcast")
			g.l("settle")
		}
	}
	g.l("broadcast")
	g.l("settle")
}

func (g *gen) l(format string, a ...any) { g.out.Line(format, a...) }

func (g *gen) cleanup(ws []int, kinds map[int]string) {
	for _, w := range ws {
		if kinds[w] == "can" {
			g.l("cancel %d", w)
		}
	}
	g.l("broadcast")
	g.l("settle")
}

// the hand-off family: a waiter that is signalled while frozen before its select and whose context
// has ended takes either arm; if it takes the ctx arm it must pass the token on.
func (g *gen) handoff() {
	r := g.r
	g.begin(45)
	k := r.Range(1, 4)
	pos := r.Intn(k) // the raced waiter
	kinds := map[int]string{}
	var ws []int
	chain := r.Chance(30) // several consecutive raced waiters: chained hand-off
	for i := 0; i < k; i++ {
		w := g.base + i + 1
		ws = append(ws, w)
		raced := i == pos || (chain && i > pos && r.Chance(60))
		if raced {
			kind := vlib.Pick(r, []string{"can", "can", "exp", "to0", "to50"})
			kinds[w] = kind
			g.l("wait %d %s hold", w, kind)
		} else {
			kind := vlib.Pick(r, []string{"bg", "bg", "bgn", "can"})
			kinds[w] = kind
			g.l("wait %d %s", w, kind)
		}
	}
	if r.Chance(30) {
		g.l("len")
	}
	nsig := pos + 1
	if r.Chance(20) {
		nsig = r.Range(1, k)
	}
	for i := 0; i < nsig; i++ {
		if r.Chance(15) {
			g.l("lsignal")
		} else {
			g.l("signal")
		}
	}
	for _, w := range ws {
		if kinds[w] == "can" && r.Chance(70) {
			g.l("cancel %d", w)
		}
	}
	switch r.Intn(3) {
	case 0:
		for _, w := range ws {
			g.l("release %d", w)
		}
	case 1:
		// release racing a further signal
		g.l("race release:%d signal %d", ws[pos], r.Range(0, 60))
	}
	g.l("settle")
	if r.Chance(50) {
		g.l("signal")
		g.l("settle")
	}
	g.cleanup(ws, kinds)
}

// timeouts tuned around the signal
func (g *gen) timeouts() {
	r := g.r
	g.begin(40)
	k := r.Range(1, 4)
	kinds := map[int]string{}
	var ws []int
	d := vlib.Pick(r, []int{0, 20, 60, 120, 300, 700, 1500, 2000})
	for i := 0; i < k; i++ {
		w := g.base + i + 1
		ws = append(ws, w)
		if r.Chance(55) {
			kinds[w] = "to"
			g.l("wait %d to%d", w, d+r.Range(0, 40))
		} else {
			kinds[w] = vlib.Pick(r, []string{"bg", "bgn", "can"})
			g.l("wait %d %s", w, kinds[w])
		}
	}
	if d > 40 {
		g.l("sleep %d", d-r.Range(0, 40))
	}
	ns := r.Range(1, k)
	for i := 0; i < ns; i++ {
		if r.Chance(15) {
			g.l("sleep %d", r.Range(1, 30))
		}
		g.l("signal")
	}
	g.l("settle")
	g.cleanup(ws, kinds)
}

// explicit cancels racing Signal / Broadcast
func (g *gen) races() {
	r := g.r
	g.begin(45)
	k := r.Range(1, 4)
	kinds := map[int]string{}
	var ws, cans []int
	for i := 0; i < k; i++ {
		w := g.base + i + 1
		ws = append(ws, w)
		if r.Chance(60) {
			kinds[w] = "can"
			cans = append(cans, w)
		} else {
			kinds[w] = vlib.Pick(r, []string{"bg", "bgn"})
		}
		g.l("wait %d %s", w, kinds[w])
	}
	rounds := r.Range(1, 3)
	for i := 0; i < rounds; i++ {
		op := vlib.Pick(r, []string{"signal", "signal", "signal", "broadcast", "lsignal", "lbroadcast"})
		if r.Chance(12) {
			g.l("race %s %s %d", op, vlib.Pick(r, []string{"signal", "broadcast", "lsignal"}), r.Range(0, 40))
		}
		if len(cans) > 0 {
			c := cans[0]
			if r.Chance(50) {
				c = vlib.Pick(r, cans)
			}
			if r.Bool() {
				g.l("race %s cancel:%d %d", op, c, r.Range(0, 80))
			} else {
				g.l("race cancel:%d %s %d", c, op, r.Range(0, 80))
			}
		} else {
			g.l("%s", op)
		}
		if r.Chance(40) {
			g.l("settle")
		}
	}
	g.l("settle")
	g.cleanup(ws, kinds)
}

// broadcast with everybody parked / some cancelled / some frozen
func (g *gen) broadcasts() {
	r := g.r
	g.begin(30)
	k := r.Range(1, 5)
	kinds := map[int]string{}
	var ws []int
	for i := 0; i < k; i++ {
		w := g.base + i + 1
		ws = append(ws, w)
		kinds[w] = vlib.Pick(r, []string{"bg", "bg", "bgn", "can", "can", "exp", "to30"})
		hold := ""
		if kinds[w] != "bg" && kinds[w] != "bgn" && r.Chance(40) {
			hold = " hold"
		}
		g.l("wait %d %s%s", w, kinds[w], hold)
	}
	if r.Chance(50) {
		g.l("len")
	}
	for _, w := range ws {
		if kinds[w] == "can" && r.Chance(40) {
			g.l("cancel %d", w)
		}
	}
	g.l("broadcast")
	g.l("settle")
	// late waiter after the broadcast: must not be woken by it unless a token is forwarded
	if r.Chance(50) {
		w := g.base + k + 1
		ws = append(ws, w)
		kinds[w] = vlib.Pick(r, []string{"bg", "can"})
		g.l("wait %d %s", w, kinds[w])
		g.l("settle")
	}
	g.cleanup(ws, kinds)
}

// several rounds on the same Cond: pooled nodes are reused by later waiters
func (g *gen) reuse() {
	r := g.r
	g.begin(40)
	kinds := map[int]string{}
	var live []int
	next := g.base + 1
	rounds := r.Range(2, 4)
	for round := 0; round < rounds; round++ {
		k := r.Range(1, 3)
		for i := 0; i < k; i++ {
			w := next
			next++
			live = append(live, w)
			kinds[w] = vlib.Pick(r, []string{"bg", "can", "can", "exp", "to10"})
			hold := ""
			if kinds[w] == "can" && r.Chance(30) {
				hold = " hold"
			}
			g.l("wait %d %s%s", w, kinds[w], hold)
		}
		if r.Chance(25) {
			g.l("broadcast")
		}
		for i := 0; i < r.Range(0, 2); i++ {
			g.l("signal")
		}
		for _, w := range live {
			if kinds[w] == "can" && r.Chance(50) {
				g.l("cancel %d", w)
			}
		}
		g.l("settle")
	}
	g.cleanup(live, kinds)
}

func (g *gen) random() {
	r := g.r
	g.begin(30)
	kinds := map[int]string{}
	var ws []int
	next := g.base + 1
	n := r.Range(4, 12)
	for i := 0; i < n; i++ {
		p := r.Intn(100)
		switch {
		case p < 35 && next <= g.base+5:
			w := next
			next++
			ws = append(ws, w)
			kinds[w] = vlib.Pick(r, []string{"bg", "bgn", "can", "can", "exp", "to0", "to100", "to400"})
			hold := ""
			if r.Chance(30) {
				hold = " hold"
			}
			g.l("wait %d %s%s", w, kinds[w], hold)
		case p < 55:
			g.l("%s", vlib.Pick(r, []string{"signal", "signal", "lsignal"}))
		case p < 62:
			g.l("%s", vlib.Pick(r, []string{"broadcast", "broadcast", "lbroadcast"}))
		case p < 72 && len(ws) > 0:
			g.l("cancel %d", vlib.Pick(r, ws))
		case p < 80 && len(ws) > 0:
			g.l("release %d", vlib.Pick(r, ws))
		case p < 88 && len(ws) > 0:
			a := vlib.Pick(r, []string{"signal", "broadcast", "signal", "lsignal", "lbroadcast"})
			b := vlib.Pick(r, []string{"cancel", "release"}) + ":" + strconv.Itoa(vlib.Pick(r, ws))
			g.l("race %s %s %d", a, b, r.Range(0, 80))
		case p < 92:
			g.l("sleep %d", r.Range(1, 200))
		case p < 95:
			g.l("len")
		default:
			g.l("settle")
		}
	}
	g.l("settle")
	g.cleanup(ws, kinds)
}

func generate(tier string, out *vlib.Out) {
	g := &gen{r: vlib.NewRng(vlib.Seed()), out: out}
	// corpus: the schedules the property names
	corpus := []string{
		// hand-off pinned: waiter 1 is signalled while frozen before its select, its context ends, it is released
		"new\nwait 1 can hold\nwait 2 bg\nsignal\ncancel 1\nrelease 1\nsettle\nbroadcast\nsettle",
		"new\nwait 1 exp hold\nwait 2 bg\nwait 3 bg\nsignal\nrelease 1\nsettle\nsignal\nsettle\nbroadcast\nsettle",
		// hand-off with nobody to hand to: the token may be dropped, nobody else may return nil
		"new\nwait 1 can hold\nsignal\ncancel 1\nrelease 1\nsettle\nwait 2 bg\nsettle\nbroadcast\nsettle",
		// chained hand-off
		"new\nwait 1 can hold\nwait 2 can hold\nwait 3 bg\nsignal\ncancel 1\ncancel 2\nrelease 1\nrelease 2\nsettle\nbroadcast\nsettle",
		// signals only, enough never-cancelling waiters: #nil = #signals
		"new\nwait 1 bg\nwait 2 bg\nwait 3 bgn\nsignal\nsignal\nsettle\nlen\nbroadcast\nsettle",
		// broadcast releases everybody parked; a later waiter is not woken
		"new\nwait 1 bg\nwait 2 bgn\nwait 3 can\nlen\nbroadcast\nsettle\nwait 4 bg\nsettle\nbroadcast\nsettle",
		// a waiter that gave up does not absorb a later signal; its pooled node is reused
		"new\nwait 1 can\ncancel 1\nsettle\nwait 2 bg\nsignal\nsettle\nwait 3 bg\nsettle\nsignal\nsettle",
		// Signal / Broadcast while the caller holds L; two Signals racing
		"new\nwait 1 bg\nwait 2 bg\nwait 3 can\nlsignal\nsettle\nrace signal lsignal 5\nsettle\nlbroadcast\nsettle",
		// history on the pooled nodes (woken normally by Broadcast), then the hand-off window, twice
		"new\nwait 1 bg\nwait 2 bg\nwait 3 bgn\nbroadcast\nsettle\nwait 4 can hold\nwait 5 bg\nsignal\ncancel 4\nrelease 4\nsettle\nsignal\nsettle\nwait 6 can hold\nwait 7 bg\nsignal\ncancel 6\nsettle\nbroadcast\nsettle",
		// signal with no waiter is not remembered
		"new\nsignal\nbroadcast\nwait 1 bg\nsettle\nsignal\nsettle",
		// timeouts
		"new\nwait 1 to0\nwait 2 to100\nwait 3 bg\nsettle\nsignal\nsettle",
	}
	for _, c := range corpus {
		for _, l := range strings.Split(c, "\n") {
			out.Line("%s", l)
		}
	}
	cases := 1000
	if tier == "thorough" {
		cases = 6000
	}
	for i := 0; i < cases; i++ {
		switch p := g.r.Intn(100); {
		case p < 10:
			g.pinned()
		case p < 30:
			g.handoff()
		case p < 45:
			g.timeouts()
		case p < 60:
			g.races()
		case p < 72:
			g.broadcasts()
		case p < 84:
			g.reuse()
		default:
			g.random()
		}
	}
}

// ---------------------------------------------------------------------------------------------
// execution

type vctx struct {
	done   chan struct{}
	ended  atomic.Bool
	once   sync.Once
	errs   *atomic.Int64 // Err() calls = ctx arm taken
	nilDon bool
	err    *ctxEnded // THIS context's error: a value no other context (and no other code) can produce
}

// ctxEnded is the error of one particular context.  "Wait returns ... with its context's error" is
// observed by identity (errors.Is along the unwrap chain, so a wrapped ctx.Err() still counts), never
// by wording; like the errors of package context it matches context.Canceled / DeadlineExceeded.
type ctxEnded struct {
	waiter   int
	deadline bool
}

func (e *ctxEnded) Error() string { return "context of waiter " + strconv.Itoa(e.waiter) + " ended" }
func (e *ctxEnded) Is(target error) bool {
	if e.deadline {
		return target == context.DeadlineExceeded
	}
	return target == context.Canceled
}

func (c *vctx) Deadline() (time.Time, bool) { return time.Time{}, false }
func (c *vctx) Done() <-chan struct{} {
	if c.nilDon {
		return nil
	}
	return c.done
}
func (c *vctx) Err() error {
	if c.errs != nil {
		c.errs.Add(1)
	}
	if c.ended.Load() {
		if c.err != nil {
			return c.err
		}
		return context.Canceled
	}
	return nil
}
func (c *vctx) Value(any) any { return nil }
func (c *vctx) end() {
	c.once.Do(func() {
		c.ended.Store(true)
		close(c.done)
	})
}

const (
	stNew int32 = iota
	stInWait
	stUnlocked // Wait has called L.Unlock()
	stReturned // Wait returned, result recorded
	stDone     // released L, goroutine finished
	stPanic
)

type waiter struct {
	id       int
	kind     string
	ctx      *vctx
	hold     bool
	relCh    chan struct{}
	relOnce  sync.Once
	unlocked chan struct{} // closed when Wait called L.Unlock (or the waiter finished/panicked before)
	unlOnce  sync.Once
	state    atomic.Int32
	goid     atomic.Int64
	res      string // "nil" | "err" (= this waiter's ctx.Err(), possibly wrapped) | "errother" (any other error); written before state=stReturned
	heldL    bool
	panicMsg string
	timerSet bool
	fired    atomic.Bool
	frozen   atomic.Bool // currently blocked in the gate
	ch       chan struct{}
	tokened  bool // the harness knows a token was sent to this waiter while it was frozen
	gone     bool // controller has seen it done
}

func (w *waiter) release() { w.relOnce.Do(func() { close(w.relCh) }) }
func (w *waiter) markUnlocked() {
	w.unlOnce.Do(func() { close(w.unlocked) })
}

type gateLocker struct {
	mu     sync.Mutex
	holder atomic.Int64 // goid of the goroutine whose Lock() returned last, 0 after Unlock
	cs     *caseState
}

func goid() int64 {
	var buf [64]byte
	n := runtime.Stack(buf[:], false)
	// "goroutine 123 ["
	s := string(buf[:n])
	s = strings.TrimPrefix(s, "goroutine ")
	if i := strings.IndexByte(s, ' '); i > 0 {
		v, _ := strconv.ParseInt(s[:i], 10, 64)
		return v
	}
	return -1
}

func (g *gateLocker) Lock() {
	g.mu.Lock()
	g.holder.Store(goid())
}

func (g *gateLocker) Unlock() {
	id := g.holder.Load()
	var w *waiter
	if v, ok := g.cs.byGoid.Load(id); ok {
		w = v.(*waiter)
	}
	first := w != nil && w.state.Load() == stInWait
	if first {
		// still holding L: nobody can have enqueued after this waiter
		w.ch = syncx.VerifCondBackChan(g.cs.c)
		g.cs.orderMu.Lock()
		g.cs.order = append(g.cs.order, w)
		g.cs.orderMu.Unlock()
	}
	g.holder.Store(0)
	g.mu.Unlock()
	if first {
		if w.hold {
			w.frozen.Store(true)
		}
		w.state.Store(stUnlocked)
		w.markUnlocked()
		if w.hold {
			<-w.relCh
			w.frozen.Store(false)
		}
	}
}

type caseState struct {
	c       *syncx.Cond
	L       *gateLocker
	ws      map[int]*waiter
	ids     []int
	byGoid  sync.Map
	orderMu sync.Mutex
	order   []*waiter // waiters in the order they enqueued
	counter int       // plain variable, only touched while holding L
	hadBc   bool      // a Broadcast has been called on this Cond
	errs    atomic.Int64
	seenCh  map[chan struct{}]bool
}

type stats struct {
	Ops            map[string]int `json:"ops"`
	Results        map[string]int `json:"results"`
	CtxKinds       map[string]int `json:"ctx_kinds"`
	Cases          int            `json:"cases"`
	Lines          int            `json:"lines"`
	Distinct       int            `json:"distinct_state_op_pairs"`
	Waits          int            `json:"waits"`
	CtxArmTaken    int64          `json:"ctx_arm_taken"`
	HandoffCertain int            `json:"handoff_or_drop_certain"`
	RecvArmWonRace int            `json:"signalled_and_ended_returned_nil"`
	NodeReused     int            `json:"waits_on_reused_node"`
	AfterBcast     int            `json:"waits_after_a_broadcast_on_the_same_cond"`
	AfterBcastRe   int            `json:"waits_after_a_broadcast_on_a_reused_node"`
	NodeKnown      int            `json:"waits_with_identified_node"`
	MaxParked      int            `json:"max_list_len"`
	Hangs          int            `json:"hangs"`
	SettleMaxMs    int64          `json:"settle_max_ms"`
}

var st = stats{Ops: map[string]int{}, Results: map[string]int{}, CtxKinds: map[string]int{}}
var distinct = map[string]bool{}

func newCase() *caseState {
	cs := &caseState{ws: map[int]*waiter{}, seenCh: map[chan struct{}]bool{}}
	cs.L = &gateLocker{cs: cs}
	cs.c = syncx.NewCond(cs.L)
	return cs
}

func (cs *caseState) teardown() {
	if cs == nil {
		return
	}
	for _, id := range cs.ids {
		w := cs.ws[id]
		w.release()
		w.ctx.end()
	}
	cs.guarded(func() { cs.c.Broadcast() })
	cs.account()
}

// account folds the finished waiters of a case into the statistics
func (cs *caseState) account() {
	for _, id := range cs.ids {
		w := cs.ws[id]
		if w.tokened && w.state.Load() >= stReturned && w.state.Load() != stPanic {
			if w.res == "err" {
				st.HandoffCertain++
			} else if w.ctx.ended.Load() {
				st.RecvArmWonRace++
			}
		}
	}
	st.CtxArmTaken += cs.errs.Load()
}

func (cs *caseState) body(w *waiter) {
	defer func() {
		if r := recover(); r != nil {
			w.panicMsg = strings.ReplaceAll(fmt.Sprint(r), " ", "_")
			w.state.Store(stPanic)
			w.markUnlocked()
		}
	}()
	id := goid()
	w.goid.Store(id)
	cs.byGoid.Store(id, w)
	cs.L.Lock()
	w.state.Store(stInWait)
	err := cs.c.Wait(w.ctx)
	w.heldL = cs.L.holder.Load() == id
	if err == nil {
		w.res = "nil"
	} else if errors.Is(err, error(w.ctx.err)) {
		// the value only this context's Err() returns, and only once the context has ended
		w.res = "err"
	} else {
		// some other error: another context's, a constant such as context.DeadlineExceeded, a fresh one …
		w.res = "errother"
	}
	if w.heldL {
		cs.counter++ // plain access: a data race here (thorough tier, -race) means L is not held
	}
	w.state.Store(stReturned)
	w.markUnlocked()
	if w.heldL {
		cs.L.Unlock()
	}
	w.state.Store(stDone)
}

func parseKind(k string) (kind string, us int, ok bool) {
	switch {
	case k == "bg" || k == "bgn" || k == "can" || k == "exp":
		return k, 0, true
	case strings.HasPrefix(k, "to"):
		v, err := strconv.Atoi(k[2:])
		if err != nil || v < 0 {
			return "", 0, false
		}
		return "to", v, true
	}
	return "", 0, false
}

func (cs *caseState) startWait(id int, kindArg string, hold bool) string {
	if _, dup := cs.ws[id]; dup {
		return "noop"
	}
	kind, us, ok := parseKind(kindArg)
	if !ok {
		return "noop"
	}
	w := &waiter{id: id, kind: kind, hold: hold, relCh: make(chan struct{}), unlocked: make(chan struct{})}
	w.ctx = &vctx{done: make(chan struct{}), errs: &cs.errs, nilDon: kind == "bgn", err: &ctxEnded{waiter: id, deadline: kind == "to"}}
	cs.ws[id] = w
	cs.ids = append(cs.ids, id)
	st.Waits++
	st.CtxKinds[kind]++
	switch kind {
	case "exp":
		w.ctx.end()
	case "to":
		w.timerSet = true
		time.AfterFunc(time.Duration(us)*time.Microsecond, func() {
			w.ctx.end()
			w.fired.Store(true)
		})
	}
	go cs.body(w)
	select {
	case <-w.unlocked:
	case <-time.After(hangBound):
		return "hang"
	}
	if w.state.Load() == stPanic {
		return "panic:" + w.panicMsg
	}
	if cs.hadBc {
		st.AfterBcast++
	}
	if w.ch != nil {
		st.NodeKnown++
		if cs.seenCh[w.ch] {
			st.NodeReused++
			if cs.hadBc {
				st.AfterBcastRe++
			}
		}
		cs.seenCh[w.ch] = true
	}
	return "ok"
}

// noteTokens: the controller is about to run `signal` (all=false) or `broadcast` (all=true) by itself.
// If the front of the enqueue order is a frozen waiter (it cannot have left the list) and everybody
// before it is known to be gone, the token certainly lands in that waiter's channel.
func (cs *caseState) noteTokens(all bool) {
	cs.orderMu.Lock()
	defer cs.orderMu.Unlock()
	for len(cs.order) > 0 {
		w := cs.order[0]
		if w.state.Load() == stDone {
			cs.order = cs.order[1:]
			continue
		}
		if w.tokened {
			cs.order = cs.order[1:]
			continue
		}
		if !w.frozen.Load() {
			return
		}
		w.tokened = true
		cs.order = cs.order[1:]
		if !all {
			return
		}
	}
}

func (cs *caseState) doOp(op string) {
	switch {
	case op == "signal":
		cs.c.Signal()
	case op == "broadcast":
		cs.c.Broadcast()
	case op == "lsignal": // Signal while the caller holds c.L (explicitly allowed by the documentation)
		cs.L.Lock()
		cs.c.Signal()
		cs.L.Unlock()
	case op == "lbroadcast":
		cs.L.Lock()
		cs.c.Broadcast()
		cs.L.Unlock()
	case strings.HasPrefix(op, "cancel:"):
		if id, err := strconv.Atoi(op[7:]); err == nil {
			if w := cs.ws[id]; w != nil {
				w.ctx.end()
			}
		}
	case strings.HasPrefix(op, "release:"):
		if id, err := strconv.Atoi(op[8:]); err == nil {
			if w := cs.ws[id]; w != nil {
				w.release()
			}
		}
	}
}

// guarded runs a call that must not block; "hang" if it does not return within a generous bound
func (cs *caseState) guarded(f func()) string {
	done := make(chan string, 1)
	go func() { done <- vlib.Catch(f) }()
	select {
	case p := <-done:
		if p != "" {
			return p
		}
		return "ok"
	case <-time.After(hangBound):
		return "hang"
	}
}

// generous bound after which a call that must return / a settle that must quiesce is reported as `hang`
var hangBound = 10 * time.Second

var spinSink atomic.Int64

func spin(n int) {
	for i := 0; i < n*20; i++ {
		spinSink.Add(1)
	}
}

func (cs *caseState) race(a, b string, skew int) string {
	var wg sync.WaitGroup
	start := make(chan struct{})
	var pa, pb string
	wg.Add(2)
	go func() {
		defer wg.Done()
		<-start
		pa = vlib.Catch(func() { cs.doOp(a) })
	}()
	go func() {
		defer wg.Done()
		<-start
		spin(skew)
		pb = vlib.Catch(func() { cs.doOp(b) })
	}()
	runtime.Gosched()
	close(start)
	done := make(chan struct{})
	go func() { wg.Wait(); close(done) }()
	select {
	case <-done:
	case <-time.After(hangBound):
		return "hang"
	}
	if pa != "" {
		return pa
	}
	if pb != "" {
		return pb
	}
	return "ok"
}

// goroutine states of all goroutines, from one consistent (stop-the-world) snapshot
func goroutineStates() map[int64]string {
	buf := make([]byte, 1<<16)
	for {
		n := runtime.Stack(buf, true)
		if n < len(buf) {
			buf = buf[:n]
			break
		}
		buf = make([]byte, 2*len(buf))
	}
	out := map[int64]string{}
	for _, blk := range strings.Split(string(buf), "\n\n") {
		if !strings.HasPrefix(blk, "goroutine ") {
			continue
		}
		hdr := blk
		if i := strings.IndexByte(blk, '\n'); i >= 0 {
			hdr = blk[:i]
		}
		rest := hdr[len("goroutine "):]
		sp := strings.IndexByte(rest, ' ')
		if sp < 0 {
			continue
		}
		id, err := strconv.ParseInt(rest[:sp], 10, 64)
		if err != nil {
			continue
		}
		lb := strings.IndexByte(rest, '[')
		rb := strings.LastIndexByte(rest, ']')
		if lb < 0 || rb < lb {
			continue
		}
		out[id] = rest[lb+1 : rb]
	}
	return out
}

func (cs *caseState) settle() string {
	t0 := time.Now()
	for _, id := range cs.ids {
		cs.ws[id].release()
	}
	deadline := t0.Add(hangBound)
	hang := 0
	for {
		ready := true
		for _, id := range cs.ids {
			w := cs.ws[id]
			if w.timerSet && !w.fired.Load() {
				ready = false
			}
		}
		if ready {
			// Order matters: first note who has finished, THEN take the (stop-the-world, consistent)
			// snapshot of goroutine states.  A waiter that had finished before the snapshot has had all
			// its effects (e.g. a forwarded token readying another waiter) before it; a waiter that had
			// not must itself be parked in the select in the snapshot.  (Reading the flags after the
			// snapshot would let a waiter that forwards a token and finishes in between go unnoticed.)
			finished := make(map[int]bool, len(cs.ids))
			for _, id := range cs.ids {
				s := cs.ws[id].state.Load()
				finished[id] = s == stDone || s == stPanic
			}
			states := goroutineStates()
			for _, id := range cs.ids {
				if finished[id] {
					continue
				}
				gs, ok := states[cs.ws[id].goid.Load()]
				if !ok || !(gs == "select" || strings.HasPrefix(gs, "select,")) {
					ready = false
					break
				}
			}
		}
		if ready {
			break
		}
		if time.Now().After(deadline) {
			hang = 1
			break
		}
		if time.Since(t0) < 2*time.Millisecond {
			runtime.Gosched()
		} else {
			time.Sleep(50 * time.Microsecond)
		}
	}
	if ms := time.Since(t0).Milliseconds(); ms > st.SettleMaxMs {
		st.SettleMaxMs = ms
	}
	st.Hangs += hang
	var parts []string
	ids := append([]int(nil), cs.ids...)
	sort.Ints(ids)
	for _, id := range ids {
		w := cs.ws[id]
		var r string
		switch w.state.Load() {
		case stDone:
			r = w.res
			if !w.heldL {
				r += "!"
			}
		case stPanic:
			r = "panic:" + w.panicMsg
		default:
			r = "parked"
			if hang == 1 {
				r = "stuck"
				if gs := goroutineStates()[w.goid.Load()]; gs == "select" || strings.HasPrefix(gs, "select,") {
					r = "parked"
				}
			}
		}
		st.Results[strings.SplitN(r, ":", 2)[0]]++
		parts = append(parts, fmt.Sprintf("%d:%s", id, r))
	}
	rs := "-"
	if len(parts) > 0 {
		rs = strings.Join(parts, ",")
	}
	n, dirty := -1, 0
	lfree := 0
	if hang == 0 {
		n, dirty = syncx.VerifCondListLen(cs.c)
		if cs.L.mu.TryLock() {
			lfree = 1
			cs.L.mu.Unlock()
		}
	}
	if n > st.MaxParked {
		st.MaxParked = n
	}
	cnt := -1
	if lfree == 1 {
		cnt = cs.counter
	}
	if n == -9 { // black-box stub hooks: no white-box fields
		return fmt.Sprintf("r=%s len=na dirty=na lfree=%d cnt=%d hang=%d", rs, lfree, cnt, hang)
	}
	return fmt.Sprintf("r=%s len=%d dirty=%d lfree=%d cnt=%d hang=%d", rs, n, dirty, lfree, cnt, hang)
}

func (cs *caseState) summary() string {
	out, held, ended := 0, 0, 0
	for _, id := range cs.ids {
		w := cs.ws[id]
		if s := w.state.Load(); s != stDone && s != stPanic {
			out++
			if w.frozen.Load() {
				held++
			}
			if w.ctx.ended.Load() {
				ended++
			}
		}
	}
	return fmt.Sprintf("%d/%d/%d", out, held, ended)
}

// lineOut writes every trace line through immediately: if the implementation crashes the process
// (fatal runtime errors cannot be recovered) the trace on disk still identifies the case.
type lineOut struct{ f *os.File }

func newLineOut(path string) *lineOut {
	f, err := os.Create(path)
	if err != nil {
		panic(err)
	}
	return &lineOut{f}
}
func (o *lineOut) Line(format string, a ...any) { fmt.Fprintf(o.f, format+"\n", a...) }
func (o *lineOut) Close()                        { o.f.Close() }

func run(opsPath, outPath, statsPath string) {
	// sync.Pool is emptied by the garbage collector; the scenarios want pooled wait nodes to survive
	// from one round to the next, and the process is short-lived and small.
	debug.SetGCPercent(-1)
	lines := vlib.ReadLines(opsPath)
	out := newLineOut(outPath)
	defer out.Close()
	// Outcomes depend on the schedule (which select arm wins is the runtime's coin).  A small input —
	// a shrinking candidate or a replay — is therefore executed repeatedly, so that a failure that
	// needs the unlucky arm is reproduced with overwhelming probability; the trace then contains every
	// repetition (each starts with its `new` line).
	repeated := false
	if n := len(lines); n > 0 && n <= 60 {
		one := lines
		for rep := 1; rep < 40; rep++ {
			lines = append(lines, one...)
		}
		repeated = true
		hangBound = 3 * time.Second // shrinking candidates / replays: a hang is re-confirmed, not discovered
	}
	var cs *caseState
	t0 := time.Now()
	sawHang := false
	hangs := 0
	for i, line := range lines {
		if repeated && i > 0 && strings.HasPrefix(line, "new") && (sawHang || time.Since(t0) > 20*time.Second) {
			break // repetitions of a small input: stop once a hang was seen or time is up
		}
		if hangs >= 2 && strings.HasPrefix(line, "new") {
			break // a hanging implementation costs 10 s per observation: two reports are enough
		}
		f := strings.Fields(line)
		if len(f) == 0 {
			continue
		}
		st.Lines++
		st.Ops[f[0]]++
		if f[0] == "new" {
			cs.teardown()
			cs = newCase()
			st.Cases++
			out.Line("%s => ok", line)
			continue
		}
		if cs == nil {
			cs = newCase()
		}
		before := cs.summary()
		obs := "ok"
		p := vlib.Catch(func() {
			switch f[0] {
			case "wait":
				if len(f) < 3 {
					obs = "noop"
					return
				}
				id, err := strconv.Atoi(f[1])
				if err != nil {
					obs = "noop"
					return
				}
				obs = cs.startWait(id, f[2], len(f) > 3 && f[3] == "hold")
			case "release", "cancel":
				obs = "noop"
				if len(f) == 2 {
					if id, err := strconv.Atoi(f[1]); err == nil && cs.ws[id] != nil {
						cs.doOp(f[0] + ":" + f[1])
						obs = "ok"
					}
				}
			case "signal":
				cs.noteTokens(false)
				obs = cs.guarded(func() { cs.c.Signal() })
			case "broadcast":
				cs.hadBc = true
				cs.noteTokens(true)
				obs = cs.guarded(func() { cs.c.Broadcast() })
			case "lsignal", "lbroadcast":
				op := f[0]
				cs.hadBc = cs.hadBc || op == "lbroadcast"
				obs = cs.guarded(func() { cs.doOp(op) })
			case "race":
				if len(f) != 4 {
					obs = "noop"
					return
				}
				skew, _ := strconv.Atoi(f[3])
				obs = cs.race(f[1], f[2], skew)
			case "sleep":
				us, _ := strconv.Atoi(f[1])
				if us > 5000 {
					us = 5000
				}
				time.Sleep(time.Duration(us) * time.Microsecond)
			case "len":
				n, dirty := syncx.VerifCondListLen(cs.c)
				obs = fmt.Sprintf("len=%d dirty=%d", n, dirty)
				if n == -9 {
					obs = "len=na dirty=na"
				}
			case "settle":
				obs = cs.settle()
			default:
				obs = "noop"
			}
		})
		if p != "" {
			obs = p
		}
		out.Line("%s => %s", line, obs)
		if strings.Contains(obs, "hang") && !strings.Contains(obs, "hang=0") {
			sawHang = true
			hangs++
		}
		after := cs.summary()
		if after != before || f[0] == "wait" {
			distinct[before+"|"+f[0]] = true
		}
	}
	cs.teardown()
	st.Distinct = len(distinct)
	if statsPath != "" {
		b, _ := json.MarshalIndent(st, "", " ")
		_ = os.WriteFile(statsPath, b, 0o644)
	}
}

func main() {
	mode := flag.String("mode", "", "gen|run")
	tier := flag.String("tier", "quick", "quick|thorough")
	outp := flag.String("out", "", "output file")
	ops := flag.String("ops", "", "ops file (run)")
	statsp := flag.String("stats", "", "stats file (run)")
	flag.Parse()
	switch *mode {
	case "gen":
		out := vlib.Create(*outp)
		generate(*tier, out)
		out.Close()
	case "run":
		run(*ops, *outp, *statsp)
	default:
		fmt.Fprintln(os.Stderr, "usage: cond -mode gen|run ...")
		os.Exit(2)
	}
}
