// minigohm: Go -> Lean translator for mapx/hashmap.go (fifth MiniGo instance, lean/Ekit/MiniGo/LangHM.lean).
//
// Like harness/minigoll it re-reads the CURRENT source on every run and prints the functions of the file as terms of a deep
// embedding; all semantics lives in the Lean interpreter.  Subset: methods of the map type (receiver = implicit state: the Go
// map field `hashmap` and the node pool `nodePool`), methods of the node type (receiver = argument 0) and the constructor;
// locals; `x := e`, `x = e`, `var x T`, `p.f = e`, `i++/i--` on locals; the comma-ok read `x, ok := m.hashmap[c]`,
// `m.hashmap[c] = e`, `delete(m.hashmap, c)`, `m.nodePool.Get()`, `m.nodePool.Put(e)`; if/else-if/else, `for cond {}`, return with
// 0-2 results, continue/break; nil, integer literals, true/false, `== != && || ! +`, field reads, `a.Code()`, `a.Equals(b)`,
// calls of the file's functions with up to two arguments, `&node{…}`, and the constructor's
// `return &HashMap{nodePool: syncx.NewPool(func() *node { … }), hashmap: make(map[uint64]*node, size)}` — the func literal becomes
// the procedure `poolNew` that `Get` runs when the pool hands out no pooled node.
// `Keys`, `Values` and `Len` are NOT translated: they range over the Go map, whose iteration order is the run time's, and assign
// nothing.  Anything else makes the translator FAIL (exit 3) = broken obligation.
//
//	minigohm -root <repo> -out <lean file>
package main

import (
	"flag"
	"fmt"
	"go/ast"
	"go/parser"
	"go/token"
	"os"
	"path/filepath"
	"sort"
	"strings"
)

func fail(format string, a ...any) {
	fmt.Fprintf(os.Stderr, "minigohm: unsupported: "+format+"\n", a...)
	os.Exit(3)
}

var skip = map[string]bool{"Keys": true, "Values": true, "Len": true}

var fields = map[string]bool{"key": true, "value": true, "next": true}

var recvFields = map[string]bool{"hashmap": true, "nodePool": true}

const factoryName = "poolNew"

type fn struct {
	decl     *ast.FuncDecl
	name     string
	recvKind string // "tree", "node", ""
	recvName string
}

type tr struct {
	fset     *token.FileSet
	treeT    string
	nodeT    string
	consts   map[string]string // Red/Black -> ".bool false"
	errs     map[string]int
	fns      map[string]*fn
	cur      *fn
	vars     map[string]int
	varNames []string
	scopes   []map[string]bool // names declared in the blocks that are open right now
	factory  *ast.FuncLit      // the func literal given to syncx.NewPool
}

func (t *tr) pos(n ast.Node) string { return t.fset.Position(n.Pos()).String() }

func (t *tr) v(name string, declare bool) int {
	if i, ok := t.vars[name]; ok {
		return i
	}
	if !declare {
		fail("%s: unknown identifier %s", t.cur.name, name)
	}
	i := len(t.varNames)
	t.vars[name] = i
	t.varNames = append(t.varNames, name)
	return i
}

func baseTypeName(e ast.Expr) string {
	switch x := e.(type) {
	case *ast.StarExpr:
		return baseTypeName(x.X)
	case *ast.IndexListExpr:
		return baseTypeName(x.X)
	case *ast.IndexExpr:
		return baseTypeName(x.X)
	case *ast.Ident:
		return x.Name
	}
	return ""
}

func calleeName(e ast.Expr) (ast.Expr, string) { // (receiver expr or nil, name)
	switch x := e.(type) {
	case *ast.SelectorExpr:
		return x.X, x.Sel.Name
	case *ast.Ident:
		return nil, x.Name
	case *ast.IndexListExpr:
		return calleeName(x.X)
	case *ast.IndexExpr:
		return calleeName(x.X)
	case *ast.ParenExpr:
		return calleeName(x.X)
	}
	return nil, ""
}

func (t *tr) isTreeRecv(e ast.Expr) bool {
	id, ok := e.(*ast.Ident)
	return ok && t.cur.recvKind == "tree" && id.Name == t.cur.recvName
}

// `m.<name>` with m the receiver of the current method
func (t *tr) isRecvField(e ast.Expr, name string) bool {
	if e == nil {
		return false
	}
	sel, ok := e.(*ast.SelectorExpr)
	return ok && t.isTreeRecv(sel.X) && sel.Sel.Name == name
}

func (t *tr) call(name string, args []string, at ast.Node) string {
	f, ok := t.fns[name]
	if !ok {
		fail("%s: call of %s, which is not a translated function of the file", t.pos(at), name)
	}
	want := f.decl.Type.Params.NumFields()
	if f.recvKind == "node" {
		want++
	}
	if want != len(args) {
		fail("%s: call of %s with %d arguments (want %d)", t.pos(at), name, len(args), want)
	}
	switch len(args) {
	case 0:
		return fmt.Sprintf("(.call0 .%s)", name)
	case 1:
		return fmt.Sprintf("(.call1 .%s %s)", name, args[0])
	case 2:
		return fmt.Sprintf("(.call2 .%s %s %s)", name, args[0], args[1])
	}
	fail("%s: more than two arguments", t.pos(at))
	return ""
}

func (t *tr) expr(e ast.Expr) string {
	switch x := e.(type) {
	case *ast.ParenExpr:
		return t.expr(x.X)
	case *ast.Ident:
		switch x.Name {
		case "nil":
			return ".nil"
		case "true":
			return "(.bool true)"
		case "false":
			return "(.bool false)"
		}
		if c, ok := t.consts[x.Name]; ok {
			return c
		}
		if c, ok := t.errs[x.Name]; ok {
			return fmt.Sprintf("(.err %d)", c)
		}
		if t.isTreeRecv(x) {
			fail("%s: the tree receiver used as a value", t.pos(x))
		}
		return fmt.Sprintf("(.var %d)", t.v(x.Name, false))
	case *ast.BasicLit:
		if x.Kind != token.INT {
			fail("%s: literal %s", t.pos(x), x.Value)
		}
		return fmt.Sprintf("(.int %s)", x.Value)
	case *ast.SelectorExpr:
		if t.isTreeRecv(x.X) {
			fail("%s: the map field %s used as a value", t.pos(x), x.Sel.Name)
		}
		if !fields[x.Sel.Name] {
			fail("%s: selector .%s", t.pos(x), x.Sel.Name)
		}
		return fmt.Sprintf("(.field %s .%s)", t.expr(x.X), x.Sel.Name)
	case *ast.CallExpr:
		recv, name := calleeName(x.Fun)
		if name == "" {
			fail("%s: call form", t.pos(x))
		}
		if t.isRecvField(recv, "nodePool") {
			if name == "Get" && len(x.Args) == 0 {
				if t.factory == nil {
					fail("%s: nodePool.Get() but the file has no syncx.NewPool(func() …) factory", t.pos(x))
				}
				return fmt.Sprintf("(.poolGet .%s)", factoryName)
			}
			fail("%s: nodePool.%s in an expression", t.pos(x), name)
		}
		if recv != nil && !t.isTreeRecv(recv) && name == "Code" && len(x.Args) == 0 {
			return fmt.Sprintf("(.code %s)", t.expr(recv))
		}
		if recv != nil && !t.isTreeRecv(recv) && name == "Equals" && len(x.Args) == 1 {
			return fmt.Sprintf("(.equals %s %s)", t.expr(recv), t.expr(x.Args[0]))
		}
		if x.Ellipsis.IsValid() {
			fail("%s: call with a spread argument", t.pos(x))
		}
		var args []string
		if recv != nil && t.isTreeRecv(recv) {
			if f, ok := t.fns[name]; !ok || f.recvKind != "tree" {
				fail("%s: %s is not a method of the tree type", t.pos(x), name)
			}
		} else if recv != nil {
			if f, ok := t.fns[name]; !ok || f.recvKind != "node" {
				fail("%s: %s is not a method of the node type", t.pos(x), name)
			}
			args = append(args, t.expr(recv))
		} else {
			if f, ok := t.fns[name]; !ok || f.recvKind != "" {
				fail("%s: %s is not a plain function of the file", t.pos(x), name)
			}
		}
		for _, a := range x.Args {
			args = append(args, t.expr(a))
		}
		return t.call(name, args, x)
	case *ast.BinaryExpr:
		ops := map[token.Token]string{token.EQL: "eq", token.NEQ: "ne", token.LAND: "and", token.LOR: "or", token.ADD: "add"}
		op, ok := ops[x.Op]
		if !ok {
			fail("%s: operator %s", t.pos(x), x.Op)
		}
		return fmt.Sprintf("(.%s %s %s)", op, t.expr(x.X), t.expr(x.Y))
	case *ast.UnaryExpr:
		switch x.Op {
		case token.SUB:
			if bl, ok := x.X.(*ast.BasicLit); ok && bl.Kind == token.INT {
				return fmt.Sprintf("(.int (-%s))", bl.Value)
			}
			fail("%s: unary minus of a non-literal", t.pos(x))
		case token.NOT:
			return fmt.Sprintf("(.not %s)", t.expr(x.X))
		case token.AND:
			cl, ok := x.X.(*ast.CompositeLit)
			if !ok || baseTypeName(cl.Type) != t.nodeT {
				fail("%s: & of something that is not a %s literal", t.pos(x), t.nodeT)
			}
			vals := map[string]string{"key": "(.int 0)", "value": "(.int 0)", "next": ".nil"}
			for _, el := range cl.Elts {
				kv, ok := el.(*ast.KeyValueExpr)
				if !ok {
					fail("%s: positional composite literal", t.pos(el))
				}
				k, ok := kv.Key.(*ast.Ident)
				if !ok || !fields[k.Name] {
					fail("%s: literal key", t.pos(kv))
				}
				vals[k.Name] = t.expr(kv.Value)
			}
			return fmt.Sprintf("(.alloc %s %s %s)", vals["key"], vals["value"], vals["next"])
		}
		fail("%s: unary %s", t.pos(x), x.Op)
	}
	fail("%s: expression %T", t.pos(e), e)
	return ""
}

func seq(ss []string) string {
	if len(ss) == 0 {
		return ".skip"
	}
	if len(ss) == 1 {
		return ss[0]
	}
	return fmt.Sprintf("(.seq %s\n    %s)", ss[0], seq(ss[1:]))
}

func (t *tr) zeroOf(ty ast.Expr) string {
	if _, ok := ty.(*ast.StarExpr); ok {
		return ".nil"
	}
	if id, ok := ty.(*ast.Ident); ok {
		switch id.Name {
		case "int":
			return "(.int 0)"
		case "bool":
			return "(.bool false)"
		case "T", "ValType":
			return "(.int 0)" // keys and values are integers in the model
		}
	}
	fail("%s: zero value of this type", t.pos(ty))
	return ""
}

func (t *tr) assignTo(lhs ast.Expr, rhs string, define bool) string {
	switch l := lhs.(type) {
	case *ast.Ident:
		if l.Name == "_" {
			fail("%s: blank assignment", t.pos(l))
		}
		if define {
			// a name may be declared again in a sibling block (the old value is dead there); declaring it while an
			// enclosing declaration is still in scope would be shadowing, which the single variable table cannot express
			for _, sc := range t.scopes {
				if sc[l.Name] {
					fail("%s: %s declared while already in scope in %s (shadowing is outside the subset)", t.pos(l), l.Name, t.cur.name)
				}
			}
			t.scopes[len(t.scopes)-1][l.Name] = true
		}
		return fmt.Sprintf("(.assign %d %s)", t.v(l.Name, define), rhs)
	case *ast.SelectorExpr:
		if t.isTreeRecv(l.X) {
			fail("%s: assignment to the map field %s", t.pos(l), l.Sel.Name)
		}
		if !fields[l.Sel.Name] {
			fail("%s: field %s", t.pos(l), l.Sel.Name)
		}
		return fmt.Sprintf("(.setField %s .%s %s)", t.expr(l.X), l.Sel.Name, rhs)
	case *ast.IndexExpr:
		// `m.hashmap[c] = e`: Go evaluates the index operand, then the right-hand side; the interpreter's mapSet does the same
		if define || !t.isRecvField(l.X, "hashmap") {
			fail("%s: index assignment to something other than the Go map of the receiver", t.pos(l))
		}
		return fmt.Sprintf("(.mapSet %s %s)", t.expr(l.Index), rhs)
	}
	fail("%s: assignment target", t.pos(lhs))
	return ""
}

func (t *tr) stmt(s ast.Stmt) string {
	switch x := s.(type) {
	case *ast.BlockStmt:
		t.scopes = append(t.scopes, map[string]bool{})
		var ss []string
		for _, y := range x.List {
			ss = append(ss, t.stmt(y))
		}
		t.scopes = t.scopes[:len(t.scopes)-1]
		return seq(ss)
	case *ast.AssignStmt:
		if len(x.Lhs) == 2 && len(x.Rhs) == 1 && x.Tok == token.DEFINE {
			// the comma-ok read `root, ok := m.hashmap[c]`
			ie, isIdx := x.Rhs[0].(*ast.IndexExpr)
			l1, ok1 := x.Lhs[0].(*ast.Ident)
			l2, ok2 := x.Lhs[1].(*ast.Ident)
			if !isIdx || !ok1 || !ok2 || !t.isRecvField(ie.X, "hashmap") || l1.Name == "_" || l2.Name == "_" || l1.Name == l2.Name {
				fail("%s: two-valued definition that is not `x, ok := m.hashmap[c]`", t.pos(x))
			}
			c := t.expr(ie.Index)
			for _, l := range []*ast.Ident{l1, l2} {
				for _, sc := range t.scopes {
					if sc[l.Name] {
						fail("%s: %s declared while already in scope in %s (shadowing is outside the subset)", t.pos(l), l.Name, t.cur.name)
					}
				}
				t.scopes[len(t.scopes)-1][l.Name] = true
			}
			return fmt.Sprintf("(.mapRead %d %d %s)", t.v(l1.Name, true), t.v(l2.Name, true), c)
		}
		if len(x.Lhs) != 1 || len(x.Rhs) != 1 {
			fail("%s: multiple assignment", t.pos(x))
		}
		if x.Tok != token.DEFINE && x.Tok != token.ASSIGN {
			fail("%s: assignment operator %s", t.pos(x), x.Tok)
		}
		// Go: operands of the left-hand side are evaluated before the right-hand side; the interpreter's
		// setField does the same
		rhs := t.expr(x.Rhs[0])
		return t.assignTo(x.Lhs[0], rhs, x.Tok == token.DEFINE)
	case *ast.DeclStmt:
		gd, ok := x.Decl.(*ast.GenDecl)
		if !ok || gd.Tok != token.VAR {
			fail("%s: declaration", t.pos(x))
		}
		var ss []string
		for _, sp := range gd.Specs {
			vs := sp.(*ast.ValueSpec)
			if len(vs.Values) != 0 || vs.Type == nil {
				fail("%s: var with initialiser", t.pos(vs))
			}
			for _, n := range vs.Names {
				ss = append(ss, t.assignTo(n, t.zeroOf(vs.Type), true))
			}
		}
		return seq(ss)
	case *ast.IncDecStmt:
		d := "1"
		if x.Tok == token.DEC {
			d = "(-1)"
		}
		if id, ok := x.X.(*ast.Ident); ok {
			return fmt.Sprintf("(.assign %d (.add (.var %d) (.int %s)))", t.v(id.Name, false), t.v(id.Name, false), d)
		}
		fail("%s: ++/-- on something other than a local", t.pos(x))
	case *ast.ExprStmt:
		if ce, ok := x.X.(*ast.CallExpr); ok {
			recv, name := calleeName(ce.Fun)
			if recv == nil && name == "delete" && len(ce.Args) == 2 && t.isRecvField(ce.Args[0], "hashmap") {
				return fmt.Sprintf("(.mapDelete %s)", t.expr(ce.Args[1]))
			}
			if t.isRecvField(recv, "nodePool") && name == "Put" && len(ce.Args) == 1 {
				return fmt.Sprintf("(.poolPut %s)", t.expr(ce.Args[0]))
			}
		}
		return fmt.Sprintf("(.expr %s)", t.expr(x.X))
	case *ast.IfStmt:
		var pre []string
		t.scopes = append(t.scopes, map[string]bool{})
		if x.Init != nil {
			pre = append(pre, t.stmt(x.Init))
		}
		c := t.expr(x.Cond)
		th := t.stmt(x.Body)
		el := ".skip"
		if x.Else != nil {
			el = t.stmt(x.Else)
		}
		t.scopes = t.scopes[:len(t.scopes)-1]
		return seq(append(pre, fmt.Sprintf("(.ite %s\n    %s\n    %s)", c, th, el)))
	case *ast.ForStmt:
		if x.Cond == nil {
			fail("%s: loop without condition", t.pos(x))
		}
		if x.Init == nil && x.Post == nil {
			return fmt.Sprintf("(.loop %s\n    %s)", t.expr(x.Cond), t.stmt(x.Body))
		}
		// `for init; cond; post { body }` = init; for cond { body; post } when the body has no `continue`
		hasContinue := false
		ast.Inspect(x.Body, func(n ast.Node) bool {
			if b, ok := n.(*ast.BranchStmt); ok && b.Tok == token.CONTINUE {
				hasContinue = true
			}
			return true
		})
		if hasContinue || x.Init == nil || x.Post == nil {
			fail("%s: three-clause loop with continue or a missing clause", t.pos(x))
		}
		t.scopes = append(t.scopes, map[string]bool{})
		init := t.stmt(x.Init)
		cond := t.expr(x.Cond)
		body := t.stmt(x.Body)
		post := t.stmt(x.Post)
		t.scopes = t.scopes[:len(t.scopes)-1]
		return fmt.Sprintf("(.seq %s\n    (.loop %s\n    (.seq %s\n    %s)))", init, cond, body, post)
	case *ast.ReturnStmt:
		switch len(x.Results) {
		case 0:
			return "(.ret .unit)"
		case 1:
			if ue, ok := x.Results[0].(*ast.UnaryExpr); ok && ue.Op == token.AND {
				if cl, ok := ue.X.(*ast.CompositeLit); ok && baseTypeName(cl.Type) == t.treeT {
					// the constructor: `return &HashMap{nodePool: syncx.NewPool(func() *node {…}), hashmap: make(map…, size)}`
					// initialises the receiver state, field by field in the order of the literal
					var ss []string
					seen := map[string]bool{}
					for _, el := range cl.Elts {
						kv, ok := el.(*ast.KeyValueExpr)
						if !ok {
							fail("%s: positional literal", t.pos(el))
						}
						k, ok := kv.Key.(*ast.Ident)
						if !ok || !recvFields[k.Name] || seen[k.Name] {
							fail("%s: literal key", t.pos(kv))
						}
						seen[k.Name] = true
						ce, ok := kv.Value.(*ast.CallExpr)
						if !ok {
							fail("%s: value of %s is not a call", t.pos(kv), k.Name)
						}
						_, cn := calleeName(ce.Fun)
						switch k.Name {
						case "nodePool":
							if cn != "NewPool" || len(ce.Args) != 1 || ce.Args[0] != ast.Expr(t.factory) {
								fail("%s: nodePool is not syncx.NewPool(func() *node {…})", t.pos(kv))
							}
							ss = append(ss, ".poolInit")
						case "hashmap":
							if cn != "make" || len(ce.Args) < 1 || len(ce.Args) > 2 {
								fail("%s: hashmap is not make(map[…]…, size)", t.pos(kv))
							}
							if _, isMap := ce.Args[0].(*ast.MapType); !isMap {
								fail("%s: hashmap is not a make of a map type", t.pos(kv))
							}
							size := "(.int 0)"
							if len(ce.Args) == 2 {
								size = t.expr(ce.Args[1])
							}
							ss = append(ss, fmt.Sprintf("(.mapInit %s)", size))
						}
					}
					if !seen["hashmap"] || !seen["nodePool"] {
						fail("%s: the constructor leaves hashmap or nodePool nil", t.pos(cl))
					}
					ss = append(ss, "(.ret .unit)")
					return seq(ss)
				}
			}
			return fmt.Sprintf("(.ret %s)", t.expr(x.Results[0]))
		case 2:
			return fmt.Sprintf("(.ret2 %s %s)", t.expr(x.Results[0]), t.expr(x.Results[1]))
		}
		fail("%s: return arity", t.pos(x))
	case *ast.BranchStmt:
		if x.Label != nil {
			fail("%s: labelled branch", t.pos(x))
		}
		switch x.Tok {
		case token.CONTINUE:
			return ".continue_"
		case token.BREAK:
			return ".break_"
		}
		fail("%s: branch %s", t.pos(x), x.Tok)
	case *ast.EmptyStmt:
		return ".skip"
	}
	fail("%s: statement %T", t.pos(s), s)
	return ""
}

func main() {
	root := flag.String("root", "", "repo root")
	out := flag.String("out", "", "Lean file to write")
	ns := flag.String("ns", "Ekit.Gen.HashMapGo", "namespace")
	file := flag.String("file", "mapx/hashmap.go", "source file")
	treeT := flag.String("tree", "HashMap", "map type")
	nodeT := flag.String("node", "node", "node type")
	flag.Parse()
	t := &tr{fset: token.NewFileSet(), treeT: *treeT, nodeT: *nodeT, consts: map[string]string{}, errs: map[string]int{}, fns: map[string]*fn{}}
	f, err := parser.ParseFile(t.fset, filepath.Join(*root, *file), nil, 0)
	if err != nil {
		fail("parse: %v", err)
	}
	// constants of the colour type and the package's error variables
	for _, d := range f.Decls {
		gd, ok := d.(*ast.GenDecl)
		if !ok {
			continue
		}
		for _, sp := range gd.Specs {
			vs, ok := sp.(*ast.ValueSpec)
			if !ok {
				continue
			}
			for i, n := range vs.Names {
				if i >= len(vs.Values) {
					continue
				}
				if gd.Tok == token.CONST {
					if id, ok := vs.Values[i].(*ast.Ident); ok && (id.Name == "true" || id.Name == "false") {
						t.consts[n.Name] = "(.bool " + id.Name + ")"
					} else {
						fail("constant %s is not a boolean literal", n.Name)
					}
				}
				if gd.Tok == token.VAR && n.Name == "_" {
					continue // interface-satisfaction assertion
				}
				if gd.Tok == token.VAR {
					if ce, ok := vs.Values[i].(*ast.CallExpr); ok {
						if _, nm := calleeName(ce.Fun); nm == "New" {
							t.errs[n.Name] = len(t.errs) + 1
							continue
						}
					}
					fail("package variable %s", n.Name)
				}
			}
		}
	}
	// functions
	var names []string
	for _, d := range f.Decls {
		fd, ok := d.(*ast.FuncDecl)
		if !ok || skip[fd.Name.Name] {
			continue
		}
		g := &fn{decl: fd, name: fd.Name.Name}
		if fd.Recv != nil && len(fd.Recv.List) == 1 {
			switch baseTypeName(fd.Recv.List[0].Type) {
			case *treeT:
				g.recvKind = "tree"
			case *nodeT:
				g.recvKind = "node"
			default:
				fail("method %s of an unknown receiver type", fd.Name.Name)
			}
			if len(fd.Recv.List[0].Names) == 1 {
				g.recvName = fd.Recv.List[0].Names[0].Name
			}
		}
		if _, dup := t.fns[g.name]; dup {
			fail("two functions named %s", g.name)
		}
		t.fns[g.name] = g
		names = append(names, g.name)
	}
	// the pool's factory: the one func literal given to `syncx.NewPool` becomes the procedure `poolNew`
	nFactories := 0
	ast.Inspect(f, func(n ast.Node) bool {
		ce, ok := n.(*ast.CallExpr)
		if !ok {
			return true
		}
		if _, nm := calleeName(ce.Fun); nm == "NewPool" {
			nFactories++
			if len(ce.Args) == 1 {
				if fl, ok := ce.Args[0].(*ast.FuncLit); ok && fl.Type.Params.NumFields() == 0 {
					t.factory = fl
				}
			}
		}
		return true
	})
	if nFactories > 1 || (nFactories == 1 && t.factory == nil) {
		fail("syncx.NewPool is called %d times / not with a parameterless func literal", nFactories)
	}
	if t.factory != nil {
		if _, dup := t.fns[factoryName]; dup {
			fail("a function of the file is called %s", factoryName)
		}
		t.fns[factoryName] = &fn{decl: &ast.FuncDecl{Name: ast.NewIdent(factoryName), Type: t.factory.Type, Body: t.factory.Body}, name: factoryName}
		names = append(names, factoryName)
	}
	sort.Strings(names)
	var b strings.Builder
	fmt.Fprintf(&b, "/- GENERATED by harness/minigohm from %s of the current tree — do not edit. -/\n", *file)
	fmt.Fprintf(&b, "import Ekit.MiniGo.LangHM\nnamespace %s\nopen Ekit.MiniGo.HM\n\n", *ns)
	fmt.Fprintf(&b, "inductive PName where\n")
	for _, n := range names {
		fmt.Fprintf(&b, "  | %s\n", n)
	}
	fmt.Fprintf(&b, "  deriving DecidableEq, Repr\n\n")
	errNames := make([]string, 0, len(t.errs))
	for n := range t.errs {
		errNames = append(errNames, n)
	}
	sort.Slice(errNames, func(i, j int) bool { return t.errs[errNames[i]] < t.errs[errNames[j]] })
	for _, n := range errNames {
		fmt.Fprintf(&b, "/-- error code of `%s` -/\ndef err_%s : Nat := %d\n", n, n, t.errs[n])
	}
	b.WriteString("\n")
	nparams := map[string]int{}
	for _, n := range names {
		g := t.fns[n]
		t.cur, t.vars, t.varNames = g, map[string]int{}, nil
		t.scopes = []map[string]bool{{}}
		if g.recvKind == "node" {
			if g.recvName == "" {
				fail("%s: unnamed node receiver", n)
			}
			t.v(g.recvName, true)
			t.scopes[0][g.recvName] = true
		}
		for _, p := range g.decl.Type.Params.List {
			if len(p.Names) == 0 {
				fail("%s: unnamed parameter", n)
			}
			for _, pn := range p.Names {
				if _, dup := t.vars[pn.Name]; dup {
					fail("%s: duplicate parameter", n)
				}
				t.v(pn.Name, true)
				t.scopes[0][pn.Name] = true
			}
		}
		nparams[n] = len(t.varNames)
		if g.decl.Type.Results != nil {
			for _, r := range g.decl.Type.Results.List {
				if len(r.Names) != 0 {
					fail("%s: named results", n)
				}
			}
		}
		body := t.stmt(g.decl.Body)
		fmt.Fprintf(&b, "/-- `%s`; variables: %s -/\ndef body_%s : Stmt PName :=\n  %s\n\n", n, strings.Join(numbered(t.varNames), " "), n, body)
	}
	fmt.Fprintf(&b, "def procs : PName → Proc PName\n")
	for _, n := range names {
		fmt.Fprintf(&b, "  | .%s => ⟨%d, body_%s⟩\n", n, nparams[n], n)
	}
	fmt.Fprintf(&b, "\nend %s\n", *ns)
	if err := os.WriteFile(*out, []byte(b.String()), 0o644); err != nil {
		fmt.Fprintln(os.Stderr, err)
		os.Exit(1)
	}
}

func numbered(v []string) []string {
	var r []string
	for i, n := range v {
		r = append(r, fmt.Sprintf("%d=%s", i, n))
	}
	return r
}
