// minigosk: Go -> Lean translator for internal/list/skip_list.go (fifth MiniGo instance, lean/Ekit/MiniGo/LangSK.lean:
// nodes with a per-node array of forward pointers + receiver + method calls + a local slice of pointers + the coin oracle).
//
// Re-reads the CURRENT source on every run and prints every function of the file (except AsSlice and NewSkipListFromSlice:
// result slice of elements / a second list object) as a term of the deep embedding; all semantics lives in the Lean
// interpreter.  Subset: methods of the list type (receiver = implicit state: fields header/level/size, the comparator), the
// file's plain functions; locals; `x := e`, `x = e`, `x, y := f(..)` (with `_`), `var x T`, `x++`, `x--`, `x += e`, `x -= e` on
// locals and on sl.level / sl.size, `s[i] = e` for a LOCAL slice of pointers, `p.Forward[i] = e`; if/else (with init),
// `for cond {}`, three-clause `for` (desugared to init; loop {body; post} - there is no `continue` in the subset), return with
// 0-2 results; int/bool literals, nil, integer constants of the file, `e.Val`, `e.Forward[i]`, `s[i]`, `== != < > <= >= && || ! + -`,
// `sl.compare(a, b)`, calls of the file's functions with up to two arguments, `make([]*node, n)`, `&node{..}` whose Forward is
// a `make`, `errs.NewErrIndexOutOfRange(a, b)`, `errors.New("..")`, the constructor's `&SkipList[T]{..}` in a return,
// and the ONE random test `(rand.Int31() & 0xFFFF) < int32(p*0xFFFF)` (= `.coin`, an oracle; `p := FactorP` = `.opaque`).
// No-alias discipline (what makes the interpreter's by-value arrays faithful): `e.Forward` occurs only directly under an index;
// a local slice variable (defined by `make` or as a slice-typed result of a call) occurs only as the base of an index, as the
// target of `x[i] = v`, or in a return.  Anything else: FAIL (exit 3) = broken obligation.
//
//	minigosk -root <repo> -out <lean file>
package main

import (
	"flag"
	"fmt"
	"go/ast"
	"go/parser"
	"go/token"
	"os"
	"path/filepath"
	"sort"
	"strings"
)

func fail(format string, a ...any) {
	fmt.Fprintf(os.Stderr, "minigosk: unsupported: "+format+"\n", a...)
	os.Exit(3)
}

var skip = map[string]bool{"AsSlice": true, "NewSkipListFromSlice": true}

type tr struct {
	fset       *token.FileSet
	fn         string
	recv       string
	vars       map[string]int
	varNames   []string
	slices     map[string]bool // local slices of pointers
	results    int
	consts     map[string]string // integer constants of the file -> literal; other constants -> ""
	fns        map[string]*ast.FuncDecl
	nodeType   string
	nodeFields []string
	listType   string
}

func (t *tr) pos(n ast.Node) string { return t.fset.Position(n.Pos()).String() }

func (t *tr) v(name string, declare bool) int {
	if i, ok := t.vars[name]; ok {
		return i
	}
	if !declare {
		fail("%s: unknown identifier %s", t.fn, name)
	}
	i := len(t.varNames)
	t.vars[name] = i
	t.varNames = append(t.varNames, name)
	return i
}

func (t *tr) isRecv(e ast.Expr) bool {
	id, ok := e.(*ast.Ident)
	return ok && t.recv != "" && id.Name == t.recv
}

func typeName(e ast.Expr) string {
	switch x := e.(type) {
	case *ast.Ident:
		return x.Name
	case *ast.IndexExpr:
		return typeName(x.X)
	case *ast.StarExpr:
		return typeName(x.X)
	}
	return ""
}

func isPtrSliceType(e ast.Expr) bool {
	at, ok := e.(*ast.ArrayType)
	if !ok || at.Len != nil {
		return false
	}
	_, ok = at.Elt.(*ast.StarExpr)
	return ok
}

func isMakePtrs(e ast.Expr) bool {
	c, ok := e.(*ast.CallExpr)
	if !ok {
		return false
	}
	id, ok := c.Fun.(*ast.Ident)
	return ok && id.Name == "make" && len(c.Args) == 2 && isPtrSliceType(c.Args[0])
}

func isLit(e ast.Expr, v string) bool {
	bl, ok := e.(*ast.BasicLit)
	return ok && strings.EqualFold(bl.Value, v)
}

func isSelCall(e ast.Expr, pkg, name string, nargs int) (*ast.CallExpr, bool) {
	c, ok := e.(*ast.CallExpr)
	if !ok || len(c.Args) != nargs {
		return nil, false
	}
	sel, ok := c.Fun.(*ast.SelectorExpr)
	if !ok || sel.Sel.Name != name {
		return nil, false
	}
	id, ok := sel.X.(*ast.Ident)
	return c, ok && id.Name == pkg
}

// (rand.Int31() & 0xFFFF) < int32(p*0xFFFF)
func (t *tr) isCoin(x *ast.BinaryExpr) bool {
	if x.Op != token.LSS {
		return false
	}
	l := x.X
	if p, ok := l.(*ast.ParenExpr); ok {
		l = p.X
	}
	lb, ok := l.(*ast.BinaryExpr)
	if !ok || lb.Op != token.AND || !isLit(lb.Y, "0xFFFF") {
		return false
	}
	if _, ok := isSelCall(lb.X, "rand", "Int31", 0); !ok {
		return false
	}
	rc, ok := x.Y.(*ast.CallExpr)
	if !ok || len(rc.Args) != 1 {
		return false
	}
	if id, ok := rc.Fun.(*ast.Ident); !ok || id.Name != "int32" {
		return false
	}
	m, ok := rc.Args[0].(*ast.BinaryExpr)
	if !ok || m.Op != token.MUL || !isLit(m.Y, "0xFFFF") {
		return false
	}
	id, ok := m.X.(*ast.Ident)
	if !ok {
		return false
	}
	_, isVar := t.vars[id.Name]
	return isVar
}

// a composite literal of the node type: `skipListNode[T]{v, make(..)}` or keyed
func (t *tr) nodeLit(cl *ast.CompositeLit) string {
	vals := map[string]ast.Expr{}
	for i, el := range cl.Elts {
		if kv, ok := el.(*ast.KeyValueExpr); ok {
			vals[kv.Key.(*ast.Ident).Name] = kv.Value
		} else {
			if i >= len(t.nodeFields) {
				fail("%s: too many fields in a node literal", t.pos(cl))
			}
			vals[t.nodeFields[i]] = el
		}
	}
	v := "(.int 0)"
	fw := "(.mkPtrs (.int 0))" // a nil slice: length 0
	for k, e := range vals {
		switch k {
		case "Val":
			v = t.expr(e)
		case "Forward":
			if !isMakePtrs(e) {
				fail("%s: the Forward array of a node literal must be a make (no aliasing)", t.pos(e))
			}
			fw = t.expr(e)
		default:
			fail("%s: node literal key %s", t.pos(cl), k)
		}
	}
	return fmt.Sprintf("(.allocNode %s %s)", v, fw)
}

func (t *tr) expr(e ast.Expr) string {
	switch x := e.(type) {
	case *ast.ParenExpr:
		return t.expr(x.X)
	case *ast.Ident:
		switch x.Name {
		case "true":
			return "(.bool true)"
		case "false":
			return "(.bool false)"
		case "nil":
			return ".nil"
		}
		if _, ok := t.vars[x.Name]; ok {
			if t.slices[x.Name] {
				fail("%s: the local slice %s used as a value (aliasing)", t.pos(x), x.Name)
			}
			return fmt.Sprintf("(.var %d)", t.v(x.Name, false))
		}
		if c, ok := t.consts[x.Name]; ok {
			if c == "" {
				return ".opaque"
			}
			return fmt.Sprintf("(.int %s)", c)
		}
		fail("%s: unknown identifier %s", t.pos(x), x.Name)
	case *ast.BasicLit:
		if x.Kind != token.INT {
			fail("%s: literal %s", t.pos(x), x.Value)
		}
		return fmt.Sprintf("(.int %s)", x.Value)
	case *ast.SelectorExpr:
		if t.isRecv(x.X) {
			switch x.Sel.Name {
			case "header":
				return ".header"
			case "level":
				return ".level"
			case "size":
				return ".size"
			}
			fail("%s: receiver field %s", t.pos(x), x.Sel.Name)
		}
		if x.Sel.Name == "Val" {
			return fmt.Sprintf("(.val %s)", t.expr(x.X))
		}
		fail("%s: selector %s (e.Forward only directly under an index)", t.pos(x), x.Sel.Name)
	case *ast.IndexExpr:
		if sel, ok := x.X.(*ast.SelectorExpr); ok && sel.Sel.Name == "Forward" && !t.isRecv(sel.X) {
			return fmt.Sprintf("(.fwd %s %s)", t.expr(sel.X), t.expr(x.Index))
		}
		if id, ok := x.X.(*ast.Ident); ok && t.slices[id.Name] {
			return fmt.Sprintf("(.idx (.var %d) %s)", t.v(id.Name, false), t.expr(x.Index))
		}
		fail("%s: index of something that is neither e.Forward nor a local slice", t.pos(x))
	case *ast.UnaryExpr:
		if x.Op == token.NOT {
			return fmt.Sprintf("(.not %s)", t.expr(x.X))
		}
		if x.Op == token.SUB {
			if bl, ok := x.X.(*ast.BasicLit); ok && bl.Kind == token.INT {
				return fmt.Sprintf("(.int (-%s))", bl.Value)
			}
		}
		if x.Op == token.AND {
			if cl, ok := x.X.(*ast.CompositeLit); ok && typeName(cl.Type) == t.nodeType {
				return t.nodeLit(cl)
			}
		}
		fail("%s: unary %s", t.pos(x), x.Op)
	case *ast.CallExpr:
		fun := x.Fun
		if ie, ok := fun.(*ast.IndexExpr); ok { // generic instantiation f[T](…)
			fun = ie.X
		}
		var args []string
		callN := func(name string) string {
			fd, ok := t.fns[name]
			if !ok || skip[name] {
				fail("%s: call of %s (not a translated function of the file)", t.pos(x), name)
			}
			_ = fd
			for _, a := range x.Args {
				args = append(args, t.expr(a))
			}
			if len(args) > 2 {
				fail("%s: call with %d arguments", t.pos(x), len(args))
			}
			return fmt.Sprintf("(.call%d .%s%s)", len(args), name, strings.Join(append([]string{""}, args...), " "))
		}
		if sel, ok := fun.(*ast.SelectorExpr); ok {
			if t.isRecv(sel.X) {
				if sel.Sel.Name == "compare" && len(x.Args) == 2 {
					return fmt.Sprintf("(.cmp %s %s)", t.expr(x.Args[0]), t.expr(x.Args[1]))
				}
				if fd, ok := t.fns[sel.Sel.Name]; !ok || fd.Recv == nil {
					fail("%s: %s is not a method of the list type", t.pos(x), sel.Sel.Name)
				}
				return callN(sel.Sel.Name)
			}
			if c, ok := isSelCall(x, "errs", "NewErrIndexOutOfRange", 2); ok {
				return fmt.Sprintf("(.bin .errIdx %s %s)", t.expr(c.Args[0]), t.expr(c.Args[1]))
			}
			if c, ok := isSelCall(x, "errors", "New", 1); ok {
				if bl, ok := c.Args[0].(*ast.BasicLit); ok && bl.Kind == token.STRING {
					return ".errNew"
				}
			}
			fail("%s: call of a foreign function", t.pos(x))
		}
		name := ""
		if id, ok := fun.(*ast.Ident); ok {
			name = id.Name
		}
		if name == "make" {
			if !isMakePtrs(x) {
				fail("%s: make form (only make([]*node, n))", t.pos(x))
			}
			return fmt.Sprintf("(.mkPtrs %s)", t.expr(x.Args[1]))
		}
		if fd, ok := t.fns[name]; ok && fd.Recv == nil {
			return callN(name)
		}
		fail("%s: call of %s", t.pos(x), name)
	case *ast.BinaryExpr:
		if t.isCoin(x) {
			return ".coin"
		}
		switch x.Op {
		case token.LAND:
			return fmt.Sprintf("(.and %s %s)", t.expr(x.X), t.expr(x.Y))
		case token.LOR:
			return fmt.Sprintf("(.or %s %s)", t.expr(x.X), t.expr(x.Y))
		}
		ops := map[token.Token]string{token.EQL: "eq", token.NEQ: "ne", token.LSS: "lt", token.GTR: "gt",
			token.LEQ: "le", token.GEQ: "ge", token.ADD: "add", token.SUB: "sub"}
		op, ok := ops[x.Op]
		if !ok {
			fail("%s: operator %s", t.pos(x), x.Op)
		}
		return fmt.Sprintf("(.bin .%s %s %s)", op, t.expr(x.X), t.expr(x.Y))
	}
	fail("%s: expression %T", t.pos(e), e)
	return ""
}

func seq(ss []string) string {
	if len(ss) == 0 {
		return ".skip"
	}
	if len(ss) == 1 {
		return ss[0]
	}
	return fmt.Sprintf("(.seq %s\n    %s)", ss[0], seq(ss[1:]))
}

// an expression in a return position: a local slice may be returned
func (t *tr) retExpr(e ast.Expr) string {
	if id, ok := e.(*ast.Ident); ok && t.slices[id.Name] {
		return fmt.Sprintf("(.var %d)", t.v(id.Name, false))
	}
	return t.expr(e)
}

func (t *tr) assign(lhs ast.Expr, rhs string, define bool, rhsIsSlice bool) string {
	switch l := lhs.(type) {
	case *ast.Ident:
		if l.Name == "_" {
			return fmt.Sprintf("(.expr %s)", rhs)
		}
		_, known := t.vars[l.Name]
		if known && t.slices[l.Name] != rhsIsSlice {
			fail("%s: %s changes between slice and non-slice", t.pos(lhs), l.Name)
		}
		i := t.v(l.Name, define)
		if rhsIsSlice {
			t.slices[l.Name] = true
		}
		return fmt.Sprintf("(.assign %d %s)", i, rhs)
	case *ast.IndexExpr:
		if sel, ok := l.X.(*ast.SelectorExpr); ok && sel.Sel.Name == "Forward" && !t.isRecv(sel.X) {
			return fmt.Sprintf("(.setFwd %s %s %s)", t.expr(sel.X), t.expr(l.Index), rhs)
		}
		if id, ok := l.X.(*ast.Ident); ok && t.slices[id.Name] {
			return fmt.Sprintf("(.setIdx %d %s %s)", t.v(id.Name, false), t.expr(l.Index), rhs)
		}
	case *ast.SelectorExpr:
		if t.isRecv(l.X) {
			switch l.Sel.Name {
			case "header":
				return fmt.Sprintf("(.setHeader %s)", rhs)
			case "level":
				return fmt.Sprintf("(.setLevel %s)", rhs)
			case "size":
				return fmt.Sprintf("(.setSize %s)", rhs)
			}
		}
	}
	fail("%s: assignment target", t.pos(lhs))
	return ""
}

// the scalar targets of `x++`, `x += e`: a local or sl.level / sl.size
func (t *tr) scalarTarget(e ast.Expr) bool {
	switch l := e.(type) {
	case *ast.Ident:
		_, ok := t.vars[l.Name]
		return ok && !t.slices[l.Name]
	case *ast.SelectorExpr:
		return t.isRecv(l.X) && (l.Sel.Name == "level" || l.Sel.Name == "size")
	}
	return false
}

func (t *tr) listLit(cl *ast.CompositeLit) []string {
	set := map[string]string{"header": ".nil", "level": "(.int 0)", "size": "(.int 0)"}
	for _, el := range cl.Elts {
		kv, ok := el.(*ast.KeyValueExpr)
		if !ok {
			fail("%s: positional literal of the list type", t.pos(el))
		}
		k := kv.Key.(*ast.Ident).Name
		if k == "compare" {
			continue
		}
		if _, ok := set[k]; !ok {
			fail("%s: literal key %s", t.pos(kv), k)
		}
		set[k] = t.expr(kv.Value)
	}
	return []string{fmt.Sprintf("(.setHeader %s)", set["header"]), fmt.Sprintf("(.setLevel %s)", set["level"]),
		fmt.Sprintf("(.setSize %s)", set["size"])}
}

func (t *tr) stmt(s ast.Stmt) string {
	switch x := s.(type) {
	case *ast.BlockStmt:
		var ss []string
		for _, y := range x.List {
			ss = append(ss, t.stmt(y))
		}
		return seq(ss)
	case *ast.AssignStmt:
		define := x.Tok == token.DEFINE
		if x.Tok == token.ADD_ASSIGN || x.Tok == token.SUB_ASSIGN {
			if len(x.Lhs) != 1 || !t.scalarTarget(x.Lhs[0]) {
				fail("%s: compound assignment target", t.pos(x))
			}
			op := "add"
			if x.Tok == token.SUB_ASSIGN {
				op = "sub"
			}
			return t.assign(x.Lhs[0], fmt.Sprintf("(.bin .%s %s %s)", op, t.expr(x.Lhs[0]), t.expr(x.Rhs[0])), false, false)
		}
		if x.Tok != token.DEFINE && x.Tok != token.ASSIGN {
			fail("%s: assignment operator %s", t.pos(x), x.Tok)
		}
		if len(x.Lhs) == 2 && len(x.Rhs) == 1 {
			// x, y := f(..)
			c, ok := x.Rhs[0].(*ast.CallExpr)
			if !ok {
				fail("%s: tuple assignment from a non-call", t.pos(x))
			}
			var fd *ast.FuncDecl
			if sel, ok := c.Fun.(*ast.SelectorExpr); ok && t.isRecv(sel.X) {
				fd = t.fns[sel.Sel.Name]
			}
			if fd == nil || fd.Type.Results == nil || len(fd.Type.Results.List) != 2 {
				fail("%s: tuple assignment from something other than a two-result method with unnamed results", t.pos(x))
			}
			rhs := t.expr(c)
			var tg [2]string
			for k := 0; k < 2; k++ {
				id, ok := x.Lhs[k].(*ast.Ident)
				if !ok {
					fail("%s: tuple assignment target", t.pos(x))
				}
				if id.Name == "_" {
					tg[k] = "none"
					continue
				}
				isSl := isPtrSliceType(fd.Type.Results.List[k].Type)
				_, known := t.vars[id.Name]
				if known && t.slices[id.Name] != isSl {
					fail("%s: %s changes between slice and non-slice", t.pos(x), id.Name)
				}
				tg[k] = fmt.Sprintf("(some %d)", t.v(id.Name, define))
				if isSl {
					t.slices[id.Name] = true
				}
			}
			return fmt.Sprintf("(.assign2 %s %s %s)", tg[0], tg[1], rhs)
		}
		if len(x.Lhs) != 1 || len(x.Rhs) != 1 {
			fail("%s: multiple assignment", t.pos(x))
		}
		return t.assign(x.Lhs[0], t.expr(x.Rhs[0]), define, isMakePtrs(x.Rhs[0]))
	case *ast.IncDecStmt:
		if !t.scalarTarget(x.X) {
			fail("%s: ++/-- target", t.pos(x))
		}
		op := "add"
		if x.Tok == token.DEC {
			op = "sub"
		}
		return t.assign(x.X, fmt.Sprintf("(.bin .%s %s (.int 1))", op, t.expr(x.X)), false, false)
	case *ast.DeclStmt:
		gd, ok := x.Decl.(*ast.GenDecl)
		if !ok || gd.Tok != token.VAR {
			fail("%s: declaration", t.pos(x))
		}
		var ss []string
		for _, sp := range gd.Specs {
			vs := sp.(*ast.ValueSpec)
			if len(vs.Values) != 0 {
				fail("%s: var with initialiser", t.pos(vs))
			}
			if id, ok := vs.Type.(*ast.Ident); !ok || id.Name != "T" {
				fail("%s: var of a type other than the element type", t.pos(vs))
			}
			for _, n := range vs.Names {
				ss = append(ss, fmt.Sprintf("(.assign %d (.int 0))", t.v(n.Name, true)))
			}
		}
		return seq(ss)
	case *ast.ExprStmt:
		return fmt.Sprintf("(.expr %s)", t.expr(x.X))
	case *ast.IfStmt:
		var pre []string
		if x.Init != nil {
			pre = append(pre, t.stmt(x.Init))
		}
		el := ".skip"
		cond := t.expr(x.Cond)
		body := t.stmt(x.Body)
		if x.Else != nil {
			el = t.stmt(x.Else)
		}
		return seq(append(pre, fmt.Sprintf("(.ite %s\n    %s\n    %s)", cond, body, el)))
	case *ast.ForStmt:
		var pre []string
		if x.Init != nil {
			pre = append(pre, t.stmt(x.Init))
		}
		cond := "(.bool true)"
		if x.Cond != nil {
			cond = t.expr(x.Cond)
		}
		body := []string{t.stmt(x.Body)}
		if x.Post != nil {
			body = append(body, t.stmt(x.Post))
		}
		return seq(append(pre, fmt.Sprintf("(.loop %s\n    %s)", cond, seq(body))))
	case *ast.ReturnStmt:
		n := len(x.Results)
		if n != t.results {
			fail("%s: return arity", t.pos(x))
		}
		switch n {
		case 0:
			return "(.ret .unit)"
		case 1:
			if ue, ok := x.Results[0].(*ast.UnaryExpr); ok && ue.Op == token.AND {
				if cl, ok := ue.X.(*ast.CompositeLit); ok && typeName(cl.Type) == t.listType {
					if t.recv != "" {
						fail("%s: a list literal inside a method", t.pos(x))
					}
					return seq(append(t.listLit(cl), "(.ret .unit)"))
				}
			}
			return fmt.Sprintf("(.ret %s)", t.retExpr(x.Results[0]))
		case 2:
			return fmt.Sprintf("(.ret2 %s %s)", t.retExpr(x.Results[0]), t.retExpr(x.Results[1]))
		}
		fail("%s: return arity", t.pos(x))
	}
	fail("%s: statement %T", t.pos(s), s)
	return ""
}

func main() {
	root := flag.String("root", "", "repo root")
	out := flag.String("out", "", "Lean file to write")
	flag.Parse()
	file := "internal/list/skip_list.go"
	fset := token.NewFileSet()
	f, err := parser.ParseFile(fset, filepath.Join(*root, file), nil, 0)
	if err != nil {
		fail("parse: %v", err)
	}
	consts := map[string]string{}
	nodeType, listType := "", ""
	var nodeFields []string
	for _, d := range f.Decls {
		gd, ok := d.(*ast.GenDecl)
		if !ok {
			continue
		}
		for _, sp := range gd.Specs {
			switch s := sp.(type) {
			case *ast.ValueSpec:
				if gd.Tok != token.CONST {
					fail("package-level variable %s", s.Names[0].Name)
				}
				for i, n := range s.Names {
					consts[n.Name] = ""
					if i < len(s.Values) {
						if bl, ok := s.Values[i].(*ast.BasicLit); ok && bl.Kind == token.INT {
							consts[n.Name] = bl.Value
						}
					}
				}
			case *ast.TypeSpec:
				st, ok := s.Type.(*ast.StructType)
				if !ok {
					fail("type %s is not a struct", s.Name.Name)
				}
				var fields []string
				for _, fl := range st.Fields.List {
					for _, n := range fl.Names {
						fields = append(fields, n.Name)
					}
				}
				if strings.Join(fields, ",") == "Val,Forward" {
					nodeType, nodeFields = s.Name.Name, fields
				} else if strings.Join(fields, ",") == "header,level,compare,size" {
					listType = s.Name.Name
				} else {
					fail("struct %s has fields %v (node = Val,Forward; list = header,level,compare,size)", s.Name.Name, fields)
				}
			}
		}
	}
	if nodeType == "" || listType == "" {
		fail("node / list type not found")
	}
	fns := map[string]*ast.FuncDecl{}
	var names []string
	for _, d := range f.Decls {
		if fd, ok := d.(*ast.FuncDecl); ok {
			fns[fd.Name.Name] = fd
			if !skip[fd.Name.Name] {
				names = append(names, fd.Name.Name)
			}
		}
	}
	sort.Strings(names)
	var b strings.Builder
	fmt.Fprintf(&b, "/- GENERATED by harness/minigosk from %s of the current tree — do not edit. -/\n", file)
	b.WriteString("import Ekit.MiniGo.LangSK\nnamespace Ekit.Gen.SkipListGo\nopen Ekit.MiniGo.SK\n\ninductive PName where\n")
	for _, n := range names {
		fmt.Fprintf(&b, "  | %s\n", n)
	}
	b.WriteString("  deriving DecidableEq, Repr\n\n")
	np := map[string]int{}
	for _, n := range names {
		fd := fns[n]
		t := &tr{fset: fset, fn: n, vars: map[string]int{}, slices: map[string]bool{}, consts: consts, fns: fns,
			nodeType: nodeType, nodeFields: nodeFields, listType: listType}
		if fd.Recv != nil {
			if len(fd.Recv.List) != 1 || len(fd.Recv.List[0].Names) != 1 || typeName(fd.Recv.List[0].Type) != listType {
				fail("%s: receiver", n)
			}
			t.recv = fd.Recv.List[0].Names[0].Name
		}
		for _, p := range fd.Type.Params.List {
			if _, ok := p.Type.(*ast.ArrayType); ok {
				fail("%s: slice parameter", n)
			}
			for _, pn := range p.Names {
				t.v(pn.Name, true)
			}
		}
		np[n] = len(t.varNames)
		t.results = 0
		if fd.Type.Results != nil {
			for _, r := range fd.Type.Results.List {
				if len(r.Names) != 0 {
					fail("%s: named results", n)
				}
			}
			t.results = fd.Type.Results.NumFields()
		}
		body := t.stmt(fd.Body)
		var vn []string
		for i, x := range t.varNames {
			vn = append(vn, fmt.Sprintf("%d=%s", i, x))
		}
		fmt.Fprintf(&b, "/-- `%s`; variables: %s -/\ndef body_%s : Stmt PName :=\n  %s\n\n", n, strings.Join(vn, " "), n, body)
	}
	b.WriteString("def procs : PName → Proc PName\n")
	for _, n := range names {
		fmt.Fprintf(&b, "  | .%s => ⟨%d, body_%s⟩\n", n, np[n], n)
	}
	b.WriteString("\nend Ekit.Gen.SkipListGo\n")
	if err := os.WriteFile(*out, []byte(b.String()), 0o644); err != nil {
		fmt.Fprintln(os.Stderr, err)
		os.Exit(1)
	}
}
