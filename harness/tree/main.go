// Correspondence harness for C01/C02 (red-black tree and the containers built on it): drives
// internal/tree.RBTree, tree.RBTree, mapx.TreeMap (+NewTreeMapWithMap), set.TreeSet, the tree-backed
// mapx.LinkedMap and mapx.MultiMap in-process and writes one "op => observation" line per call.
//
//	tree -mode gen -tier quick|thorough -out ops.txt     (seed from VERIF_SEED)
//	tree -mode run -ops ops.txt -out trace.txt -stats stats.json
//
// Observation of every line:
//
//	<result> len=<n> keys=<k,..> vals=<v,..> dump=<colour/key/shape> audit=<ok|failure> cmps=<n> [laudit=<ok|failure>]
//
// keys/vals/len come from the public API (KeyValues / Keys / Values / Len / Size) after the call,
// dump and audit from the white-box hooks (hooks/internal/tree/zz_verif_dump.go), cmps is the number
// of comparator invocations made by the call itself (counted by wrapping the comparator).
package main

import (
	"encoding/json"
	"errors"
	"flag"
	"fmt"
	"math"
	"os"
	"sort"
	"strconv"
	"strings"
	"time"

	"github.com/ecodeclub/ekit"
	itree "github.com/ecodeclub/ekit/internal/tree"
	"github.com/ecodeclub/ekit/mapx"
	"github.com/ecodeclub/ekit/set"
	"github.com/ecodeclub/ekit/tree"
	"github.com/ecodeclub/ekit/zzverif/vlib"
)

// ---------------------------------------------------------------------------------------------
// comparators: only the sign matters; "half" makes distinct keys compare equal
func baseCmp(name string) func(a, b int) int {
	switch name {
	case "asc":
		return func(a, b int) int { return a - b }
	case "desc":
		return func(a, b int) int {
			if a < b {
				return 1
			} else if a > b {
				return -1
			}
			return 0
		}
	case "half":
		return func(a, b int) int { return 7 * (a/2 - b/2) }
	}
	panic("comparator " + name)
}

func itoa(k int) string { return strconv.Itoa(k) }

func errTok(err error) string {
	switch {
	case err == nil:
		return "ok"
	case errors.Is(err, itree.ErrRBTreeSameRBNode):
		return "err:dup"
	case errors.Is(err, itree.ErrRBTreeNotRBNode):
		return "err:absent"
	}
	return "err:other"
}

// values of the multimap: "1/2/3", empty list "e"
func listTok(vs []int) string {
	if len(vs) == 0 {
		return "e"
	}
	p := make([]string, len(vs))
	for i, v := range vs {
		p[i] = itoa(v)
	}
	return strings.Join(p, "/")
}

func listsTok(vss [][]int) string {
	if len(vss) == 0 {
		return "-"
	}
	p := make([]string, len(vss))
	for i, vs := range vss {
		p[i] = listTok(vs)
	}
	return strings.Join(p, ",")
}

func atoi(s string) int {
	v, err := strconv.Atoi(s)
	if err != nil {
		panic("bad int " + s)
	}
	return v
}

// scribble over a returned slice including its spare capacity: if it shares storage with the
// container the damage shows up in the contents printed afterwards
func scribble(s []int) {
	full := s[:cap(s)]
	for i := range full {
		full[i] = -777
	}
}

// long fields (containers with more than 64 entries) are replaced by "h<hash of the bytes>";
// the Lean driver does the same with the strings it renders
func short(n int, s string) string {
	if n <= 64 {
		return s
	}
	xs := make([]int, len(s))
	for i := 0; i < len(s); i++ {
		xs[i] = int(s[i])
	}
	return "h" + strconv.FormatUint(vlib.Hash(xs), 10)
}

// ---------------------------------------------------------------------------------------------
// a container under test
type box struct {
	do    func(w []string) string // executes one op, returns the result token
	state func() (keys, vals string, n int)
	dump  func() string
	audit func() string // red-black audit of the (index) tree
	extra func() string // further white-box audit of the wrapper (LinkedMap's list), "" if none
}

type rbAPI interface {
	Add(int, int) error
	Set(int, int) error
	Find(int) (int, error)
	Delete(int) (int, bool)
	KeyValues() ([]int, []int)
	Size() int
	VerifDump(func(int) string) string
	VerifAudit() string
}

func rbBox(t rbAPI) *box {
	return &box{
		do: func(w []string) string {
			switch w[0] {
			case "add":
				return errTok(t.Add(atoi(w[1]), atoi(w[2])))
			case "set":
				return errTok(t.Set(atoi(w[1]), atoi(w[2])))
			case "find":
				v, err := t.Find(atoi(w[1]))
				if err != nil {
					return errTok(err)
				}
				return "ok:" + itoa(v)
			case "delete":
				v, ok := t.Delete(atoi(w[1]))
				if !ok {
					if v != 0 {
						return "none-but-value:" + itoa(v)
					}
					return "none"
				}
				return "ok:" + itoa(v)
			case "kvs":
				ks, vs := t.KeyValues()
				if ks == nil || vs == nil {
					return "ok:nil"
				}
				return "ok:" + vlib.Ints(ks) + "|" + vlib.Ints(vs)
			case "size":
				return "ok:" + itoa(t.Size())
			}
			panic("op " + w[0])
		},
		state: func() (string, string, int) {
			ks, vs := t.KeyValues()
			return vlib.Ints(ks), vlib.Ints(vs), t.Size()
		},
		dump:  func() string { return t.VerifDump(itoa) },
		audit: t.VerifAudit,
	}
}

type mapAPI interface {
	Put(int, int) error
	Get(int) (int, bool)
	Delete(int) (int, bool)
	Keys() []int
	Values() []int
	Len() int64
	VerifDump(func(int) string) string
	VerifAudit() string
}

func mapBox(m mapAPI) *box {
	return &box{
		do: func(w []string) string {
			switch w[0] {
			case "put":
				return errTok(m.Put(atoi(w[1]), atoi(w[2])))
			case "get":
				v, ok := m.Get(atoi(w[1]))
				if !ok {
					if v != 0 {
						return "none-but-value:" + itoa(v)
					}
					return "none"
				}
				return "ok:" + itoa(v)
			case "delete":
				v, ok := m.Delete(atoi(w[1]))
				if !ok {
					if v != 0 {
						return "none-but-value:" + itoa(v)
					}
					return "none"
				}
				return "ok:" + itoa(v)
			case "keys":
				ks := m.Keys()
				if ks == nil {
					return "ok:nil"
				}
				return "ok:" + vlib.Ints(ks)
			case "values":
				vs := m.Values()
				if vs == nil {
					return "ok:nil"
				}
				return "ok:" + vlib.Ints(vs)
			case "len":
				return "ok:" + strconv.FormatInt(m.Len(), 10)
			}
			panic("op " + w[0])
		},
		state: func() (string, string, int) {
			return vlib.Ints(m.Keys()), vlib.Ints(m.Values()), int(m.Len())
		},
		dump:  func() string { return m.VerifDump(itoa) },
		audit: m.VerifAudit,
	}
}

func multiBox(m *mapx.MultiMap[int, int]) *box {
	return &box{
		do: func(w []string) string {
			switch w[0] {
			case "put":
				return errTok(m.Put(atoi(w[1]), atoi(w[2])))
			case "putmany":
				arg := vlib.ParseInts(w[2])
				// give the argument spare capacity: a stored alias of it would be visible below
				arg = append(make([]int, 0, len(arg)+4), arg...)
				r := errTok(m.PutMany(atoi(w[1]), arg...))
				scribble(arg)
				return r
			case "get":
				vs, ok := m.Get(atoi(w[1]))
				if !ok {
					if vs != nil {
						return "none-but-value"
					}
					return "none"
				}
				r := "ok:" + listTok(vs)
				scribble(vs)
				return r
			case "delete":
				vs, ok := m.Delete(atoi(w[1]))
				if !ok {
					if vs != nil {
						return "none-but-value"
					}
					return "none"
				}
				return "ok:" + listTok(vs)
			case "keys":
				return "ok:" + vlib.Ints(m.Keys())
			case "values":
				vss := m.Values()
				r := "ok:" + listsTok(vss)
				for _, vs := range vss {
					scribble(vs)
				}
				return r
			case "len":
				return "ok:" + strconv.FormatInt(m.Len(), 10)
			}
			panic("op " + w[0])
		},
		state: func() (string, string, int) {
			return vlib.Ints(m.Keys()), listsTok(m.Values()), int(m.Len())
		},
		dump:  func() string { return m.VerifDump(itoa) },
		audit: m.VerifAudit,
	}
}

func setBox(s *set.TreeSet[int]) *box {
	return &box{
		do: func(w []string) string {
			switch w[0] {
			case "add":
				s.Add(atoi(w[1]))
				return "ok"
			case "delete":
				s.Delete(atoi(w[1]))
				return "ok"
			case "exist":
				return "ok:" + strconv.FormatBool(s.Exist(atoi(w[1])))
			case "keys":
				return "ok:" + vlib.Ints(s.Keys())
			}
			panic("op " + w[0])
		},
		state: func() (string, string, int) {
			// TreeSet.Keys is documented as unordered: canonicalise as a set (the order actually
			// produced is still compared with the model through the `keys` op and the dump)
			ks := s.Keys()
			sort.Ints(ks)
			return vlib.Ints(ks), "-", len(ks)
		},
		dump:  func() string { return s.VerifDump(itoa) },
		audit: s.VerifAudit,
	}
}

// parsePairs "1:10,2:20" -> map
func parsePairs(s string) map[int]int {
	m := map[int]int{}
	if s == "-" || s == "" {
		return m
	}
	for _, p := range strings.Split(s, ",") {
		kv := strings.Split(p, ":")
		m[atoi(kv[0])] = atoi(kv[1])
	}
	return m
}

// mk builds the container; cnt counts comparator calls
func mk(kind, cmpName string, rest []string, cnt *int) (*box, string) {
	var cmp ekit.Comparator[int]
	if cmpName != "nil" {
		base := baseCmp(cmpName)
		cmp = func(a, b int) int { *cnt++; return base(a, b) }
	}
	fail := func(err error) (*box, string) {
		if err != nil {
			return nil, "err:nilcmp"
		}
		return nil, "err:nil-container"
	}
	switch kind {
	case "rbtree":
		if cmp == nil {
			return nil, "err:nilcmp" // the internal constructor has no nil check; never generated
		}
		return rbBox(itree.NewRBTree[int, int](cmp)), "ok"
	case "pubtree":
		t, err := tree.NewRBTree[int, int](cmp)
		if err != nil || t == nil {
			return fail(err)
		}
		return rbBox(t), "ok"
	case "treemap":
		t, err := mapx.NewTreeMap[int, int](cmp)
		if err != nil || t == nil {
			return fail(err)
		}
		return mapBox(t), "ok"
	case "treemapof":
		t, err := mapx.NewTreeMapWithMap[int, int](cmp, parsePairs(rest[0]))
		if err != nil || t == nil {
			return fail(err)
		}
		return mapBox(t), "ok"
	case "treeset":
		t, err := set.NewTreeSet[int](cmp)
		if err != nil || t == nil {
			return fail(err)
		}
		return setBox(t), "ok"
	case "linkedmap":
		t, err := mapx.NewLinkedTreeMap[int, int](cmp)
		if err != nil || t == nil {
			return fail(err)
		}
		b := mapBox(t)
		b.extra = t.VerifListAudit
		return b, "ok"
	case "multimap":
		t, err := mapx.NewMultiTreeMap[int, int](cmp)
		if err != nil || t == nil {
			return fail(err)
		}
		return multiBox(t), "ok"
	}
	panic("kind " + kind)
}

// ---------------------------------------------------------------------------------------------
type stats struct {
	Ops       map[string]int `json:"ops"`
	Results   map[string]int `json:"results"`
	Kinds     map[string]int `json:"kinds"`
	Cmps      map[string]int `json:"comparators"`
	Sizes     map[string]int `json:"sizes"`
	MaxLen    int            `json:"max_len"`
	MaxCmps   int            `json:"max_comparator_calls_per_op"`
	Shapes    int            `json:"distinct_tree_dumps"`
	Cases     int            `json:"cases"`
	Lines     int            `json:"lines"`
	Distinct  int            `json:"distinct_state_op_pairs"`
	AuditFail int            `json:"audit_failures"`
}

// a single call on a container of a few hundred entries takes microseconds
const opTimeout = 5 * time.Second

func extraOf(b *box) string {
	if b.extra == nil {
		return ""
	}
	return " laudit=" + b.extra()
}

func sizeBucket(n int) string {
	switch {
	case n == 0:
		return "0"
	case n <= 3:
		return "1-3"
	case n <= 8:
		return "4-8"
	case n <= 40:
		return "9-40"
	}
	return "41+"
}

func run(ops []string, out *vlib.Out, st *stats) {
	var b *box
	cnt := 0
	seen := map[string]struct{}{}
	shapes := map[string]struct{}{}
	before := ""
	for _, line := range ops {
		if strings.HasPrefix(line, "#") { // generator remarks: passed through, accepted by the driver
			out.Line("%s", line)
			continue
		}
		w := strings.Fields(line)
		st.Ops[w[0]]++
		st.Lines++
		if w[0] == "new" {
			st.Cases++
			st.Kinds[w[1]]++
			st.Cmps[w[2]]++
			cnt = 0
			var tok string
			p := vlib.Catch(func() { b, tok = mk(w[1], w[2], w[3:], &cnt) })
			if p != "" {
				b = nil
				out.Line("%s => %s", line, p)
				continue
			}
			if b == nil {
				out.Line("%s => %s", line, tok)
				continue
			}
			c := cnt
			ks, vs, n := b.state()
			d := b.dump()
			before = d + "/" + vs
			out.Line("%s => %s len=%d keys=%s vals=%s dump=%s audit=%s cmps=%d%s", line, tok, n, short(n, ks), short(n, vs), short(n, d), b.audit(), c, extraOf(b))
			continue
		}
		if b == nil {
			out.Line("%s => no-container", line)
			continue
		}
		var res string
		var c, n int
		var ks, vs, d, a, x, p2 string
		done := make(chan struct{})
		go func() {
			defer close(done)
			cnt = 0
			p := vlib.Catch(func() { res = b.do(w) })
			c = cnt
			if p != "" {
				res = p
			}
			p2 = vlib.Catch(func() {
				ks, vs, n = b.state()
				d = b.dump()
				a = b.audit()
				x = extraOf(b)
			})
		}()
		select {
		case <-done:
		case <-time.After(opTimeout):
			// the call (or the traversal observing it) does not return: report it and stop the run —
			// the stuck goroutine cannot be killed, and the container is unusable anyway
			out.Line("%s => hang", line)
			st.Results[w[0]+"/hang"]++
			st.Distinct = len(seen)
			st.Shapes = len(shapes)
			return
		}
		if p2 != "" {
			out.Line("%s => %s observe-%s", line, res, p2)
			continue
		}
		if a != "ok" && a != "na" {
			st.AuditFail++
		}
		if n > st.MaxLen {
			st.MaxLen = n
		}
		if c > st.MaxCmps {
			st.MaxCmps = c
		}
		st.Sizes[sizeBucket(n)]++
		rk := res
		if i := strings.IndexByte(rk, ':'); i > 0 && !strings.HasPrefix(rk, "err") {
			rk = rk[:i]
		}
		st.Results[w[0]+"/"+rk]++
		after := d + "/" + vs
		if before != after || strings.HasPrefix(res, "err") || strings.HasPrefix(res, "none") || strings.HasPrefix(res, "panic") {
			seen[before+"|"+line] = struct{}{}
		}
		shapes[d] = struct{}{}
		before = after
		out.Line("%s => %s len=%d keys=%s vals=%s dump=%s audit=%s cmps=%d%s", line, res, n, short(n, ks), short(n, vs), short(n, d), a, c, x)
	}
	st.Distinct = len(seen)
	st.Shapes = len(shapes)
}

// ---------------------------------------------------------------------------------------------
// generation

type gen struct {
	r    *vlib.Rng
	out  *vlib.Out
	val  int
	kind string
	live map[int]bool // keys believed present (by comparator class representative is not tracked; only a hint)
}

// next: mostly fresh positive values (a stale value is recognisable); sometimes the zero value, a
// negative, a repeat of the latest fresh value or an extreme int
func (g *gen) next() int {
	switch p := g.r.Intn(100); {
	case p < 8:
		return 0
	case p < 11:
		return -g.r.Range(1, 9)
	case p < 14:
		return g.val
	case p < 15:
		return vlib.Pick(g.r, []int{math.MaxInt, math.MinInt})
	}
	g.val++
	return g.val
}

func (g *gen) insert(k int) {
	switch g.kind {
	case "rbtree", "pubtree":
		g.out.Line("add %d %d", k, g.next())
	case "treeset":
		g.out.Line("add %d", k)
	case "multimap":
		if g.r.Chance(40) {
			n := g.r.Range(0, 3)
			xs := make([]int, n)
			for i := range xs {
				xs[i] = g.next()
			}
			g.out.Line("putmany %d %s", k, vlib.Ints(xs))
		} else {
			g.out.Line("put %d %d", k, g.next())
		}
	default:
		g.out.Line("put %d %d", k, g.next())
	}
	g.live[k] = true
}

func (g *gen) overwrite(k int) {
	switch g.kind {
	case "rbtree", "pubtree":
		g.out.Line("set %d %d", k, g.next())
	default:
		g.insert(k)
	}
}

func (g *gen) lookup(k int) {
	switch g.kind {
	case "rbtree", "pubtree":
		g.out.Line("find %d", k)
	case "treeset":
		g.out.Line("exist %d", k)
	default:
		g.out.Line("get %d", k)
	}
}

func (g *gen) remove(k int) {
	g.out.Line("delete %d", k)
	delete(g.live, k)
}

func (g *gen) observe() {
	switch g.kind {
	case "rbtree", "pubtree":
		g.out.Line("%s", vlib.Pick(g.r, []string{"kvs", "size"}))
	case "treeset":
		g.out.Line("keys")
	default:
		g.out.Line("%s", vlib.Pick(g.r, []string{"keys", "values", "len"}))
	}
}

// order returns the keys lo..hi-1 arranged ascending / descending / zig-zag / random
func order(r *vlib.Rng, keys []int, how string) []int {
	ks := append([]int{}, keys...)
	sort.Ints(ks)
	switch how {
	case "asc":
	case "desc":
		for i, j := 0, len(ks)-1; i < j; i, j = i+1, j-1 {
			ks[i], ks[j] = ks[j], ks[i]
		}
	case "zigzag":
		out := make([]int, 0, len(ks))
		for i, j := 0, len(ks)-1; i <= j; i, j = i+1, j-1 {
			out = append(out, ks[i])
			if i != j {
				out = append(out, ks[j])
			}
		}
		ks = out
	case "inout": // from the middle outwards
		out := make([]int, 0, len(ks))
		m := len(ks) / 2
		for d := 0; d <= len(ks); d++ {
			if m+d < len(ks) {
				out = append(out, ks[m+d])
			}
			if d > 0 && m-d >= 0 {
				out = append(out, ks[m-d])
			}
		}
		ks = out
	default:
		for i := len(ks) - 1; i > 0; i-- {
			j := r.Intn(i + 1)
			ks[i], ks[j] = ks[j], ks[i]
		}
	}
	return ks
}

var orders = []string{"asc", "desc", "zigzag", "inout", "random", "random"}
var kindsAll = []string{"rbtree", "rbtree", "rbtree", "pubtree", "treemap", "treemap", "treeset", "linkedmap", "multimap"}
var cmpsAll = []string{"asc", "asc", "desc", "half"}

func universe(r *vlib.Rng, u int) []int {
	lo := 0
	if r.Chance(30) {
		lo = -u / 2
	}
	ks := make([]int, u)
	for i := range ks {
		ks[i] = lo + i
	}
	return ks
}

func liveKeys(m map[int]bool) []int {
	ks := make([]int, 0, len(m))
	for k := range m {
		ks = append(ks, k)
	}
	sort.Ints(ks)
	return ks
}

func genRandomCase(g *gen, tier string) {
	r := g.r
	g.kind = vlib.Pick(r, kindsAll)
	cmp := vlib.Pick(r, cmpsAll)
	us := []int{1, 3, 8, 8, 40, 40}
	if r.Chance(12) || (tier == "thorough" && r.Chance(25)) {
		us = []int{200}
	}
	u := vlib.Pick(r, us)
	keys := universe(r, u)
	g.live = map[int]bool{}
	g.out.Line("new %s %s", g.kind, cmp)
	phases := []string{"fill", "churn", "drain", "refill", "churn", "drain"}
	switch r.Intn(10) {
	case 0:
		phases = []string{"churn"}
	case 1:
		phases = []string{"fill", "drain"}
	case 2:
		phases = []string{"fill", "halfdrain", "churn", "refill", "drain"}
	case 3, 4:
		// anything the container remembers from one call (a last-hit node, the node of a failed duplicate insert) must
		// survive a structural change next to that key: touch k, change a neighbour, touch k again, look
		phases = []string{"fill", "sticky", "churn", "sticky", "drain"}
	}
	for _, ph := range phases {
		switch ph {
		case "fill", "refill":
			ks := order(r, keys, vlib.Pick(r, orders))
			if r.Chance(40) {
				ks = ks[:r.Range(0, len(ks))]
			}
			for _, k := range ks {
				g.insert(k)
				if r.Chance(5) {
					g.insert(k) // duplicate Add / overwrite
				}
				if r.Chance(4) {
					g.observe()
				}
			}
		case "drain", "halfdrain":
			ks := order(r, liveKeys(g.live), vlib.Pick(r, orders))
			if ph == "halfdrain" {
				ks = ks[:len(ks)/2]
			}
			for _, k := range ks {
				g.remove(k)
				if r.Chance(5) {
					g.remove(k) // delete-absent
				}
				if r.Chance(4) {
					g.lookup(vlib.Pick(r, keys))
				}
			}
			if ph == "drain" {
				g.remove(vlib.Pick(r, keys)) // on (almost certainly) empty
				g.observe()
			}
		case "sticky":
			for round := r.Range(2, 8); round > 0; round-- {
				ks := liveKeys(g.live)
				if len(ks) == 0 {
					g.insert(vlib.Pick(r, keys))
					continue
				}
				sort.Ints(ks)
				i := r.Intn(len(ks))
				k := ks[i]
				touch := func() {
					switch r.Intn(4) {
					case 0:
						g.insert(k) // duplicate Add (fails on the tree, overwrites on the maps)
					case 1:
						g.overwrite(k)
					default:
						g.lookup(k)
					}
				}
				touch()
				// a structural change at a neighbour: delete the predecessor / successor (its node may be the one that
				// is physically spliced out in favour of k's, or vice versa), or insert a fresh neighbour
				switch p := r.Intn(10); {
				case p < 4 && i > 0:
					g.remove(ks[i-1])
				case p < 7 && i+1 < len(ks):
					g.remove(ks[i+1])
				case p < 8:
					g.remove(k)
				default:
					g.insert(vlib.Pick(r, keys))
				}
				if r.Chance(70) {
					g.overwrite(k)
				} else {
					touch()
				}
				g.lookup(k)
				if r.Chance(50) {
					g.observe()
				}
				if r.Chance(30) {
					g.remove(k)
					g.overwrite(k)
					g.lookup(k)
				}
			}
		default: // churn
			steps := r.Range(4, 40)
			if u >= 40 {
				steps = r.Range(20, 120)
			}
			for s := 0; s < steps; s++ {
				k := vlib.Pick(r, keys)
				switch p := r.Intn(100); {
				case p < 34:
					g.insert(k)
				case p < 66:
					g.remove(k)
				case p < 78:
					g.lookup(k)
				case p < 90:
					g.overwrite(k)
				default:
					g.observe()
				}
			}
		}
	}
}

type lineBuf struct{ lines []string }

func (b *lineBuf) Line(format string, a ...any) { b.lines = append(b.lines, fmt.Sprintf(format, a...)) }

// enumerate: breadth-first enumeration (through the implementation, deduplicated by the colour/shape
// dump) of every red-black tree reachable with at most `bound` nodes — the search itself also walks
// through trees of up to bound+2 nodes, so that shapes only reachable by shrinking a larger tree are
// found — and for each of them one case per single insertion into every gap and per single deletion
// of every node. Returns the number of distinct shapes (<= bound nodes) probed.
func enumerate(out *lineBuf, bound int, kind string) int {
	type state struct {
		ops  []string
		keys []int
	}
	const lo, hi = -(1 << 40), 1 << 40
	calls := 0
	replay := func(ops []string) rbAPI {
		t := itree.NewRBTree[int, int](func(a, b int) int { calls++; return a - b })
		for _, l := range ops {
			w := strings.Fields(l)
			switch w[0] {
			case "add":
				_ = t.Add(atoi(w[1]), atoi(w[2]))
			case "delete":
				t.Delete(atoi(w[1]))
			}
		}
		return t
	}
	// colour/shape of the tree; without the white-box hook (dump "na") the black-box profile
	// "depth of every key" (number of comparator calls of Find), which determines the shape
	shape := func(t rbAPI, keys []int) string {
		if d := t.VerifDump(func(int) string { return "" }); d != "na" {
			return d
		}
		var b strings.Builder
		b.WriteByte('.')
		for _, k := range keys {
			calls = 0
			_, _ = t.Find(k)
			b.WriteString(strconv.Itoa(calls))
			b.WriteByte(',')
		}
		return b.String()
	}
	seen := map[string]bool{".": true}
	queue := []state{{}}
	probed := 0
	for len(queue) > 0 {
		s := queue[0]
		queue = queue[1:]
		emit := len(s.keys) <= bound
		if emit {
			probed++
		}
		var probes []state
		for i := 0; i <= len(s.keys); i++ {
			a, b := lo, hi
			if i > 0 {
				a = s.keys[i-1]
			}
			if i < len(s.keys) {
				b = s.keys[i]
			}
			m := a + (b-a)/2
			if m == a || m == b {
				continue
			}
			nk := append(append(append([]int{}, s.keys[:i]...), m), s.keys[i:]...)
			probes = append(probes, state{append(append([]string{}, s.ops...), fmt.Sprintf("add %d %d", m, len(s.ops)+1)), nk})
		}
		for i, k := range s.keys {
			nk := append(append([]int{}, s.keys[:i]...), s.keys[i+1:]...)
			probes = append(probes, state{append(append([]string{}, s.ops...), fmt.Sprintf("delete %d", k)), nk})
		}
		for _, p := range probes {
			if emit {
				out.Line("new %s asc", kind)
				for _, l := range p.ops {
					out.Line("%s", l)
				}
			}
			if len(p.keys) > bound+2 {
				continue
			}
			sh := shape(replay(p.ops), p.keys)
			if !seen[sh] {
				seen[sh] = true
				queue = append(queue, p)
			}
		}
	}
	return probed
}

func generate(tier string, out *vlib.Out) {
	r := vlib.NewRng(vlib.Seed())
	// corpus: hand-written cases first
	corpus := []string{
		// what a failed duplicate Add / a hit remembers must survive the successor splice of a two-child Delete next to it
		"new rbtree asc\nadd 2 20\nadd 1 10\nadd 3 30\nadd 3 31\ndelete 2\nset 3 32\nfind 3\nkvs\ndelete 3\nset 3 33\nfind 3\nkvs\nsize",
		"new pubtree asc\nadd 4 40\nadd 2 20\nadd 6 60\nadd 1 10\nadd 3 30\nadd 5 50\nadd 7 70\nfind 5\nadd 5 51\ndelete 4\nset 5 52\nfind 5\nkvs\nfind 3\nadd 3 31\ndelete 2\nset 3 32\nfind 3\nkvs",
		// every failing call, on empty and non-empty containers
		"new rbtree asc\nfind 1\nset 1 5\ndelete 1\nkvs\nsize\nadd 1 10\nadd 1 11\nfind 1\nset 1 12\nset 2 13\nfind 2\ndelete 2\ndelete 1\ndelete 1\nsize\nkvs",
		"new pubtree desc\nadd 1 10\nadd 2 20\nadd 3 30\nadd 2 21\nkvs\ndelete 2\nfind 2\nset 2 5\nkvs\nsize",
		// only the comparator defines equality: 2 and 3 are the same key under `half`; the stored key stays 2
		"new rbtree half\nadd 2 10\nadd 3 11\nset 3 12\nfind 3\nkvs\ndelete 3\nkvs\nadd 3 13\nfind 2\nkvs",
		"new treemap half\nput 2 10\nput 3 11\nget 2\nget 3\nkeys\nvalues\nlen\ndelete 3\nget 2\nput 5 1\nput 4 2\nkeys\nvalues",
		"new linkedmap half\nput 6 1\nput 2 2\nput 4 3\nput 3 4\nput 7 5\nkeys\nvalues\nget 3\ndelete 3\nkeys\nvalues\nput 2 6\nkeys\nvalues\nlen\ndelete 2\ndelete 2\nlen",
		"new multimap asc\nput 1 10\nput 1 11\nputmany 1 12,13\nputmany 2 -\nget 1\nget 2\nget 3\nvalues\nkeys\nlen\ndelete 1\ndelete 1\nget 1\nputmany 1 5\nvalues",
		"new treeset half\nadd 4\nadd 5\nadd 1\nexist 5\nexist 0\nexist 2\nkeys\ndelete 5\nexist 4\nkeys\ndelete 9\nkeys",
		"new treemapof asc 5:50,1:10,9:90,3:30,7:70,2:20,8:80\nkeys\nvalues\nlen\nput 4 40\ndelete 5\nget 5\nkeys",
		"new treemapof desc -\nkeys\nlen\nput 1 1\nkeys",
		// keys of the Go map that are equal under the comparator (2~3, 6~7, -1~0~1 under `half`): putAll runs in
		// map iteration order; the first key put and the last value put of a class survive (any order is legal)
		"new treemapof half 2:10,3:11\nkeys\nvalues\nlen\nget 2\nget 3\nput 3 12\nkeys\nvalues",
		"new treemapof half 6:1,2:2,7:3,3:4,4:5\nkeys\nvalues\nlen\ndelete 7\nkeys",
		"new treemapof half -1:1,0:2,1:3,5:4\nkeys\nvalues\nlen",
		"new treemap nil",
		"new pubtree nil",
		"new treeset nil",
		"new linkedmap nil",
		"new multimap nil",
		// NewTreeMapWithMap must refuse a nil comparator too (empty, one-entry and larger maps: with one
		// entry no comparator call is ever made, so an unguarded constructor would hand out a container)
		"new treemapof nil -",
		"new treemapof nil 1:10",
		"new treemapof nil 2:20,1:10,3:30",
		// delete shapes: red leaf, black leaf with red sibling subtree, node with two children (successor
		// copy: key AND value move), root replacement, drain in both directions
		"new rbtree asc\nadd 10 1\nadd 5 2\nadd 15 3\nadd 3 4\nadd 7 5\nadd 12 6\nadd 18 7\nadd 1 8\nadd 4 9\nadd 6 10\nadd 8 11\ndelete 10\nkvs\ndelete 5\nkvs\ndelete 1\ndelete 3\ndelete 4\ndelete 18\ndelete 15\ndelete 12\ndelete 8\ndelete 7\ndelete 6\nkvs\nsize",
		"new rbtree asc\nadd 1 1\nadd 2 2\nadd 3 3\nadd 4 4\nadd 5 5\nadd 6 6\nadd 7 7\nadd 8 8\nadd 9 9\nadd 10 10\ndelete 1\ndelete 2\ndelete 3\ndelete 4\ndelete 5\ndelete 6\ndelete 7\ndelete 8\ndelete 9\ndelete 10\nsize",
		"new rbtree desc\nadd 1 1\nadd 2 2\nadd 3 3\nadd 4 4\nadd 5 5\nadd 6 6\nadd 7 7\nadd 8 8\ndelete 8\ndelete 7\ndelete 6\ndelete 5\ndelete 4\ndelete 3\ndelete 2\ndelete 1\nadd 1 1\nkvs",
		// zero VALUES under non-zero keys (a stored zero is found, overwriting with zero is an overwrite,
		// the successor copy of a two-child delete moves a zero value too), then key 0 with non-zero values
		"new rbtree asc\nadd 1 0\nfind 1\nsize\nkvs\nset 1 5\nset 1 0\nfind 1\nkvs\nadd 1 0\ndelete 1\nfind 1\nsize",
		"new pubtree asc\nadd 2 7\nadd 1 0\nadd 3 0\nset 2 0\nfind 2\nkvs\nset 2 8\nfind 2\ndelete 2\nkvs\nfind 3\ndelete 3\ndelete 1\nsize",
		"new rbtree asc\nadd 10 1\nadd 5 0\nadd 15 0\nadd 12 0\nadd 18 3\ndelete 10\nkvs\nfind 12\ndelete 15\nkvs",
		"new treemap asc\nput 1 5\nput 1 0\nget 1\nvalues\nlen\nput 2 0\nget 2\nvalues\ndelete 1\nget 1\ndelete 2\nlen",
		"new linkedmap asc\nput 2 5\nput 1 0\nput 2 0\nget 2\nkeys\nvalues\ndelete 1\nvalues\nlen",
		"new multimap asc\nput 1 0\nput 1 0\nputmany 2 0,0\nget 1\nget 2\nvalues\ndelete 1\nget 1\nlen",
		"new treemapof asc 1:0,2:0,3:5\nkeys\nvalues\nget 1\nput 3 0\nvalues\nlen",
		"new rbtree asc\nfind 0\nadd 0 5\nfind 0\nadd 0 6\nset 0 7\nkvs\nadd -1 1\nadd 1 2\nkvs\ndelete 0\nfind 0\nkvs\nsize",
		"new treemap desc\nget 0\nput 0 5\nget 0\nput -3 6\nput 3 7\nkeys\nvalues\ndelete 0\nget 0\nlen",
		"new treeset asc\nexist 0\nadd 0\nexist 0\nadd -2\nadd 2\nkeys\ndelete 0\nexist 0\nkeys",
		// extreme keys (only under `desc`: the other comparators subtract) and extreme / negative / repeated values
		"new rbtree desc\nadd 9223372036854775807 1\nadd -9223372036854775808 2\nadd 0 3\nadd 9223372036854775806 4\nadd -9223372036854775807 5\nkvs\nfind -9223372036854775808\nfind 9223372036854775807\ndelete 0\ndelete 9223372036854775807\nkvs\nsize",
		"new treemap desc\nput 9223372036854775807 -1\nput -9223372036854775808 -1\nput 1 9223372036854775807\nput 2 -9223372036854775808\nkeys\nvalues\nget 2\ndelete -9223372036854775808\nvalues",
		"new rbtree asc\nadd 1 7\nadd 2 7\nadd 3 7\nset 2 7\nset 2 -7\nkvs\ndelete 2\nkvs",
	}
	for _, c := range corpus {
		for _, l := range strings.Split(c, "\n") {
			out.Line("%s", l)
		}
	}
	g := &gen{r: r, out: out}
	// the enumeration walks the REAL tree: if a broken tree makes it hang or panic, it is abandoned
	// (the random cases below then exhibit the problem in run mode, where every call is watched)
	buf := &lineBuf{}
	shapes := 0
	done := make(chan string, 1)
	go func() {
		done <- vlib.Catch(func() {
			if tier == "thorough" {
				shapes = enumerate(buf, 9, "rbtree")
				enumerate(buf, 5, "pubtree")
			} else {
				shapes = enumerate(buf, 5, "rbtree")
			}
		})
	}()
	limit := 15 * time.Second
	if tier == "thorough" {
		limit = 300 * time.Second
	}
	select {
	case p := <-done:
		if p == "" {
			for _, l := range buf.lines {
				out.Line("%s", l)
			}
			out.Line("# enumerated %d distinct reachable tree shapes", shapes)
		} else {
			out.Line("# enumeration abandoned: %s", p)
		}
	case <-time.After(limit):
		out.Line("# enumeration abandoned: the implementation does not return")
	}
	cases := 260
	if tier == "thorough" {
		cases = 4000
	}
	for c := 0; c < cases; c++ {
		genRandomCase(g, tier)
	}
	// NewTreeMapWithMap on random maps (the insertion order is Go's map iteration order: the shape is
	// read from the dump and must be a valid red-black tree holding exactly the map's entries)
	for c := 0; c < cases/20+3; c++ {
		n := vlib.Pick(r, []int{1, 2, 3, 5, 9, 17, 33})
		ps := make([]string, 0, n)
		used := map[int]bool{}
		for len(ps) < n {
			k := r.Range(-40, 40)
			if used[k] {
				continue
			}
			used[k] = true
			ps = append(ps, fmt.Sprintf("%d:%d", k, g.next()))
		}
		cmpName := vlib.Pick(r, []string{"asc", "desc"})
		if n <= 5 && r.Chance(50) {
			// few entries from a narrow range under `half`: some keys are equal under the comparator
			cmpName = "half"
			ps = ps[:0]
			used = map[int]bool{}
			for len(ps) < n {
				k := r.Range(-2, 6)
				if used[k] {
					continue
				}
				used[k] = true
				ps = append(ps, fmt.Sprintf("%d:%d", k, g.next()))
			}
		}
		out.Line("new treemapof %s %s", cmpName, strings.Join(ps, ","))
		g.kind = "treemap"
		g.live = used
		keys := universe(r, 40)
		for s := 0; s < 12; s++ {
			k := vlib.Pick(r, keys)
			switch r.Intn(4) {
			case 0:
				g.insert(k)
			case 1:
				g.remove(k)
			case 2:
				g.lookup(k)
			default:
				g.observe()
			}
		}
	}
}

func main() {
	mode := flag.String("mode", "gen", "gen|run")
	tier := flag.String("tier", "quick", "quick|thorough")
	opsF := flag.String("ops", "", "ops file (run mode)")
	outF := flag.String("out", "", "output file")
	statsF := flag.String("stats", "", "stats json (run mode)")
	flag.Parse()
	out := vlib.Create(*outF)
	defer out.Close()
	switch *mode {
	case "gen":
		generate(*tier, out)
	case "run":
		st := &stats{Ops: map[string]int{}, Results: map[string]int{}, Kinds: map[string]int{}, Cmps: map[string]int{}, Sizes: map[string]int{}}
		run(vlib.ReadLines(*opsF), out, st)
		if *statsF != "" {
			b, _ := json.MarshalIndent(st, "", " ")
			os.WriteFile(*statsF, b, 0o644)
		}
	}
}
