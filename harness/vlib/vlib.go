// Package vlib is the small shared library of the correspondence harnesses:
// a splitmix64 PRNG (every random choice of a run derives from VERIF_SEED), the line-protocol
// writer, canonical rendering of values and errors, and panic capture.
package vlib

import (
	"bufio"
	"fmt"
	"os"
	"regexp"
	"strconv"
	"strings"
)

// Rng is splitmix64.
type Rng struct{ s uint64 }

func NewRng(seed uint64) *Rng { return &Rng{s: seed*0x9E3779B97F4A7C15 + 0x1234567} }
func (r *Rng) U64() uint64 {
	r.s += 0x9E3779B97F4A7C15
	z := r.s
	z = (z ^ (z >> 30)) * 0xBF58476D1CE4E5B9
	z = (z ^ (z >> 27)) * 0x94D049BB133111EB
	return z ^ (z >> 31)
}

// Intn returns a value in [0,n).
func (r *Rng) Intn(n int) int {
	if n <= 0 {
		return 0
	}
	return int(r.U64() % uint64(n))
}

// Range returns a value in [lo,hi].
func (r *Rng) Range(lo, hi int) int { return lo + r.Intn(hi-lo+1) }
func (r *Rng) Bool() bool          { return r.U64()&1 == 1 }
func (r *Rng) Chance(pct int) bool { return r.Intn(100) < pct }
func Pick[T any](r *Rng, xs []T) T { return xs[r.Intn(len(xs))] }

// Fork derives an independent generator (so that adding choices in one place does not shift others).
func (r *Rng) Fork() *Rng { return NewRng(r.U64()) }

// Ints renders a slice the way the Lean driver parses it.
func Ints(xs []int) string {
	if len(xs) == 0 {
		return "-"
	}
	var b strings.Builder
	for i, x := range xs {
		if i > 0 {
			b.WriteByte(',')
		}
		b.WriteString(strconv.Itoa(x))
	}
	return b.String()
}

func ParseInts(s string) []int {
	if s == "-" || s == "" {
		return []int{}
	}
	parts := strings.Split(s, ",")
	out := make([]int, 0, len(parts))
	for _, p := range parts {
		v, err := strconv.Atoi(p)
		if err != nil {
			panic("bad int list: " + s)
		}
		out = append(out, v)
	}
	return out
}

// Hash is the order-sensitive content hash used instead of a dump for long sequences
// (the Lean driver computes the same function).
func Hash(xs []int) uint64 {
	h := uint64(1469598103934665603)
	for _, x := range xs {
		h = h*1099511628211 + uint64(int64(x)) + 0x9E3779B9
	}
	return h
}

var idxRe = regexp.MustCompile(`下标超出范围，长度 (-?\d+), 下标 (-?\d+)`)

// Err canonicalises an error value to the small enum the models use.
func Err(err error) string {
	if err == nil {
		return "ok"
	}
	msg := err.Error()
	if m := idxRe.FindStringSubmatch(msg); m != nil {
		return "err:idx:" + m[1] + ":" + m[2]
	}
	return "err:other"
}

// Catch runs f and renders a panic as "panic:<msg>" (spaces replaced), "" if none.
func Catch(f func()) (p string) {
	defer func() {
		if r := recover(); r != nil {
			p = "panic:" + strings.ReplaceAll(fmt.Sprint(r), " ", "_")
		}
	}()
	f()
	return ""
}

// Out is a buffered line writer.
type Out struct {
	w *bufio.Writer
	f *os.File
	N int
}

func Create(path string) *Out {
	f, err := os.Create(path)
	if err != nil {
		panic(err)
	}
	return &Out{w: bufio.NewWriterSize(f, 1<<20), f: f}
}
func (o *Out) Line(format string, a ...any) {
	fmt.Fprintf(o.w, format, a...)
	o.w.WriteByte('\n')
	o.N++
}
func (o *Out) Close() { o.w.Flush(); o.f.Close() }

// ReadLines returns the non-empty lines of a file.
func ReadLines(path string) []string {
	b, err := os.ReadFile(path)
	if err != nil {
		panic(err)
	}
	var out []string
	for _, l := range strings.Split(string(b), "\n") {
		l = strings.TrimSpace(l)
		if l != "" {
			out = append(out, l)
		}
	}
	return out
}

// Seed reads VERIF_SEED (default 1).
func Seed() uint64 {
	if s := os.Getenv("VERIF_SEED"); s != "" {
		if v, err := strconv.ParseUint(s, 10, 64); err == nil {
			return v
		}
		if v, err := strconv.ParseInt(s, 10, 64); err == nil {
			return uint64(v)
		}
	}
	return 1
}
