// Package vlib is the small shared library of the correspondence harnesses:
// a splitmix64 PRNG (every random choice of a run derives from VERIF_SEED), the line-protocol
// writer, canonical rendering of values and errors, and panic capture.
package vlib

import (
	"bufio"
	"errors"
	"fmt"
	"os"
	"regexp"
	"strconv"
	"strings"

	"github.com/ecodeclub/ekit/internal/errs"
)

// Rng is splitmix64.
type Rng struct{ s uint64 }

// NewRng: the seed is mixed before it becomes the state.  (With state = seed*G + c and a step of +G the
// stream of seed k+1 would be the stream of seed k minus its first output: a sweep over VERIF_SEED=1..n would
// explore one stream at n offsets instead of n streams.)
func NewRng(seed uint64) *Rng {
	z := seed + 0x1234567
	z = (z ^ (z >> 30)) * 0xBF58476D1CE4E5B9
	z = (z ^ (z >> 27)) * 0x94D049BB133111EB
	return &Rng{s: z ^ (z >> 31)}
}
func (r *Rng) U64() uint64 {
	r.s += 0x9E3779B97F4A7C15
	z := r.s
	z = (z ^ (z >> 30)) * 0xBF58476D1CE4E5B9
	z = (z ^ (z >> 27)) * 0x94D049BB133111EB
	return z ^ (z >> 31)
}

// Intn returns a value in [0,n).
func (r *Rng) Intn(n int) int {
	if n <= 0 {
		return 0
	}
	return int(r.U64() % uint64(n))
}

// Range returns a value in [lo,hi].
func (r *Rng) Range(lo, hi int) int { return lo + r.Intn(hi-lo+1) }
func (r *Rng) Bool() bool           { return r.U64()&1 == 1 }
func (r *Rng) Chance(pct int) bool  { return r.Intn(100) < pct }
func Pick[T any](r *Rng, xs []T) T  { return xs[r.Intn(len(xs))] }

// Fork derives an independent generator (so that adding choices in one place does not shift others).
func (r *Rng) Fork() *Rng { return NewRng(r.U64()) }

// Ints renders a slice the way the Lean driver parses it.
func Ints(xs []int) string {
	if len(xs) == 0 {
		return "-"
	}
	var b strings.Builder
	for i, x := range xs {
		if i > 0 {
			b.WriteByte(',')
		}
		b.WriteString(strconv.Itoa(x))
	}
	return b.String()
}

func ParseInts(s string) []int {
	if s == "-" || s == "" {
		return []int{}
	}
	parts := strings.Split(s, ",")
	out := make([]int, 0, len(parts))
	for _, p := range parts {
		v, err := strconv.Atoi(p)
		if err != nil {
			panic("bad int list: " + s)
		}
		out = append(out, v)
	}
	return out
}

// Hash is the order-sensitive content hash used instead of a dump for long sequences
// (the Lean driver computes the same function).
func Hash(xs []int) uint64 {
	h := uint64(1469598103934665603)
	for _, x := range xs {
		h = h*1099511628211 + uint64(int64(x)) + 0x9E3779B9
	}
	return h
}

var digitsRe = regexp.MustCompile(`\d+`)

// intCand is one reading of a digit run of a message (run = index of the run in the message).
type intCand struct {
	run int
	v   int64
}

// intCands lists the integers that occur in msg in order of appearance. A digit run directly preceded
// by '-' is read both as the negative and as the plain number (the '-' may be punctuation).
func intCands(msg string) []intCand {
	var out []intCand
	for k, loc := range digitsRe.FindAllStringIndex(msg, 64) {
		if loc[0] > 0 && msg[loc[0]-1] == '-' {
			if v, err := strconv.ParseInt(msg[loc[0]-1:loc[1]], 10, 64); err == nil {
				out = append(out, intCand{k, v})
			}
		}
		if v, err := strconv.ParseInt(msg[loc[0]:loc[1]], 10, 64); err == nil {
			out = append(out, intCand{k, v})
		}
	}
	return out
}

// MatchInts1 looks for an integer a occurring in msg such that build(a) == msg. It is how the
// harnesses recognise an error made by a one-integer constructor of the library WITHOUT knowing the
// wording of its message: the error is re-built by the library's own constructor and compared.
func MatchInts1(msg string, build func(a int64) string) (int64, bool) {
	for _, c := range intCands(msg) {
		if build(c.v) == msg {
			return c.v, true
		}
	}
	return 0, false
}

// MatchInts2 is MatchInts1 for a two-integer constructor: ordered pairs of integers taken from two
// different digit runs of msg, in order of appearance first.
func MatchInts2(msg string, build func(a, b int64) string) (int64, int64, bool) {
	cs := intCands(msg)
	for pass := 0; pass < 2; pass++ {
		for i, a := range cs {
			for j, b := range cs {
				if a.run == b.run || (pass == 0) != (i < j) {
					continue
				}
				if build(a.v, b.v) == msg {
					return a.v, b.v, true
				}
			}
		}
	}
	return 0, 0, false
}

// IdxErr reports whether err is (or wraps) the error errs.NewErrIndexOutOfRange(length, index) builds,
// by re-building it from the integers of the message (independent of the message's wording).
func IdxErr(err error) (length, index int64, ok bool) {
	for e := err; e != nil; e = errors.Unwrap(e) {
		if a, b, ok := MatchInts2(e.Error(), func(a, b int64) string {
			return errs.NewErrIndexOutOfRange(int(a), int(b)).Error()
		}); ok {
			return a, b, true
		}
	}
	return 0, 0, false
}

// Err canonicalises an error value to the small enum the models use.
func Err(err error) string {
	if err == nil {
		return "ok"
	}
	if a, b, ok := IdxErr(err); ok {
		return "err:idx:" + strconv.FormatInt(a, 10) + ":" + strconv.FormatInt(b, 10)
	}
	return "err:other"
}

// Catch runs f and renders a panic as "panic:<msg>" (spaces replaced), "" if none.
func Catch(f func()) (p string) {
	defer func() {
		if r := recover(); r != nil {
			p = "panic:" + strings.ReplaceAll(fmt.Sprint(r), " ", "_")
		}
	}()
	f()
	return ""
}

// Out is a buffered line writer.
type Out struct {
	w *bufio.Writer
	f *os.File
	N int
}

func Create(path string) *Out {
	f, err := os.Create(path)
	if err != nil {
		panic(err)
	}
	return &Out{w: bufio.NewWriterSize(f, 1<<20), f: f}
}
func (o *Out) Line(format string, a ...any) {
	fmt.Fprintf(o.w, format, a...)
	o.w.WriteByte('\n')
	o.N++
}
func (o *Out) Close() { o.w.Flush(); o.f.Close() }

// ReadLines returns the non-empty lines of a file.
func ReadLines(path string) []string {
	b, err := os.ReadFile(path)
	if err != nil {
		panic(err)
	}
	var out []string
	for _, l := range strings.Split(string(b), "\n") {
		l = strings.TrimSpace(l)
		if l != "" {
			out = append(out, l)
		}
	}
	return out
}

// Seed reads VERIF_SEED (default 1).
func Seed() uint64 {
	if s := os.Getenv("VERIF_SEED"); s != "" {
		if v, err := strconv.ParseUint(s, 10, 64); err == nil {
			return v
		}
		if v, err := strconv.ParseInt(s, 10, 64); err == nil {
			return uint64(v)
		}
	}
	return 1
}

// Shuffle permutes n elements (Fisher–Yates) through swap.
func (r *Rng) Shuffle(n int, swap func(i, j int)) {
	for i := n - 1; i > 0; i-- {
		swap(i, r.Intn(i+1))
	}
}
