// Correspondence harness for C17 (ekit.AnyValue): every accessor on every kind of held value,
// decimal strings around every width boundary (exhaustively for the 8- and 16-bit targets),
// fuzzed strings, the OrDefault forms, a stored Err, JSONScan.
//
//	value -mode gen -tier quick|thorough -out ops.txt     (seed from VERIF_SEED)
//	value -mode run -ops ops.txt -out trace.txt -stats stats.json
//
// Line protocol (see lean/Driver/Value.lean):
//
//	new <held> [stored]        => ok
//	<Accessor>                 => ok:<value> | err:type|syntax|range|stored|json|other | panic:<msg>   [oracle fields]
//	<X>OrDefault <typed value> => ok:<value>
//	JSONScan <target#>         => ok:<json> | err:…     ju=<what encoding/json says for the held bytes>
//
// Held values come in three flavours of one and the same kind: the predeclared type (`str:12`), a type the
// harness defines (`Nstr:12` = MyStr — library code can reach it through reflection only) and a defined type of
// the STANDARD LIBRARY (`Lstr:12` = json.Number, `Lbytes:` = json.RawMessage, `Qbytes:` = sql.RawBytes,
// `Lint64:` = time.Duration, `Lint:` = time.Month, `Luint32:` = fs.FileMode, `Luint:` = reflect.Kind) — the
// only flavour an arm `case json.Number:` of a type switch in value.go can ever match. What decoders and
// database drivers hand out (json.Decoder.UseNumber, sql.RawBytes, …) is of this flavour.
//
// Oracle fields are computed with strconv / encoding/json directly (never through AnyValue):
// pf32/pf64 = strconv.ParseFloat(s, 32|64), n32/n64 = float32 of those, w32 = float64(held float32),
// ff = strconv.FormatFloat(held, 'f', 10, 32|64).
package main

import (
	"database/sql"
	"encoding/json"
	"errors"
	"flag"
	"fmt"
	"io/fs"
	"math"
	"math/big"
	"os"
	"reflect"
	"strconv"
	"strings"
	"time"

	"github.com/ecodeclub/ekit"
	"github.com/ecodeclub/ekit/internal/errs"
	"github.com/ecodeclub/ekit/zzverif/vlib"
)

// ---- defined types (same kinds, not identical to the predeclared types) ----
type (
	MyInt    int
	MyInt8   int8
	MyInt16  int16
	MyInt32  int32
	MyInt64  int64
	MyUint   uint
	MyUint8  uint8
	MyUint16 uint16
	MyUint32 uint32
	MyUint64 uint64
	MyF32    float32
	MyF64    float64
	MyStr    string
	MyBytes  []byte
	MyByte   uint8
	MyBool   bool
	myStruct struct {
		A int
		B string
	}
	myStringer struct{ n int }
)

func (m myStringer) String() string { return "stringer" }
func (m MyInt) String() string      { return "MyInt!" } // AsString must still print the number

var stored = errors.New("stored sentinel")

// ---- encoding ----
func plain(b byte) bool {
	return (b >= '0' && b <= '9') || (b >= 'A' && b <= 'Z') || (b >= 'a' && b <= 'z') || b == '.' || b == '_' || b == '+' || b == '-'
}

func enc(s string) string {
	var b strings.Builder
	for i := 0; i < len(s); i++ {
		if plain(s[i]) {
			b.WriteByte(s[i])
		} else {
			fmt.Fprintf(&b, "%%%02X", s[i])
		}
	}
	return b.String()
}

func dec(s string) string {
	var b []byte
	for i := 0; i < len(s); i++ {
		if s[i] == '%' {
			v, err := strconv.ParseUint(s[i+1:i+3], 16, 8)
			if err != nil {
				panic("bad encoding " + s)
			}
			b = append(b, byte(v))
			i += 2
		} else {
			b = append(b, s[i])
		}
	}
	return string(b)
}

func splitColon(s string) (string, string) {
	if i := strings.IndexByte(s, ':'); i >= 0 {
		return s[:i], s[i+1:]
	}
	return s, ""
}

// ---- held values ----
// libInt: the standard library's defined types of integer kind (flavour L)
func libInt(kind string, p string) any {
	switch kind {
	case "int64":
		v, err := strconv.ParseInt(p, 10, 64)
		if err == nil {
			return time.Duration(v)
		}
	case "int":
		v, err := strconv.ParseInt(p, 10, 64)
		if err == nil {
			return time.Month(v)
		}
	case "uint32":
		v, err := strconv.ParseUint(p, 10, 32)
		if err == nil {
			return fs.FileMode(v)
		}
	case "uint":
		v, err := strconv.ParseUint(p, 10, 64)
		if err == nil {
			return reflect.Kind(v)
		}
	}
	panic("bad held value L" + kind + ":" + p)
}

func mkInt(kind string, named bool, p string) any {
	if strings.HasPrefix(kind, "u") {
		v, err := strconv.ParseUint(p, 10, 64)
		if err != nil {
			panic("bad held value " + kind + ":" + p)
		}
		switch kind {
		case "uint":
			if named {
				return MyUint(v)
			}
			return uint(v)
		case "uint8":
			if named {
				return MyUint8(v)
			}
			return uint8(v)
		case "uint16":
			if named {
				return MyUint16(v)
			}
			return uint16(v)
		case "uint32":
			if named {
				return MyUint32(v)
			}
			return uint32(v)
		case "uint64":
			if named {
				return MyUint64(v)
			}
			return uint64(v)
		}
	}
	v, err := strconv.ParseInt(p, 10, 64)
	if err != nil {
		panic("bad held value " + kind + ":" + p)
	}
	switch kind {
	case "int":
		if named {
			return MyInt(v)
		}
		return int(v)
	case "int8":
		if named {
			return MyInt8(v)
		}
		return int8(v)
	case "int16":
		if named {
			return MyInt16(v)
		}
		return int16(v)
	case "int32":
		if named {
			return MyInt32(v)
		}
		return int32(v)
	case "int64":
		if named {
			return MyInt64(v)
		}
		return int64(v)
	}
	panic("bad held kind " + kind)
}

var sliceTags = []string{"ints", "strs", "nilints", "bytess", "int8s", "empty"}
var otherTags = []string{"ptrint", "ptrstr", "struct", "ptrstruct", "nilptr", "nilmap", "map", "chan", "func", "nilfunc",
	"array", "uintptr", "complex", "err", "stringer", "ptrbytes", "nilchan", "ptrnilstruct",
	// what decoders / database drivers hand out besides the scalar kinds
	"nullint64", "nullstring", "invalidnullint64", "time", "bigint", "ptrjsonnum", "ptrstrnum", "ptrrawbytes"}

func mkHeld(tok string) any {
	k, p := splitColon(tok)
	named := strings.HasPrefix(k, "N")
	if named {
		k = k[1:]
	}
	if strings.HasPrefix(k, "L") || strings.HasPrefix(k, "Q") {
		return mkLib(k[:1], k[1:], p, tok)
	}
	switch k {
	case "nil":
		return nil
	case "f32":
		v, err := strconv.ParseUint(p, 16, 32)
		if err != nil {
			panic(err)
		}
		if named {
			return MyF32(math.Float32frombits(uint32(v)))
		}
		return math.Float32frombits(uint32(v))
	case "f64":
		v, err := strconv.ParseUint(p, 16, 64)
		if err != nil {
			panic(err)
		}
		if named {
			return MyF64(math.Float64frombits(v))
		}
		return math.Float64frombits(v)
	case "str":
		if named {
			return MyStr(dec(p))
		}
		return dec(p)
	case "bytes":
		b := append([]byte{}, dec(p)...)
		if named {
			return MyBytes(b)
		}
		return b
	case "ebytes": // []MyByte: element kind Uint8, not []byte
		s := dec(p)
		b := make([]MyByte, len(s))
		for i := range b {
			b[i] = MyByte(s[i])
		}
		return b
	case "nilbytes":
		if named {
			return MyBytes(nil)
		}
		return []byte(nil)
	case "bool":
		if named {
			return MyBool(p == "true")
		}
		return p == "true"
	case "slice":
		switch p {
		case "ints":
			return []int{1, 2}
		case "strs":
			return []string{"a"}
		case "nilints":
			return []int(nil)
		case "bytess":
			return [][]byte{{1}}
		case "int8s":
			return []int8{49, 50}
		case "empty":
			return []any{}
		}
	case "other":
		x, s := 7, "12"
		switch p {
		case "ptrint":
			return &x
		case "ptrstr":
			return &s
		case "struct":
			return myStruct{1, "b"}
		case "ptrstruct":
			return &myStruct{1, "b"}
		case "nilptr":
			return (*int)(nil)
		case "nilmap":
			return map[string]int(nil)
		case "map":
			return map[string]int{"a": 1}
		case "chan":
			return make(chan int)
		case "nilchan":
			return (chan int)(nil)
		case "func":
			return func() {}
		case "nilfunc":
			return (func())(nil)
		case "array":
			return [3]byte{49, 50, 51}
		case "uintptr":
			return uintptr(12)
		case "complex":
			return complex(1, 2)
		case "err":
			return errors.New("12")
		case "stringer":
			return myStringer{3}
		case "ptrbytes":
			b := []byte("12")
			return &b
		case "ptrnilstruct":
			return (*myStruct)(nil)
		case "nullint64":
			return sql.NullInt64{Int64: 300, Valid: true}
		case "invalidnullint64":
			return sql.NullInt64{Int64: 7}
		case "nullstring":
			return sql.NullString{String: "12", Valid: true}
		case "time":
			return time.Unix(12, 0).UTC()
		case "bigint":
			return big.NewInt(12)
		case "ptrjsonnum":
			n := json.Number("12")
			return &n
		case "ptrstrnum":
			n := "300"
			return &n
		case "ptrrawbytes":
			return &sql.RawBytes{49, 50}
		}
	default:
		return mkInt(k, named, p)
	}
	panic("bad held token " + tok)
}

// mkLib: a held value whose dynamic type is a defined type of the standard library
func mkLib(flavour, k, p, tok string) any {
	switch flavour + k {
	case "Lstr":
		return json.Number(dec(p))
	case "Lbytes":
		return json.RawMessage(append([]byte{}, dec(p)...))
	case "Lnilbytes":
		return json.RawMessage(nil)
	case "Qbytes":
		return sql.RawBytes(append([]byte{}, dec(p)...))
	case "Qnilbytes":
		return sql.RawBytes(nil)
	}
	if flavour == "L" {
		return libInt(k, p)
	}
	panic("bad held token " + tok)
}

// ---- results ----

// curHeld is the value held by the AnyValue under test (set by doRun before every call): the
// conversion errors of value.go are made by errs.NewErrInvalidType(want, held), so they are recognised
// by re-building them with that constructor — not by the wording of their message.
var curHeld any

const wantMark = "\u2039verif-want-mark\u203a"

func isInvalidType(msg string, held any) (yes bool) {
	if p := vlib.Catch(func() {
		// where the constructor puts `want`: build it with a marker and cut there
		tpl := errs.NewErrInvalidType(wantMark, held).Error()
		i := strings.Index(tpl, wantMark)
		if i < 0 {
			return
		}
		pre, suf := tpl[:i], tpl[i+len(wantMark):]
		if len(msg) < len(pre)+len(suf) || !strings.HasPrefix(msg, pre) || !strings.HasSuffix(msg, suf) {
			return
		}
		want := msg[len(pre) : len(msg)-len(suf)]
		yes = errs.NewErrInvalidType(want, held).Error() == msg
	}); p != "" {
		return false
	}
	return yes
}

// AsString builds its "unsupported kind" error in place; the reference is the error the library
// itself returns for a held struct{}{}.
var unsupportedRef struct {
	done, ok bool
	msg      string
}

func isUnsupported(msg string) bool {
	if !unsupportedRef.done {
		unsupportedRef.done = true
		vlib.Catch(func() {
			if _, e := (ekit.AnyValue{Val: struct{}{}}).AsString(); e != nil {
				unsupportedRef.msg, unsupportedRef.ok = e.Error(), true
			}
		})
		if unsupportedRef.ok && isInvalidType(unsupportedRef.msg, struct{}{}) {
			unsupportedRef.ok = false // not a distinct error (any more)
		}
	}
	return unsupportedRef.ok && msg == unsupportedRef.msg
}

func ek(err error) string {
	switch {
	case err == stored:
		return "err:stored"
	case errors.Is(err, strconv.ErrRange):
		return "err:range"
	case errors.Is(err, strconv.ErrSyntax):
		return "err:syntax"
	}
	msg := err.Error()
	if isInvalidType(msg, curHeld) || isUnsupported(msg) {
		return "err:type"
	}
	var e1 *json.SyntaxError
	var e2 *json.UnmarshalTypeError
	var e3 *json.InvalidUnmarshalError
	if errors.As(err, &e1) || errors.As(err, &e2) || errors.As(err, &e3) || strings.Contains(msg, "JSON") {
		return "err:json"
	}
	return "err:other"
}

type sint interface {
	~int | ~int8 | ~int16 | ~int32 | ~int64
}
type usint interface {
	~uint | ~uint8 | ~uint16 | ~uint32 | ~uint64
}

func sI[T sint](f func() (T, error)) string {
	v, err := f()
	if err != nil {
		return ek(err)
	}
	return "ok:" + strconv.FormatInt(int64(v), 10)
}
func sU[T usint](f func() (T, error)) string {
	v, err := f()
	if err != nil {
		return ek(err)
	}
	return "ok:" + strconv.FormatUint(uint64(v), 10)
}
func sF32(f func() (float32, error)) string {
	v, err := f()
	if err != nil {
		return ek(err)
	}
	return "ok:" + strconv.FormatUint(uint64(math.Float32bits(v)), 16)
}
func sF64(f func() (float64, error)) string {
	v, err := f()
	if err != nil {
		return ek(err)
	}
	return "ok:" + strconv.FormatUint(math.Float64bits(v), 16)
}
func sS(f func() (string, error)) string {
	v, err := f()
	if err != nil {
		return ek(err)
	}
	return "ok:" + enc(v)
}
func sB(f func() ([]byte, error)) string {
	v, err := f()
	if err != nil {
		return ek(err)
	}
	return "ok:" + enc(string(v))
}
func sT(f func() (bool, error)) string {
	v, err := f()
	if err != nil {
		return ek(err)
	}
	return "ok:" + strconv.FormatBool(v)
}

var accs = map[string]func(av ekit.AnyValue) string{
	"Int": func(av ekit.AnyValue) string { return sI(av.Int) }, "AsInt": func(av ekit.AnyValue) string { return sI(av.AsInt) },
	"Int8": func(av ekit.AnyValue) string { return sI(av.Int8) }, "AsInt8": func(av ekit.AnyValue) string { return sI(av.AsInt8) },
	"Int16": func(av ekit.AnyValue) string { return sI(av.Int16) }, "AsInt16": func(av ekit.AnyValue) string { return sI(av.AsInt16) },
	"Int32": func(av ekit.AnyValue) string { return sI(av.Int32) }, "AsInt32": func(av ekit.AnyValue) string { return sI(av.AsInt32) },
	"Int64": func(av ekit.AnyValue) string { return sI(av.Int64) }, "AsInt64": func(av ekit.AnyValue) string { return sI(av.AsInt64) },
	"Uint": func(av ekit.AnyValue) string { return sU(av.Uint) }, "AsUint": func(av ekit.AnyValue) string { return sU(av.AsUint) },
	"Uint8": func(av ekit.AnyValue) string { return sU(av.Uint8) }, "AsUint8": func(av ekit.AnyValue) string { return sU(av.AsUint8) },
	"Uint16": func(av ekit.AnyValue) string { return sU(av.Uint16) }, "AsUint16": func(av ekit.AnyValue) string { return sU(av.AsUint16) },
	"Uint32": func(av ekit.AnyValue) string { return sU(av.Uint32) }, "AsUint32": func(av ekit.AnyValue) string { return sU(av.AsUint32) },
	"Uint64": func(av ekit.AnyValue) string { return sU(av.Uint64) }, "AsUint64": func(av ekit.AnyValue) string { return sU(av.AsUint64) },
	"Float32": func(av ekit.AnyValue) string { return sF32(av.Float32) }, "AsFloat32": func(av ekit.AnyValue) string { return sF32(av.AsFloat32) },
	"Float64": func(av ekit.AnyValue) string { return sF64(av.Float64) }, "AsFloat64": func(av ekit.AnyValue) string { return sF64(av.AsFloat64) },
	"String": func(av ekit.AnyValue) string { return sS(av.String) }, "AsString": func(av ekit.AnyValue) string { return sS(av.AsString) },
	"Bytes": func(av ekit.AnyValue) string { return sB(av.Bytes) }, "AsBytes": func(av ekit.AnyValue) string { return sB(av.AsBytes) },
	"Bool": func(av ekit.AnyValue) string { return sT(av.Bool) },
}

func pI(tok string) int64 {
	k, p := splitColon(tok)
	v, err := strconv.ParseInt(p, 10, 64)
	if k != "i" || err != nil {
		panic("bad default " + tok)
	}
	return v
}
func pU(tok string) uint64 {
	k, p := splitColon(tok)
	v, err := strconv.ParseUint(p, 10, 64)
	if k != "i" || err != nil {
		panic("bad default " + tok)
	}
	return v
}
func pF(tok string) uint64 {
	k, p := splitColon(tok)
	v, err := strconv.ParseUint(p, 16, 64)
	if k != "f" || err != nil {
		panic("bad default " + tok)
	}
	return v
}
func pS(tok, want string) string {
	k, p := splitColon(tok)
	if k != want {
		panic("bad default " + tok)
	}
	return dec(p)
}

func fi(v int64) string  { return "ok:" + strconv.FormatInt(v, 10) }
func fu(v uint64) string { return "ok:" + strconv.FormatUint(v, 10) }

var defs = map[string]func(av ekit.AnyValue, d string) string{
	"IntOrDefault":    func(av ekit.AnyValue, d string) string { return fi(int64(av.IntOrDefault(int(pI(d))))) },
	"Int8OrDefault":   func(av ekit.AnyValue, d string) string { return fi(int64(av.Int8OrDefault(int8(pI(d))))) },
	"Int16OrDefault":  func(av ekit.AnyValue, d string) string { return fi(int64(av.Int16OrDefault(int16(pI(d))))) },
	"Int32OrDefault":  func(av ekit.AnyValue, d string) string { return fi(int64(av.Int32OrDefault(int32(pI(d))))) },
	"Int64OrDefault":  func(av ekit.AnyValue, d string) string { return fi(av.Int64OrDefault(pI(d))) },
	"UintOrDefault":   func(av ekit.AnyValue, d string) string { return fu(uint64(av.UintOrDefault(uint(pU(d))))) },
	"Uint8OrDefault":  func(av ekit.AnyValue, d string) string { return fu(uint64(av.Uint8OrDefault(uint8(pU(d))))) },
	"Uint16OrDefault": func(av ekit.AnyValue, d string) string { return fu(uint64(av.Uint16OrDefault(uint16(pU(d))))) },
	"Uint32OrDefault": func(av ekit.AnyValue, d string) string { return fu(uint64(av.Uint32OrDefault(uint32(pU(d))))) },
	"Uint64OrDefault": func(av ekit.AnyValue, d string) string { return fu(av.Uint64OrDefault(pU(d))) },
	"Float32OrDefault": func(av ekit.AnyValue, d string) string {
		return "ok:" + strconv.FormatUint(uint64(math.Float32bits(av.Float32OrDefault(math.Float32frombits(uint32(pF(d)))))), 16)
	},
	"Float64OrDefault": func(av ekit.AnyValue, d string) string {
		return "ok:" + strconv.FormatUint(math.Float64bits(av.Float64OrDefault(math.Float64frombits(pF(d)))), 16)
	},
	"StringOrDefault": func(av ekit.AnyValue, d string) string { return "ok:" + enc(av.StringOrDefault(pS(d, "s"))) },
	"BytesOrDefault": func(av ekit.AnyValue, d string) string {
		return "ok:" + enc(string(av.BytesOrDefault([]byte(pS(d, "b")))))
	},
	"BoolOrDefault": func(av ekit.AnyValue, d string) string {
		return "ok:" + strconv.FormatBool(av.BoolOrDefault(pS(d, "t") == "true"))
	},
}

// ---- JSONScan ----
const nTargets = 7

func jsonTarget(n int) (arg any, deref func() any) {
	switch n {
	case 0:
		v := map[string]any{}
		return &v, func() any { return v }
	case 1:
		v := 0
		return &v, func() any { return v }
	case 2:
		v := ""
		return &v, func() any { return v }
	case 3:
		v := []int{}
		return &v, func() any { return v }
	case 4:
		return nil, func() any { return nil }
	case 5:
		v := map[string]any{}
		return v, func() any { return v } // not a pointer
	default:
		v := myStruct{}
		return &v, func() any { return v }
	}
}

func jsonResult(err error, deref func() any) string {
	if err != nil {
		return ek(err)
	}
	b, merr := json.Marshal(deref())
	if merr != nil {
		return "err:other"
	}
	return "ok:" + enc(string(b))
}

// the bytes a string-kind / byte-slice-kind held value carries (for the oracle)
func payload(held any) ([]byte, bool) {
	if s, ok := textOf(held); ok {
		return []byte(s), true
	}
	if rv := reflect.ValueOf(held); rv.IsValid() && rv.Kind() == reflect.Slice && rv.Type().Elem().Kind() == reflect.Uint8 {
		return append([]byte{}, rv.Bytes()...), true
	}
	return nil, false
}

// the text of a held value of kind string, whatever its type (string, MyStr, json.Number, …)
func textOf(held any) (string, bool) {
	if rv := reflect.ValueOf(held); rv.IsValid() && rv.Kind() == reflect.String {
		return rv.String(), true
	}
	return "", false
}

func pfField(name string, s string, bits int) (string, float64) {
	v, err := strconv.ParseFloat(s, bits)
	k := "ok"
	if err != nil {
		k = "syntax"
		if errors.Is(err, strconv.ErrRange) {
			k = "range"
		}
	}
	return fmt.Sprintf(" %s=%s:%x", name, k, math.Float64bits(v)), v
}

// oracle fields for one call
func oracle(op string, held any) string {
	var b strings.Builder
	switch op {
	case "AsFloat32", "AsFloat64":
		s, isText := textOf(held)
		if !isText {
			return ""
		}
		f1, v1 := pfField("pf32", s, 32)
		f2, v2 := pfField("pf64", s, 64)
		b.WriteString(f1)
		b.WriteString(f2)
		fmt.Fprintf(&b, " n32=%x n64=%x", math.Float32bits(float32(v1)), math.Float32bits(float32(v2)))
	case "AsString":
		switch v := held.(type) {
		case float32:
			fmt.Fprintf(&b, " w32=%x ff=%s", math.Float64bits(float64(v)), enc(strconv.FormatFloat(float64(v), 'f', 10, 32)))
		case MyF32:
			fmt.Fprintf(&b, " w32=%x ff=%s", math.Float64bits(float64(v)), enc(strconv.FormatFloat(float64(v), 'f', 10, 32)))
		case float64:
			fmt.Fprintf(&b, " ff=%s", enc(strconv.FormatFloat(v, 'f', 10, 64)))
		case MyF64:
			fmt.Fprintf(&b, " ff=%s", enc(strconv.FormatFloat(float64(v), 'f', 10, 64)))
		}
	}
	return b.String()
}

// ---- generation ----
type gen struct {
	out *vlib.Out
	r   *vlib.Rng
}

var intKinds = []string{"int", "int8", "int16", "int32", "int64", "uint", "uint8", "uint16", "uint32", "uint64"}
var asInts = []string{"AsInt", "AsInt8", "AsInt16", "AsInt32", "AsInt64", "AsUint", "AsUint8", "AsUint16", "AsUint32", "AsUint64"}
var strictNames = []string{"Int", "Int8", "Int16", "Int32", "Int64", "Uint", "Uint8", "Uint16", "Uint32", "Uint64",
	"Float32", "Float64", "String", "Bytes", "Bool"}
var asNames = append(append([]string{}, asInts...), "AsFloat32", "AsFloat64", "AsString", "AsBytes")

func limits(kind string) (lo, hi *big.Int) {
	bits := 64
	switch {
	case strings.HasSuffix(kind, "8"):
		bits = 8
	case strings.HasSuffix(kind, "16"):
		bits = 16
	case strings.HasSuffix(kind, "32"):
		bits = 32
	}
	one := big.NewInt(1)
	if strings.HasPrefix(kind, "u") {
		return big.NewInt(0), new(big.Int).Sub(new(big.Int).Lsh(one, uint(bits)), one)
	}
	h := new(big.Int).Lsh(one, uint(bits-1))
	return new(big.Int).Neg(h), new(big.Int).Sub(h, one)
}

// defaultsFor: TWO DIFFERENT defaults for one OrDefault form (a single random default equals the held
// value / the zero value too often: `BoolOrDefault` returning the default for a held `false`, or an
// OrDefault returning the zero value instead of the default, went unnoticed on about half of the seeds).
func defaultsFor(name string, r *vlib.Rng) [2]string {
	base := strings.TrimSuffix(name, "OrDefault")
	two := func(prefix string, c []string, encode bool) [2]string {
		var u []string // distinct candidates (for the unsigned kinds the lower limit is "0" again)
		for _, x := range c {
			dup := false
			for _, y := range u {
				dup = dup || x == y
			}
			if !dup {
				u = append(u, x)
			}
		}
		c = u
		i := r.Intn(len(c))
		j := (i + 1 + r.Intn(len(c)-1)) % len(c)
		a, b := c[i], c[j]
		if encode {
			a, b = enc(a), enc(b)
		}
		return [2]string{prefix + a, prefix + b}
	}
	switch base {
	case "Float32":
		return two("f:", []string{"0", "3f800000", "7fc00000", "80000000", "7f7fffff"}, false)
	case "Float64":
		return two("f:", []string{"0", "3ff0000000000000", "7ff8000000000001", "8000000000000000"}, false)
	case "String":
		return two("s:", []string{"", "def", "12", "a b", "默认"}, true)
	case "Bytes":
		return two("b:", []string{"", "def", "\x00\xff"}, true)
	case "Bool":
		return two("t:", []string{"true", "false"}, false)
	}
	lo, hi := limits(strings.ToLower(base))
	return two("i:", []string{lo.String(), hi.String(), "0", "1", "7"}, false)
}

// every accessor, every OrDefault form, a few JSONScan targets
func (g *gen) allOps() {
	for _, n := range strictNames {
		g.out.Line("%s", n)
		for _, d := range defaultsFor(n, g.r) {
			g.out.Line("%sOrDefault %s", n, d)
		}
	}
	for _, n := range asNames {
		g.out.Line("%s", n)
	}
	g.out.Line("JSONScan %d", g.r.Intn(nTargets))
}

func (g *gen) caseAll(tok string) {
	g.out.Line("new %s", tok)
	g.allOps()
	g.out.Line("new %s stored", tok)
	g.allOps()
}

var floatStrings = []string{"1", "1.5", "-0", "0.1", "1e39", "-1e39", "3.4028235e38", "3.4028236e38", "3.4028235677973366e38",
	"1e-46", "1e-45", "1e-324", "1e400", "-1e400", "1.000000059604644775390625", "1.00000005960464477539062500000001",
	"1.000000059604644775390624", "0x1p-2", "0x1.8p1", "inf", "+Inf", "-infinity", "NaN", "nan", "1_000.5", ".5", "5.", "", "e5",
	"1e", "1.5.5", " 1", "1 ", "1,5", "16777217", "16777216.000000001", "4.9e-324", "2.2250738585072011e-308", "１２", "0.000000000000000000000000000000000000000000001401298464324817070923729583289916131280e-0"}

var malformed = []string{"", "-", "+", "--1", "+-1", "-+1", "++1", " 12", "12 ", "1 2", "\t12", "12\n", "1_000", "_1", "1_", "0x10", "0X10", "0b1", "0o7",
	"１２", "१२", "1e3", "1.0", "1.", ".1", "12a", "a12", "ff", "FF", "z", "Z", "+0", "-0", "+00", "-000", "0012", "-0012", "+0012", "0000000000000000000000128",
	"-0000000000000000000000129", "\x00", "1\x002", "\xff", "\x80\x81", "12\x00", "１", "1 ", "nil", "true", "NaN", "∞", "--", "+ 1", "- 1", "1-", "1+", "1+1",
	"999999999999999999999999999999", "-999999999999999999999999999999", "99999999999999999999x", "300x", "200x", "70000x", "x300",
	"18446744073709551616x", "1844674407370955161x", "9223372036854775808x", "-9223372036854775809x", "65536x", "256x", "255x", "-129x", "128x"}

func (g *gen) strCase(s string, ops []string) { g.textCase("str", s, ops) }

// textCase: a held value of kind string and the given flavour ("str", "Nstr" = MyStr, "Lstr" = json.Number)
func (g *gen) textCase(flavour, s string, ops []string) {
	g.out.Line("new %s:%s", flavour, enc(s))
	for _, o := range ops {
		g.out.Line("%s", o)
	}
}

// the flavours of a text holder other than the predeclared string: the same numerals must be read the same
// way (or refused) whatever type carries them
var otherText = []string{"Lstr", "Nstr"}

// numerals for the non-predeclared text holders: every numeral within `w` of a limit of an 8- or 16-bit type
// (the limits of the wider types come with boundaries(), the wide range -70000..70000 is run on `string` only)
func nearLimits(w int64) []string {
	var out []string
	for _, c := range []int64{-32768, -128, 0, 127, 255, 32767, 65535} {
		for d := -w; d <= w; d++ {
			out = append(out, strconv.FormatInt(c+d, 10))
		}
	}
	return out
}

func (g *gen) boundaries() []*big.Int {
	var bs []*big.Int
	one := big.NewInt(1)
	for _, sh := range []uint{0, 7, 8, 15, 16, 31, 32, 63, 64} {
		p := new(big.Int).Lsh(one, sh)
		if sh == 0 {
			p = big.NewInt(0)
		}
		for k := int64(-3); k <= 3; k++ {
			bs = append(bs, new(big.Int).Add(p, big.NewInt(k)))
			bs = append(bs, new(big.Int).Add(new(big.Int).Neg(p), big.NewInt(k)))
		}
	}
	// around the multiplication cutoff of ParseUint (maxUint64/10) and 10^19, 10^20
	for _, s := range []string{"1844674407370955161", "1844674407370955162", "10000000000000000000", "100000000000000000000",
		"922337203685477580", "25", "26", "12", "13", "6553", "6554", "3276", "3277", "429496729", "429496730", "214748364", "214748365"} {
		b, _ := new(big.Int).SetString(s, 10)
		for k := int64(-1); k <= 1; k++ {
			bs = append(bs, new(big.Int).Add(b, big.NewInt(k)))
			bs = append(bs, new(big.Int).Neg(new(big.Int).Add(b, big.NewInt(k))))
		}
	}
	return bs
}

func variants(n *big.Int) []string {
	s := n.String()
	abs := new(big.Int).Abs(n).String()
	sign := ""
	if n.Sign() < 0 {
		sign = "-"
	}
	vs := []string{s, sign + "00" + abs, " " + s, s + " ", s + "0", s + "x", sign + abs[:len(abs)/2] + "_" + abs[len(abs)/2:]}
	if n.Sign() >= 0 {
		vs = append(vs, "+"+s, "+0"+s, "-"+s)
	}
	if n.Sign() == 0 {
		vs = append(vs, "-0", "+0", "-00")
	}
	return vs
}

func (g *gen) fuzzString() string {
	r := g.r
	switch r.Intn(5) {
	case 0: // random over a numeric-looking alphabet
		const alpha = "0123456789+-_ xXeE.a"
		n := r.Intn(24)
		b := make([]byte, n)
		for i := range b {
			b[i] = alpha[r.Intn(len(alpha))]
		}
		return string(b)
	case 1: // a valid numeral with one random edit
		bs := g.boundaries()
		s := new(big.Int).Add(vlib.Pick(r, bs), big.NewInt(int64(r.Range(-40, 40)))).String()
		b := []byte(s)
		pos := r.Intn(len(b) + 1)
		switch r.Intn(3) {
		case 0:
			b = append(b[:pos], append([]byte{byte(r.Intn(256))}, b[pos:]...)...)
		case 1:
			if pos < len(b) {
				b = append(b[:pos], b[pos+1:]...)
			}
		default:
			if pos < len(b) {
				b[pos] = "0123456789+-"[r.Intn(12)]
			}
		}
		return string(b)
	case 2: // digits only, random length up to 25 (crosses every width)
		n := r.Range(1, 25)
		b := make([]byte, n)
		for i := range b {
			b[i] = byte('0' + r.Intn(10))
		}
		if r.Chance(40) {
			return "-" + string(b)
		}
		if r.Chance(10) {
			return "+" + string(b)
		}
		return string(b)
	case 3: // arbitrary bytes
		n := r.Intn(8)
		b := make([]byte, n)
		for i := range b {
			b[i] = byte(r.Intn(256))
		}
		return string(b)
	default: // a random in-range-ish value of a random width
		sh := vlib.Pick(r, []uint{7, 8, 15, 16, 31, 32, 63, 64})
		v := new(big.Int).SetUint64(r.U64())
		v.Rsh(v, 64-sh)
		if r.Bool() {
			v.Neg(v)
		}
		return v.String()
	}
}

func doGen(tier string, out *vlib.Out) {
	g := &gen{out: out, r: vlib.NewRng(vlib.Seed())}
	thorough := tier == "thorough"

	// 1. corpus: the two defects of DESIGN §6 first
	g.strCase("128", []string{"AsInt8"})
	g.out.Line("new nil")
	g.out.Line("AsString")
	g.strCase("-129", []string{"AsInt8", "AsInt16"})
	g.strCase("256", []string{"AsUint8", "AsInt8", "AsUint16"})
	g.strCase("1e39", []string{"AsFloat32", "AsFloat64"})

	// 2. every call on every kind of held value, with and without a stored Err
	held := []string{"nil", "nilbytes", "Nnilbytes", "bool:true", "bool:false", "Nbool:true"}
	for _, k := range intKinds {
		lo, hi := limits(k)
		mid := new(big.Int).Rsh(hi, 1)
		for _, v := range []*big.Int{lo, hi, big.NewInt(0), big.NewInt(1), mid} {
			held = append(held, k+":"+v.String())
		}
		if lo.Sign() < 0 {
			held = append(held, k+":-1", k+":"+new(big.Int).Add(lo, big.NewInt(1)).String())
		}
		held = append(held, "N"+k+":"+hi.String(), "N"+k+":"+lo.String(), "N"+k+":5")
	}
	for _, b := range []string{"0", "80000000", "3f800000", "7f800000", "ff800000", "7fc00000", "7fa00001", "7f7fffff", "1", "3dcccccd", "4b800001", "c2f6e979"} {
		held = append(held, "f32:"+b)
	}
	held = append(held, "Nf32:3fc00000", "Nf64:3ff8000000000000")
	for _, b := range []string{"0", "8000000000000000", "3ff0000000000000", "7ff0000000000000", "fff0000000000000", "7ff8000000000001", "7ff4000000000001",
		"7fefffffffffffff", "1", "3fb999999999999a", "4340000000000001", "47efffffe0000000", "47f0000000000000", "36a0000000000000", "c05edd2f1a9fbe77"} {
		held = append(held, "f64:"+b)
	}
	for _, s := range []string{"", "0", "12", "-12", "128", "abc", "{\"a\":1}", "[1,2]", "5", "\"x\"", "null", "{", "1.5", "a b", "你好", "\xff\x00"} {
		held = append(held, "str:"+enc(s), "bytes:"+enc(s))
	}
	held = append(held, "Nstr:12", "Nstr:"+enc("{\"a\":1}"), "Nbytes:12", "Nebytes:12", "Nbytes:"+enc("[3]"), "Nebytes:")
	// … and the standard library's defined types of the same kinds (what a decoder / a database driver hands out)
	for _, s := range []string{"", "0", "12", "-12", "128", "300", "-129", "40000", "4294967296", "-2147483649", "18446744073709551616",
		"1.5", "1e3", "1e39", "abc", "{\"a\":1}", "\"x\"", "null"} {
		held = append(held, "Lstr:"+enc(s), "Lbytes:"+enc(s), "Qbytes:"+enc(s))
	}
	held = append(held, "Lnilbytes", "Qnilbytes", "Nstr:300", "Nstr:-129", "Nstr:1e39")
	for _, k := range []string{"int64", "int", "uint32", "uint"} {
		lo, hi := limits(k)
		for _, v := range []*big.Int{lo, hi, big.NewInt(0), big.NewInt(1), big.NewInt(5), big.NewInt(300), big.NewInt(40000), big.NewInt(60000000000)} {
			if v.Cmp(lo) >= 0 && v.Cmp(hi) <= 0 {
				held = append(held, "L"+k+":"+v.String())
			}
		}
		if lo.Sign() < 0 {
			held = append(held, "L"+k+":-1", "L"+k+":-129", "L"+k+":-2147483649")
		}
	}
	for _, t := range sliceTags {
		held = append(held, "slice:"+t)
	}
	for _, t := range otherTags {
		held = append(held, "other:"+t)
	}
	for _, h := range held {
		g.caseAll(h)
	}

	// 3. decimal strings: exhaustive for the 8- and 16-bit targets
	small := []string{"AsInt8", "AsUint8", "AsInt16", "AsUint16"}
	for n := -70000; n <= 70000; n++ {
		g.out.Line("new str:%d", n)
		for _, o := range small {
			g.out.Line("%s", o)
		}
	}
	// the same numerals held by a json.Number / a MyStr, near every limit, on every integer accessor
	for _, fl := range otherText {
		for _, n := range nearLimits(300) {
			g.textCase(fl, n, asInts)
		}
	}
	// … and the way back: the exact decimal text of every 8- and 16-bit integer
	for _, k := range []string{"int8", "uint8", "int16", "uint16"} {
		lo, hi := limits(k)
		for v := lo.Int64(); v <= hi.Int64(); v++ {
			g.out.Line("new %s:%d", k, v)
			g.out.Line("AsString")
		}
	}

	// 4. every width boundary, with the notational variants, on every As accessor
	allAs := append(append([]string{}, asNames...), "String", "Int")
	for _, b := range g.boundaries() {
		for i, v := range variants(b) {
			g.strCase(v, allAs)
			g.textCase("Lstr", v, asNames)
			if i == 0 {
				g.textCase("Nstr", v, asNames)
			}
		}
	}
	for _, s := range malformed {
		g.strCase(s, allAs)
		g.textCase("Lstr", s, asNames)
		for _, h := range []string{"bytes", "Lbytes", "Qbytes"} {
			g.out.Line("new %s:%s", h, enc(s))
			for _, o := range []string{"AsString", "AsBytes", "AsInt8", "Bytes"} {
				g.out.Line("%s", o)
			}
		}
	}
	// round trip of extreme values of every integer kind through AsString
	for _, k := range intKinds {
		lo, hi := limits(k)
		for _, d := range []int64{0, 1, 2, 9, 10, 99, 100, 1000} {
			for _, v := range []*big.Int{new(big.Int).Add(lo, big.NewInt(d)), new(big.Int).Sub(hi, big.NewInt(d))} {
				if v.Cmp(lo) < 0 || v.Cmp(hi) > 0 {
					continue
				}
				g.out.Line("new %s:%s", k, v.String())
				g.out.Line("AsString")
				g.out.Line("As%s%s", strings.ToUpper(k[:1]), k[1:])
			}
		}
	}

	// 5. floats: text on the float32/float64 accessors
	for _, s := range floatStrings {
		g.strCase(s, []string{"AsFloat32", "AsFloat64", "Float32", "AsInt", "AsString"})
		for _, fl := range otherText {
			g.textCase(fl, s, []string{"AsFloat32", "AsFloat64", "AsInt", "AsString"})
		}
	}
	nf := 300
	if thorough {
		nf = 20000
	}
	for i := 0; i < nf; i++ {
		var s string
		switch g.r.Intn(4) {
		case 0:
			s = strconv.FormatFloat(math.Float64frombits(g.r.U64()), 'g', -1, 64)
		case 1:
			s = strconv.FormatFloat(float64(math.Float32frombits(uint32(g.r.U64()))), 'g', g.r.Range(1, 20), 64)
		case 2: // near a float32 rounding boundary: a float32 midpoint printed exactly, nudged
			f := math.Float32frombits(uint32(g.r.U64()) & 0x7f7fffff)
			mid := (float64(f) + float64(math.Nextafter32(f, float32(math.Inf(1))))) / 2
			s = strconv.FormatFloat(mid, 'e', 40, 64)
			if g.r.Bool() {
				s = strings.Replace(s, "e", "1e", 1)
			}
		default:
			s = fmt.Sprintf("%d.%de%d", g.r.Intn(1000), g.r.Intn(100000), g.r.Range(-50, 45))
		}
		g.strCase(s, []string{"AsFloat32", "AsFloat64"})
		if i%3 == 0 {
			g.textCase(otherText[(i/3)%len(otherText)], s, []string{"AsFloat32", "AsFloat64"})
		}
	}
	for i := 0; i < nf; i++ {
		g.out.Line("new f32:%x", uint32(g.r.U64()))
		g.out.Line("AsString")
		g.out.Line("Float32")
		g.out.Line("new f64:%x", g.r.U64())
		g.out.Line("AsString")
		g.out.Line("AsFloat64")
	}

	// 6. fuzzed strings on every As accessor
	nz := 2500
	if thorough {
		nz = 150000
	}
	for i := 0; i < nz; i++ {
		s := g.fuzzString()
		g.strCase(s, asNames)
		if i%4 == 0 {
			g.textCase(otherText[(i/4)%len(otherText)], s, asNames)
		}
	}
	if thorough {
		// all 32-bit-boundary neighbourhoods, widely
		for _, c := range []int64{1 << 31, 1 << 32, -(1 << 31)} {
			for d := int64(-20000); d <= 20000; d++ {
				g.strCase(strconv.FormatInt(c+d, 10), []string{"AsInt32", "AsUint32", "AsInt64"})
			}
		}
	}

	// 7. JSONScan: payloads x targets x holder kinds
	payloads := []string{"{\"a\":1}", "[1,2]", "5", "\"x\"", "null", "nul", "", "{", "{\"A\":3,\"B\":\"z\"}", "[1,\"a\"]", "1.5", " 7 ", "\xff"}
	for _, p := range payloads {
		for _, h := range []string{"str:", "bytes:", "Nstr:", "Nbytes:", "Nebytes:", "Lstr:", "Lbytes:", "Qbytes:"} {
			g.out.Line("new %s%s", h, enc(p))
			for t := 0; t < nTargets; t++ {
				g.out.Line("JSONScan %d", t)
			}
		}
	}
	for _, h := range []string{"nil", "int:5", "other:ptrbytes", "slice:int8s", "nilbytes", "bool:true", "f64:0", "Lnilbytes", "Qnilbytes",
		"Lint64:5", "other:ptrjsonnum", "other:ptrrawbytes"} {
		g.out.Line("new %s", h)
		for t := 0; t < nTargets; t++ {
			g.out.Line("JSONScan %d", t)
		}
		g.out.Line("new %s stored", h)
		g.out.Line("JSONScan 0")
		g.out.Line("JSONScan 4")
	}
}

// ---- execution ----
type stats struct {
	Ops      map[string]int `json:"ops"`
	Results  map[string]int `json:"results"`
	Held     map[string]int `json:"held_kinds"`
	StrLens  map[string]int `json:"string_lengths"`
	Cases    int            `json:"cases"`
	Lines    int            `json:"lines"`
	Distinct int            `json:"distinct_state_op_pairs"`
}

func doRun(ops []string, out *vlib.Out, st *stats) {
	var av ekit.AnyValue
	have := false
	cur := ""
	seen := map[string]struct{}{}
	for _, line := range ops {
		w := strings.Fields(line)
		st.Lines++
		if w[0] == "new" {
			st.Cases++
			have = false
			p := vlib.Catch(func() {
				av = ekit.AnyValue{Val: mkHeld(w[1])}
				if len(w) > 2 && w[2] == "stored" {
					av.Err = stored
				}
			})
			if p != "" {
				out.Line("%s => %s", line, p)
				continue
			}
			have = true
			curHeld = av.Val
			cur = strings.Join(w[1:], " ")
			k, pl := splitColon(w[1])
			st.Held[k]++
			if k == "str" {
				l := len(dec(pl))
				switch {
				case l > 20:
					st.StrLens[">20"]++
				case l > 10:
					st.StrLens["11-20"]++
				case l > 5:
					st.StrLens["6-10"]++
				default:
					st.StrLens[strconv.Itoa(l)]++
				}
			}
			out.Line("%s => ok", line)
			continue
		}
		if !have {
			out.Line("%s => no-value", line)
			continue
		}
		st.Ops[w[0]]++
		var res, extra string
		p := vlib.Catch(func() {
			switch {
			case w[0] == "JSONScan":
				n, _ := strconv.Atoi(w[1])
				arg, deref := jsonTarget(n)
				res = jsonResult(av.JSONScan(arg), deref)
				if data, ok := payload(av.Val); ok {
					oarg, oderef := jsonTarget(n)
					extra = " ju=" + jsonResult(json.Unmarshal(data, oarg), oderef)
					if strings.HasPrefix(extra, " ju=err") {
						extra = " ju=err"
					}
				}
			case len(w) == 2:
				f, ok := defs[w[0]]
				if !ok {
					panic("harness: unknown op " + w[0])
				}
				res = f(av, w[1])
			default:
				f, ok := accs[w[0]]
				if !ok {
					panic("harness: unknown op " + w[0])
				}
				res = f(av)
				extra = oracle(w[0], av.Val)
			}
		})
		if p != "" {
			res = p
			extra = oracle(w[0], av.Val)
		}
		rk := res
		if strings.HasPrefix(rk, "ok:") {
			rk = "ok"
		} else if strings.HasPrefix(rk, "panic") {
			rk = "panic"
		}
		st.Results[rk]++
		// distinct (held value, call) pairs that failed or converted (anything but a plain type assertion hit)
		if rk != "ok" || strings.HasPrefix(w[0], "As") || w[0] == "JSONScan" {
			seen[cur+"|"+line] = struct{}{}
		}
		out.Line("%s => %s%s", line, res, extra)
	}
	st.Distinct = len(seen)
}

func main() {
	mode := flag.String("mode", "gen", "gen|run")
	tier := flag.String("tier", "quick", "quick|thorough")
	opsF := flag.String("ops", "", "ops file (run mode)")
	outF := flag.String("out", "", "output file")
	statsF := flag.String("stats", "", "stats json (run mode)")
	flag.Parse()
	out := vlib.Create(*outF)
	defer out.Close()
	switch *mode {
	case "gen":
		doGen(*tier, out)
	case "run":
		st := &stats{Ops: map[string]int{}, Results: map[string]int{}, Held: map[string]int{}, StrLens: map[string]int{}}
		doRun(vlib.ReadLines(*opsF), out, st)
		if *statsF != "" {
			b, _ := json.MarshalIndent(st, "", " ")
			os.WriteFile(*statsF, b, 0o644)
		}
	}
}
