// skel: sync-skeleton extractor (DESIGN §4.1c).
//
// For every function/method of the given Go files it emits a normalised, order-preserving
// skeleton of the synchronisation-relevant actions:
//
//	lock/unlock/rlock/runlock/trylock, defer of those, sync/atomic calls and atomic-typed methods,
//	channel send/receive/close, select (with its arms), go statements, semaphore Acquire/Release,
//	sync.Pool Get/Put, Once.Do, calls to other methods of the same receiver, reads (R) and
//	writes (W) of receiver fields, and the if/for/switch/return/break/continue structure with those
//	guard expressions kept verbatim that mention the receiver or ctx.
//
// Normalised away (harmless rewrites must not change a skeleton): comments, formatting, pure local
// computation, the names of parameters / named results / local variables (printed $1, $2, … in the
// order of first appearance) and of the context parameter (printed ctx), `x++` vs `x += 1` vs `x = x + 1`, a negated guard with
// swapped branches (`!c`, `!=`, `>=`, `>` are printed positively), early return vs else (when exactly one branch
// of an `if` ends the control flow, the statements after it belong to the other branch), and a tag-less
// `switch` vs the if/else-if chain it abbreviates.  Output: a Lean file of string definitions, one per function, which the
// hand-written models compare with the skeleton they were written against (`by decide`).
//
//	skel -root <repo> -out <lean file> -ns <Namespace> file.go[:Type,...] ...
package main

import (
	"bytes"
	"flag"
	"fmt"
	"go/ast"
	"go/parser"
	"go/printer"
	"go/token"
	"os"
	"path/filepath"
	"sort"
	"strings"
)

type ex struct {
	fset *token.FileSet
	recv string // receiver variable name ("" for plain functions)
	env  *env
	b    strings.Builder
}

// env: what is normalised away inside one function — the name of the context parameter (printed as
// "ctx") and the names of parameters, named results and locally declared variables (printed as $1, $2, …
// in the order of their first appearance in the skeleton), so that renaming a local or a parameter, or
// reordering declarations, is invisible.
type env struct {
	ctx    string
	locals map[string]string // declared names; the number is given when the name is first printed
	next   int
}

func newEnv(fd *ast.FuncDecl) *env {
	en := &env{ctx: "ctx", locals: map[string]string{}}
	add := func(id *ast.Ident) {
		if id == nil || id.Name == "_" {
			return
		}
		if _, ok := en.locals[id.Name]; !ok {
			en.locals[id.Name] = ""
		}
	}
	isCtx := func(t ast.Expr) bool {
		if se, ok := t.(*ast.SelectorExpr); ok {
			if pk, ok := se.X.(*ast.Ident); ok && pk.Name == "context" && se.Sel.Name == "Context" {
				return true
			}
		}
		return false
	}
	fields := func(fl *ast.FieldList) {
		if fl == nil {
			return
		}
		for _, f := range fl.List {
			for _, n := range f.Names {
				if isCtx(f.Type) {
					en.ctx = n.Name
					continue
				}
				add(n)
			}
		}
	}
	fields(fd.Type.Params)
	fields(fd.Type.Results)
	ast.Inspect(fd.Body, func(n ast.Node) bool {
		switch v := n.(type) {
		case *ast.AssignStmt:
			if v.Tok == token.DEFINE {
				for _, l := range v.Lhs {
					if id, ok := l.(*ast.Ident); ok {
						add(id)
					}
				}
			}
		case *ast.ValueSpec:
			for _, id := range v.Names {
				add(id)
			}
		case *ast.RangeStmt:
			if v.Tok == token.DEFINE {
				if id, ok := v.Key.(*ast.Ident); ok {
					add(id)
				}
				if id, ok := v.Value.(*ast.Ident); ok {
					add(id)
				}
			}
		case *ast.FuncLit:
			fieldsOf := func(fl *ast.FieldList) {
				if fl == nil {
					return
				}
				for _, f := range fl.List {
					for _, nm := range f.Names {
						add(nm)
					}
				}
			}
			fieldsOf(v.Type.Params)
			fieldsOf(v.Type.Results)
		}
		return true
	})
	delete(en.locals, en.ctx)
	return en
}

func (e *ex) sub() *ex { return &ex{fset: e.fset, recv: e.recv, env: e.env} }

func (e *ex) isCtx(name string) bool {
	return e.env != nil && name == e.env.ctx || e.env == nil && name == "ctx"
}

func (e *ex) src(n ast.Node) string {
	var buf bytes.Buffer
	printer.Fprint(&buf, e.fset, n)
	s := strings.Join(strings.Fields(buf.String()), " ")
	if e.env != nil {
		s = mapIdents(s, func(id string) string {
			if id == e.env.ctx {
				return "ctx"
			}
			if r, ok := e.env.locals[id]; ok && id != e.recv {
				if r == "" { // numbered in the order of first appearance in the skeleton
					e.env.next++
					r = fmt.Sprintf("$%d", e.env.next)
					e.env.locals[id] = r
				}
				return r
			}
			return id
		})
	}
	return s
}

// mapIdents rewrites every identifier of s that is not a selector (not preceded by '.') and not inside a
// string literal.
func mapIdents(s string, f func(string) string) string {
	var out strings.Builder
	isStart := func(c byte) bool { return c == '_' || c >= 'a' && c <= 'z' || c >= 'A' && c <= 'Z' }
	isId := func(c byte) bool { return isStart(c) || c >= '0' && c <= '9' }
	i := 0
	for i < len(s) {
		c := s[i]
		if c == '"' || c == '`' || c == '\'' {
			j := i + 1
			for j < len(s) && s[j] != c {
				if s[j] == '\\' && c != '`' {
					j++
				}
				j++
			}
			if j < len(s) {
				j++
			}
			out.WriteString(s[i:j])
			i = j
			continue
		}
		if isStart(c) && (i == 0 || !isId(s[i-1])) {
			j := i
			for j < len(s) && isId(s[j]) {
				j++
			}
			id := s[i:j]
			if i > 0 && s[i-1] == '.' {
				out.WriteString(id)
			} else {
				out.WriteString(f(id))
			}
			i = j
			continue
		}
		out.WriteByte(c)
		i++
	}
	return out.String()
}

func (e *ex) emit(s string) {
	if e.b.Len() > 0 {
		e.b.WriteString(";")
	}
	e.b.WriteString(s)
}

// recvField returns the field path if expr is recv.f or recv.f.g …
func (e *ex) recvField(x ast.Expr) (string, bool) {
	switch v := x.(type) {
	case *ast.SelectorExpr:
		if id, ok := v.X.(*ast.Ident); ok && e.recv != "" && id.Name == e.recv {
			return v.Sel.Name, true
		}
		if p, ok := e.recvField(v.X); ok {
			return p + "." + v.Sel.Name, true
		}
	case *ast.ParenExpr:
		return e.recvField(v.X)
	case *ast.StarExpr:
		return e.recvField(v.X)
	case *ast.UnaryExpr:
		if v.Op == token.AND {
			return e.recvField(v.X)
		}
	}
	return "", false
}

func (e *ex) mentions(x ast.Node) bool {
	found := false
	ast.Inspect(x, func(n ast.Node) bool {
		if id, ok := n.(*ast.Ident); ok {
			if (e.recv != "" && id.Name == e.recv) || e.isCtx(id.Name) {
				found = true
			}
		}
		return !found
	})
	return found
}

func (e *ex) guard(x ast.Expr) string {
	if x == nil {
		return ""
	}
	// guards are kept verbatim (only the receiver's name is normalised): a changed comparison on
	// values loaded from shared state is exactly what the skeleton must notice
	s := e.src(x)
	if e.recv != "" {
		s = replaceIdent(s, e.recv, "recv")
	}
	return s
}

func replaceIdent(s, from, to string) string {
	var out strings.Builder
	i := 0
	isId := func(c byte) bool {
		return c == '_' || c >= '0' && c <= '9' || c >= 'a' && c <= 'z' || c >= 'A' && c <= 'Z'
	}
	for i < len(s) {
		if strings.HasPrefix(s[i:], from) && (i == 0 || !isId(s[i-1]) && s[i-1] != '.') &&
			(i+len(from) == len(s) || !isId(s[i+len(from)])) {
			out.WriteString(to)
			i += len(from)
			continue
		}
		out.WriteByte(s[i])
		i++
	}
	return out.String()
}

var syncMethods = map[string]string{
	"Lock": "Lock", "Unlock": "Unlock", "RLock": "RLock", "RUnlock": "RUnlock", "TryLock": "TryLock", "TryRLock": "TryRLock",
	"Acquire": "SemAcquire", "TryAcquire": "SemTryAcquire", "Release": "SemRelease",
	"Load": "AtomicLoad", "Store": "AtomicStore", "CompareAndSwap": "CAS", "Swap": "AtomicSwap", "Add": "AtomicAdd",
	"Do": "OnceDo", "Wait": "Wait", "Signal": "Signal", "Broadcast": "Broadcast", "Done": "Done",
	"LoadOrStore": "MapLoadOrStore", "LoadAndDelete": "MapLoadAndDelete", "Delete": "MapDelete", "Range": "MapRange",
	"CompareAndDelete": "MapCompareAndDelete", "Get": "Get", "Put": "Put",
}

var timerMethods = map[string]bool{"Reset": true, "Stop": true, "NewTimer": true, "NewTicker": true, "After": true,
	"AfterFunc": true, "Sleep": true, "Gosched": true, "WithCancel": true, "WithTimeout": true}

// expr walks an expression in evaluation order, emitting the sync-relevant parts.
func (e *ex) expr(x ast.Expr) {
	switch v := x.(type) {
	case nil:
	case *ast.CallExpr:
		// atomic.X(&recv.f, …)
		if sel, ok := v.Fun.(*ast.SelectorExpr); ok {
			if pk, ok := sel.X.(*ast.Ident); ok && pk.Name == "atomic" {
				target := "?"
				if len(v.Args) > 0 {
					if f, ok := e.recvField(v.Args[0]); ok {
						target = f
					} else {
						target = e.src(v.Args[0])
					}
				}
				for _, a := range v.Args[1:] {
					e.expr(a)
				}
				e.emit("atomic." + sel.Sel.Name + "(" + target + ")")
				return
			}
			// recv.field.Method(…)  or recv.Method(…)
			if f, ok := e.recvField(sel.X); ok {
				for _, a := range v.Args {
					e.expr(a)
				}
				if m, ok := syncMethods[sel.Sel.Name]; ok {
					e.emit(m + "(" + f + ")")
				} else {
					e.emit("Call(" + f + "." + sel.Sel.Name + ")")
				}
				return
			}
			if id, ok := sel.X.(*ast.Ident); ok && e.recv != "" && id.Name == e.recv {
				for _, a := range v.Args {
					e.expr(a)
				}
				e.emit("Call(" + sel.Sel.Name + ")")
				return
			}
			// ctx.Err(), ctx.Done()
			if id, ok := sel.X.(*ast.Ident); ok && e.isCtx(id.Name) {
				e.emit("ctx." + sel.Sel.Name)
				return
			}
			// sync / timer operations on locals and packages (timer.Reset, time.NewTimer, m.Lock …)
			if m, ok := syncMethods[sel.Sel.Name]; ok {
				for _, a := range v.Args {
					e.expr(a)
				}
				e.expr(sel.X)
				e.emit(m + "(" + e.src(sel.X) + ")")
				return
			}
			if timerMethods[sel.Sel.Name] {
				for _, a := range v.Args {
					e.expr(a)
				}
				e.emit(sel.Sel.Name + "(" + e.src(sel.X) + ")")
				return
			}
		}
		if id, ok := v.Fun.(*ast.Ident); ok && id.Name == "close" && len(v.Args) == 1 {
			t := "?"
			if f, ok := e.recvField(v.Args[0]); ok {
				t = f
			} else {
				t = e.src(v.Args[0])
			}
			e.emit("Close(" + t + ")")
			return
		}
		e.expr(v.Fun)
		for _, a := range v.Args {
			e.expr(a)
		}
	case *ast.UnaryExpr:
		if v.Op == token.ARROW {
			t := e.src(v.X)
			if f, ok := e.recvField(v.X); ok {
				t = f
			}
			e.expr(v.X)
			e.emit("Recv(" + t + ")")
			return
		}
		e.expr(v.X)
	case *ast.BinaryExpr:
		e.expr(v.X)
		e.expr(v.Y)
	case *ast.ParenExpr:
		e.expr(v.X)
	case *ast.StarExpr:
		e.expr(v.X)
	case *ast.SelectorExpr:
		if f, ok := e.recvField(v); ok {
			e.emit("R(" + f + ")")
			return
		}
		e.expr(v.X)
	case *ast.IndexExpr:
		e.expr(v.X)
		e.expr(v.Index)
	case *ast.SliceExpr:
		e.expr(v.X)
		e.expr(v.Low)
		e.expr(v.High)
	case *ast.CompositeLit:
		for _, el := range v.Elts {
			e.expr(el)
		}
	case *ast.KeyValueExpr:
		e.expr(v.Value)
	case *ast.TypeAssertExpr:
		e.expr(v.X)
	case *ast.FuncLit:
		e.emit("func{")
		sub := e.sub()
		sub.stmts(withJump(v.Body.List, token.RETURN))
		e.b.WriteString(sub.b.String())
		e.b.WriteString("}")
	}
}

func (e *ex) assignTarget(x ast.Expr) {
	if f, ok := e.recvField(x); ok {
		e.emit("W(" + f + ")")
		return
	}
	switch v := x.(type) {
	case *ast.IndexExpr:
		if f, ok := e.recvField(v.X); ok {
			e.expr(v.Index)
			e.emit("W(" + f + "[])")
			return
		}
		e.expr(v.X)
		e.expr(v.Index)
	case *ast.StarExpr:
		e.expr(v.X)
	case *ast.SelectorExpr:
		e.expr(v.X)
	}
}

func (e *ex) nested(open string, f func(sub *ex)) {
	sub := e.sub()
	f(sub)
	e.emit(open + "{" + sub.b.String() + "}")
}

func (e *ex) block(b *ast.BlockStmt) {
	if b == nil {
		return
	}
	e.stmts(b.List)
}

// withJump makes the implicit jump at the end of a body explicit (`continue` at the end of a loop body, `return`
// at the end of a function body), so that writing it out or leaving it out gives the same skeleton.
func withJump(list []ast.Stmt, tok token.Token) []ast.Stmt {
	if terminates(list) {
		return list
	}
	var j ast.Stmt = &ast.ReturnStmt{}
	if tok != token.RETURN {
		j = &ast.BranchStmt{Tok: tok}
	}
	return append(append([]ast.Stmt{}, list...), j)
}

// stmts emits a statement list.  An `if` is put into a canonical form first, so that the usual harmless
// rewrites are invisible: a negated guard (`!c`, `a != b`, `a >= b`, `a > b`) is printed positively with the
// branches swapped, and when exactly one branch ends the control flow of the list (return, break, continue,
// goto, panic) the statements after the `if` belong to the other branch ("early return" = "else").
// A tag-less `switch` without break/fallthrough is the if/else-if chain it abbreviates.
func (e *ex) stmts(list []ast.Stmt) {
	for i, s := range list {
		switch v := s.(type) {
		case *ast.IfStmt:
			if e.ifCanon(v, list[i+1:]) {
				return
			}
			continue
		case *ast.SwitchStmt:
			if chain := switchAsIf(v); chain != nil {
				if v.Init != nil {
					e.stmt(v.Init)
				}
				if e.ifCanon(chain, list[i+1:]) {
					return
				}
				continue
			}
		}
		e.stmt(s)
	}
}

func terminates(list []ast.Stmt) bool {
	if len(list) == 0 {
		return false
	}
	switch v := list[len(list)-1].(type) {
	case *ast.ReturnStmt:
		return true
	case *ast.BranchStmt:
		return v.Tok != token.FALLTHROUGH
	case *ast.BlockStmt:
		return terminates(v.List)
	case *ast.ExprStmt:
		if c, ok := v.X.(*ast.CallExpr); ok {
			if id, ok := c.Fun.(*ast.Ident); ok && id.Name == "panic" {
				return true
			}
		}
	case *ast.IfStmt:
		if v.Else == nil {
			return false
		}
		return terminates(v.Body.List) && terminates([]ast.Stmt{v.Else})
	}
	return false
}

// bareJump: the list is a single return / break / continue / goto whose operands involve no synchronisation
func (e *ex) bareJump(list []ast.Stmt) bool {
	if len(list) != 1 {
		return false
	}
	switch list[0].(type) {
	case *ast.ReturnStmt, *ast.BranchStmt:
		sub := e.sub()
		sub.stmt(list[0])
		out := sub.b.String()
		return out == "return" || out == "break" || out == "continue" || out == "goto"
	}
	return false
}

// canonGuard prints the guard without an outer negation; neg reports that the printed guard is the negation
// of the original one.
func (e *ex) canonGuard(x ast.Expr) (string, bool) {
	switch v := x.(type) {
	case *ast.ParenExpr:
		return e.canonGuard(v.X)
	case *ast.UnaryExpr:
		if v.Op == token.NOT {
			g, n := e.canonGuard(v.X)
			return g, !n
		}
	case *ast.BinaryExpr:
		flip := map[token.Token]token.Token{token.NEQ: token.EQL, token.GEQ: token.LSS, token.GTR: token.LEQ}
		if op, ok := flip[v.Op]; ok {
			c := *v
			c.Op = op
			return e.guard(&c), true
		}
	}
	return e.guard(x), false
}

// ifCanon emits `v` followed by `rest`; it reports whether it consumed `rest`.
func (e *ex) ifCanon(v *ast.IfStmt, rest []ast.Stmt) bool {
	if v.Init != nil {
		e.stmt(v.Init)
	}
	e.expr(v.Cond)
	thenB := v.Body.List
	var elseB []ast.Stmt
	if v.Else != nil {
		if b, ok := v.Else.(*ast.BlockStmt); ok {
			elseB = b.List
		} else {
			elseB = []ast.Stmt{v.Else}
		}
	}
	consumed := false
	if len(rest) > 0 {
		tt, te := terminates(thenB), terminates(elseB)
		switch {
		case !tt && !te && e.bareJump(rest):
			// `if c {A}; return`  =  `if c {A; return} else {return}`: a lone jump after the `if` is part of both branches
			thenB = append(append([]ast.Stmt{}, thenB...), rest...)
			elseB = append(append([]ast.Stmt{}, elseB...), rest...)
			consumed = true
		case tt && !te:
			elseB = append(append([]ast.Stmt{}, elseB...), rest...)
			consumed = true
		case te && !tt:
			thenB = append(append([]ast.Stmt{}, thenB...), rest...)
			consumed = true
		case tt && te:
			consumed = true // unreachable statements
		}
	}
	g, neg := e.canonGuard(v.Cond)
	if neg {
		thenB, elseB = elseB, thenB
	}
	e.nested("if("+g+")", func(sub *ex) { sub.stmts(thenB) })
	if len(elseB) > 0 {
		e.nested("else", func(sub *ex) { sub.stmts(elseB) })
	}
	return consumed
}

// switchAsIf: `switch { case a, b: A; case c: B; default: C }` as if a || b {A} else if c {B} else {C};
// `switch x { case v: … }` with an identifier x compares x == v; nil if the switch has another kind of tag, a break or a fallthrough.
func switchAsIf(v *ast.SwitchStmt) *ast.IfStmt {
	// a tag that is a plain identifier can be compared once per case without changing anything
	var tag *ast.Ident
	if v.Tag != nil {
		id, ok := v.Tag.(*ast.Ident)
		if !ok {
			return nil
		}
		tag = id
	}
	bad := false
	ast.Inspect(v.Body, func(n ast.Node) bool {
		switch b := n.(type) {
		case *ast.BranchStmt:
			if (b.Tok == token.BREAK && b.Label == nil) || b.Tok == token.FALLTHROUGH {
				bad = true
			}
		case *ast.ForStmt, *ast.RangeStmt, *ast.SelectStmt, *ast.FuncLit:
			return false // a break in there does not concern this switch
		case *ast.SwitchStmt:
			return b == v || false
		}
		return !bad
	})
	if bad || len(v.Body.List) == 0 {
		return nil
	}
	var def []ast.Stmt
	hasDef := false
	var clauses []*ast.CaseClause
	for _, c := range v.Body.List {
		cc := c.(*ast.CaseClause)
		if len(cc.List) == 0 {
			def, hasDef = cc.Body, true
		} else {
			clauses = append(clauses, cc)
		}
	}
	if len(clauses) == 0 {
		return nil
	}
	var tail ast.Stmt
	if hasDef {
		tail = &ast.BlockStmt{List: def}
	}
	for i := len(clauses) - 1; i >= 0; i-- {
		cc := clauses[i]
		mk := func(x ast.Expr) ast.Expr {
			if tag != nil {
				return &ast.BinaryExpr{X: tag, Op: token.EQL, Y: x}
			}
			return x
		}
		cond := mk(cc.List[0])
		for _, x := range cc.List[1:] {
			cond = &ast.BinaryExpr{X: cond, Op: token.LOR, Y: mk(x)}
		}
		tail = &ast.IfStmt{Cond: cond, Body: &ast.BlockStmt{List: cc.Body}, Else: tail}
	}
	return tail.(*ast.IfStmt)
}

func (e *ex) stmt(s ast.Stmt) {
	switch v := s.(type) {
	case *ast.ExprStmt:
		e.expr(v.X)
	case *ast.SendStmt:
		e.expr(v.Value)
		t := e.src(v.Chan)
		if f, ok := e.recvField(v.Chan); ok {
			t = f
		}
		e.emit("Send(" + t + ")")
	case *ast.AssignStmt:
		if v.Tok != token.ASSIGN && v.Tok != token.DEFINE {
			// x op= e: the same reads and writes as x = x op e (and x++ for op= 1)
			for _, l := range v.Lhs {
				e.expr(l)
			}
		}
		for _, r := range v.Rhs {
			e.expr(r)
		}
		for _, l := range v.Lhs {
			e.assignTarget(l)
		}
	case *ast.IncDecStmt:
		e.expr(v.X)
		e.assignTarget(v.X)
	case *ast.DeclStmt:
		if gd, ok := v.Decl.(*ast.GenDecl); ok {
			for _, sp := range gd.Specs {
				if vs, ok := sp.(*ast.ValueSpec); ok {
					for _, val := range vs.Values {
						e.expr(val)
					}
				}
			}
		}
	case *ast.DeferStmt:
		e.nested("defer", func(sub *ex) { sub.expr(v.Call) })
	case *ast.GoStmt:
		e.nested("go", func(sub *ex) { sub.expr(v.Call) })
	case *ast.ReturnStmt:
		for _, r := range v.Results {
			e.expr(r)
		}
		e.emit("return")
	case *ast.BranchStmt:
		e.emit(v.Tok.String())
	case *ast.BlockStmt:
		e.block(v)
	case *ast.IfStmt:
		e.ifCanon(v, nil)
	case *ast.ForStmt:
		if v.Init != nil {
			e.stmt(v.Init)
		}
		e.nested("for("+e.guard(v.Cond)+")", func(sub *ex) {
			if v.Cond != nil {
				sub.expr(v.Cond)
			}
			sub.stmts(withJump(v.Body.List, token.CONTINUE))
			if v.Post != nil {
				sub.stmt(v.Post)
			}
		})
	case *ast.RangeStmt:
		e.expr(v.X)
		e.nested("range", func(sub *ex) { sub.stmts(withJump(v.Body.List, token.CONTINUE)) })
	case *ast.SwitchStmt:
		if v.Init != nil {
			e.stmt(v.Init)
		}
		e.expr(v.Tag)
		e.nested("switch("+e.guard(v.Tag)+")", func(sub *ex) {
			for _, c := range v.Body.List {
				cc := c.(*ast.CaseClause)
				lab := "default"
				if len(cc.List) > 0 {
					var gs []string
					for _, x := range cc.List {
						gs = append(gs, sub.guard(x))
					}
					lab = "case(" + strings.Join(gs, ",") + ")"
				}
				sub.nested(lab, func(s2 *ex) { s2.stmts(cc.Body) })
			}
		})
	case *ast.TypeSwitchStmt:
		e.nested("typeswitch", func(sub *ex) {
			for _, c := range v.Body.List {
				cc := c.(*ast.CaseClause)
				sub.nested("case", func(s2 *ex) { s2.stmts(cc.Body) })
			}
		})
	case *ast.SelectStmt:
		e.nested("select", func(sub *ex) {
			for _, c := range v.Body.List {
				cc := c.(*ast.CommClause)
				lab := "default"
				if cc.Comm != nil {
					arm := e.sub()
					arm.stmt(cc.Comm)
					lab = "arm[" + arm.b.String() + "]"
				}
				sub.nested(lab, func(s2 *ex) { s2.stmts(cc.Body) })
			}
		})
	case *ast.LabeledStmt:
		e.stmt(v.Stmt)
	}
}

func leanString(s string) string {
	s = strings.ReplaceAll(s, "\\", "\\\\")
	s = strings.ReplaceAll(s, "\"", "\\\"")
	return "\"" + s + "\""
}

func main() {
	root := flag.String("root", ".", "repo root")
	out := flag.String("out", "", "lean output file")
	ns := flag.String("ns", "Ekit.Gen.Skel", "lean namespace")
	flag.Parse()
	type entry struct{ name, skel string }
	var entries []entry
	for _, arg := range flag.Args() {
		file, filter, _ := strings.Cut(arg, ":")
		want := map[string]bool{}
		for _, t := range strings.Split(filter, ",") {
			if t != "" {
				want[t] = true
			}
		}
		fset := token.NewFileSet()
		f, err := parser.ParseFile(fset, filepath.Join(*root, file), nil, 0)
		if err != nil {
			fmt.Fprintln(os.Stderr, "skel:", err)
			os.Exit(1)
		}
		for _, d := range f.Decls {
			fd, ok := d.(*ast.FuncDecl)
			if !ok || fd.Body == nil {
				continue
			}
			typ, recv := "", ""
			if fd.Recv != nil && len(fd.Recv.List) == 1 {
				t := fd.Recv.List[0].Type
				if st, ok := t.(*ast.StarExpr); ok {
					t = st.X
				}
				if ie, ok := t.(*ast.IndexExpr); ok {
					t = ie.X
				}
				if il, ok := t.(*ast.IndexListExpr); ok {
					t = il.X
				}
				if id, ok := t.(*ast.Ident); ok {
					typ = id.Name
				}
				if len(fd.Recv.List[0].Names) == 1 {
					recv = fd.Recv.List[0].Names[0].Name
				}
			}
			if len(want) > 0 && !want[typ] && !want[fd.Name.Name] {
				continue
			}
			e := &ex{fset: fset, recv: recv, env: newEnv(fd)}
			e.stmts(withJump(fd.Body.List, token.RETURN))
			name := fd.Name.Name
			if typ != "" {
				name = typ + "_" + name
			}
			entries = append(entries, entry{name, e.b.String()})
		}
	}
	sort.Slice(entries, func(i, j int) bool { return entries[i].name < entries[j].name })
	var b strings.Builder
	b.WriteString("/- GENERATED by harness/skel from the Go sources of the current tree — do not edit. -/\n")
	b.WriteString("namespace " + *ns + "\n\n")
	for _, en := range entries {
		fmt.Fprintf(&b, "def %s : String :=\n  %s\n\n", en.name, leanString(en.skel))
	}
	b.WriteString("end " + *ns + "\n")
	if *out == "" {
		fmt.Print(b.String())
		return
	}
	old, _ := os.ReadFile(*out)
	if string(old) != b.String() {
		os.MkdirAll(filepath.Dir(*out), 0o755)
		os.WriteFile(*out, []byte(b.String()), 0o644)
	}
}
