// skel: sync-skeleton extractor (DESIGN §4.1c).
//
// For every function/method of the given Go files it emits a normalised, order-preserving
// skeleton of the synchronisation-relevant actions:
//
//	lock/unlock/rlock/runlock/trylock, defer of those, sync/atomic calls and atomic-typed methods,
//	channel send/receive/close, select (with its arms), go statements, semaphore Acquire/Release,
//	sync.Pool Get/Put, Once.Do, calls to other methods of the same receiver, reads (R) and
//	writes (W) of receiver fields, and the if/for/switch/return/break/continue structure with those
//	guard expressions kept verbatim that mention the receiver or ctx.
//
// Comments, local renames of non-receiver variables, formatting and pure local computation are
// normalised away.  Output: a Lean file of string definitions, one per function, which the
// hand-written models compare with the skeleton they were written against (`by decide`).
//
//	skel -root <repo> -out <lean file> -ns <Namespace> file.go[:Type,...] ...
package main

import (
	"bytes"
	"flag"
	"fmt"
	"go/ast"
	"go/parser"
	"go/printer"
	"go/token"
	"os"
	"path/filepath"
	"sort"
	"strings"
)

type ex struct {
	fset *token.FileSet
	recv string // receiver variable name ("" for plain functions)
	b    strings.Builder
}

func (e *ex) src(n ast.Node) string {
	var buf bytes.Buffer
	printer.Fprint(&buf, e.fset, n)
	return strings.Join(strings.Fields(buf.String()), " ")
}

func (e *ex) emit(s string) {
	if e.b.Len() > 0 {
		e.b.WriteString(";")
	}
	e.b.WriteString(s)
}

// recvField returns the field path if expr is recv.f or recv.f.g …
func (e *ex) recvField(x ast.Expr) (string, bool) {
	switch v := x.(type) {
	case *ast.SelectorExpr:
		if id, ok := v.X.(*ast.Ident); ok && e.recv != "" && id.Name == e.recv {
			return v.Sel.Name, true
		}
		if p, ok := e.recvField(v.X); ok {
			return p + "." + v.Sel.Name, true
		}
	case *ast.ParenExpr:
		return e.recvField(v.X)
	case *ast.StarExpr:
		return e.recvField(v.X)
	case *ast.UnaryExpr:
		if v.Op == token.AND {
			return e.recvField(v.X)
		}
	}
	return "", false
}

func (e *ex) mentions(x ast.Node) bool {
	found := false
	ast.Inspect(x, func(n ast.Node) bool {
		if id, ok := n.(*ast.Ident); ok {
			if (e.recv != "" && id.Name == e.recv) || id.Name == "ctx" {
				found = true
			}
		}
		return !found
	})
	return found
}

func (e *ex) guard(x ast.Expr) string {
	if x == nil {
		return ""
	}
	// guards are kept verbatim (only the receiver's name is normalised): a changed comparison on
	// values loaded from shared state is exactly what the skeleton must notice
	s := e.src(x)
	if e.recv != "" {
		s = replaceIdent(s, e.recv, "recv")
	}
	return s
}

func replaceIdent(s, from, to string) string {
	var out strings.Builder
	i := 0
	isId := func(c byte) bool { return c == '_' || c >= '0' && c <= '9' || c >= 'a' && c <= 'z' || c >= 'A' && c <= 'Z' }
	for i < len(s) {
		if strings.HasPrefix(s[i:], from) && (i == 0 || !isId(s[i-1]) && s[i-1] != '.') &&
			(i+len(from) == len(s) || !isId(s[i+len(from)])) {
			out.WriteString(to)
			i += len(from)
			continue
		}
		out.WriteByte(s[i])
		i++
	}
	return out.String()
}

var syncMethods = map[string]string{
	"Lock": "Lock", "Unlock": "Unlock", "RLock": "RLock", "RUnlock": "RUnlock", "TryLock": "TryLock", "TryRLock": "TryRLock",
	"Acquire": "SemAcquire", "TryAcquire": "SemTryAcquire", "Release": "SemRelease",
	"Load": "AtomicLoad", "Store": "AtomicStore", "CompareAndSwap": "CAS", "Swap": "AtomicSwap", "Add": "AtomicAdd",
	"Do": "OnceDo", "Wait": "Wait", "Signal": "Signal", "Broadcast": "Broadcast", "Done": "Done",
	"LoadOrStore": "MapLoadOrStore", "LoadAndDelete": "MapLoadAndDelete", "Delete": "MapDelete", "Range": "MapRange",
	"CompareAndDelete": "MapCompareAndDelete", "Get": "Get", "Put": "Put",
}

var timerMethods = map[string]bool{"Reset": true, "Stop": true, "NewTimer": true, "NewTicker": true, "After": true,
	"AfterFunc": true, "Sleep": true, "Gosched": true, "WithCancel": true, "WithTimeout": true}

// expr walks an expression in evaluation order, emitting the sync-relevant parts.
func (e *ex) expr(x ast.Expr) {
	switch v := x.(type) {
	case nil:
	case *ast.CallExpr:
		// atomic.X(&recv.f, …)
		if sel, ok := v.Fun.(*ast.SelectorExpr); ok {
			if pk, ok := sel.X.(*ast.Ident); ok && pk.Name == "atomic" {
				target := "?"
				if len(v.Args) > 0 {
					if f, ok := e.recvField(v.Args[0]); ok {
						target = f
					} else {
						target = e.src(v.Args[0])
					}
				}
				for _, a := range v.Args[1:] {
					e.expr(a)
				}
				e.emit("atomic." + sel.Sel.Name + "(" + target + ")")
				return
			}
			// recv.field.Method(…)  or recv.Method(…)
			if f, ok := e.recvField(sel.X); ok {
				for _, a := range v.Args {
					e.expr(a)
				}
				if m, ok := syncMethods[sel.Sel.Name]; ok {
					e.emit(m + "(" + f + ")")
				} else {
					e.emit("Call(" + f + "." + sel.Sel.Name + ")")
				}
				return
			}
			if id, ok := sel.X.(*ast.Ident); ok && e.recv != "" && id.Name == e.recv {
				for _, a := range v.Args {
					e.expr(a)
				}
				e.emit("Call(" + sel.Sel.Name + ")")
				return
			}
			// ctx.Err(), ctx.Done()
			if id, ok := sel.X.(*ast.Ident); ok && id.Name == "ctx" {
				e.emit("ctx." + sel.Sel.Name)
				return
			}
			// sync / timer operations on locals and packages (timer.Reset, time.NewTimer, m.Lock …)
			if m, ok := syncMethods[sel.Sel.Name]; ok {
				for _, a := range v.Args {
					e.expr(a)
				}
				e.expr(sel.X)
				e.emit(m + "(" + e.src(sel.X) + ")")
				return
			}
			if timerMethods[sel.Sel.Name] {
				for _, a := range v.Args {
					e.expr(a)
				}
				e.emit(sel.Sel.Name + "(" + e.src(sel.X) + ")")
				return
			}
		}
		if id, ok := v.Fun.(*ast.Ident); ok && id.Name == "close" && len(v.Args) == 1 {
			t := "?"
			if f, ok := e.recvField(v.Args[0]); ok {
				t = f
			} else {
				t = e.src(v.Args[0])
			}
			e.emit("Close(" + t + ")")
			return
		}
		e.expr(v.Fun)
		for _, a := range v.Args {
			e.expr(a)
		}
	case *ast.UnaryExpr:
		if v.Op == token.ARROW {
			t := e.src(v.X)
			if f, ok := e.recvField(v.X); ok {
				t = f
			}
			e.expr(v.X)
			e.emit("Recv(" + t + ")")
			return
		}
		e.expr(v.X)
	case *ast.BinaryExpr:
		e.expr(v.X)
		e.expr(v.Y)
	case *ast.ParenExpr:
		e.expr(v.X)
	case *ast.StarExpr:
		e.expr(v.X)
	case *ast.SelectorExpr:
		if f, ok := e.recvField(v); ok {
			e.emit("R(" + f + ")")
			return
		}
		e.expr(v.X)
	case *ast.IndexExpr:
		e.expr(v.X)
		e.expr(v.Index)
	case *ast.SliceExpr:
		e.expr(v.X)
		e.expr(v.Low)
		e.expr(v.High)
	case *ast.CompositeLit:
		for _, el := range v.Elts {
			e.expr(el)
		}
	case *ast.KeyValueExpr:
		e.expr(v.Value)
	case *ast.TypeAssertExpr:
		e.expr(v.X)
	case *ast.FuncLit:
		e.emit("func{")
		sub := &ex{fset: e.fset, recv: e.recv}
		sub.block(v.Body)
		e.b.WriteString(sub.b.String())
		e.b.WriteString("}")
	}
}

func (e *ex) assignTarget(x ast.Expr) {
	if f, ok := e.recvField(x); ok {
		e.emit("W(" + f + ")")
		return
	}
	switch v := x.(type) {
	case *ast.IndexExpr:
		if f, ok := e.recvField(v.X); ok {
			e.expr(v.Index)
			e.emit("W(" + f + "[])")
			return
		}
		e.expr(v.X)
		e.expr(v.Index)
	case *ast.StarExpr:
		e.expr(v.X)
	case *ast.SelectorExpr:
		e.expr(v.X)
	}
}

func (e *ex) nested(open string, f func(sub *ex)) {
	sub := &ex{fset: e.fset, recv: e.recv}
	f(sub)
	e.emit(open + "{" + sub.b.String() + "}")
}

func (e *ex) block(b *ast.BlockStmt) {
	if b == nil {
		return
	}
	for _, s := range b.List {
		e.stmt(s)
	}
}

func (e *ex) stmt(s ast.Stmt) {
	switch v := s.(type) {
	case *ast.ExprStmt:
		e.expr(v.X)
	case *ast.SendStmt:
		e.expr(v.Value)
		t := e.src(v.Chan)
		if f, ok := e.recvField(v.Chan); ok {
			t = f
		}
		e.emit("Send(" + t + ")")
	case *ast.AssignStmt:
		for _, r := range v.Rhs {
			e.expr(r)
		}
		for _, l := range v.Lhs {
			e.assignTarget(l)
		}
	case *ast.IncDecStmt:
		e.expr(v.X)
		e.assignTarget(v.X)
	case *ast.DeclStmt:
		if gd, ok := v.Decl.(*ast.GenDecl); ok {
			for _, sp := range gd.Specs {
				if vs, ok := sp.(*ast.ValueSpec); ok {
					for _, val := range vs.Values {
						e.expr(val)
					}
				}
			}
		}
	case *ast.DeferStmt:
		e.nested("defer", func(sub *ex) { sub.expr(v.Call) })
	case *ast.GoStmt:
		e.nested("go", func(sub *ex) { sub.expr(v.Call) })
	case *ast.ReturnStmt:
		for _, r := range v.Results {
			e.expr(r)
		}
		e.emit("return")
	case *ast.BranchStmt:
		e.emit(v.Tok.String())
	case *ast.BlockStmt:
		e.block(v)
	case *ast.IfStmt:
		if v.Init != nil {
			e.stmt(v.Init)
		}
		e.expr(v.Cond)
		e.nested("if("+e.guard(v.Cond)+")", func(sub *ex) { sub.block(v.Body) })
		if v.Else != nil {
			e.nested("else", func(sub *ex) { sub.stmt(v.Else) })
		}
	case *ast.ForStmt:
		if v.Init != nil {
			e.stmt(v.Init)
		}
		e.nested("for("+e.guard(v.Cond)+")", func(sub *ex) {
			if v.Cond != nil {
				sub.expr(v.Cond)
			}
			sub.block(v.Body)
			if v.Post != nil {
				sub.stmt(v.Post)
			}
		})
	case *ast.RangeStmt:
		e.expr(v.X)
		e.nested("range", func(sub *ex) { sub.block(v.Body) })
	case *ast.SwitchStmt:
		if v.Init != nil {
			e.stmt(v.Init)
		}
		e.expr(v.Tag)
		e.nested("switch("+e.guard(v.Tag)+")", func(sub *ex) {
			for _, c := range v.Body.List {
				cc := c.(*ast.CaseClause)
				lab := "default"
				if len(cc.List) > 0 {
					var gs []string
					for _, x := range cc.List {
						gs = append(gs, sub.guard(x))
					}
					lab = "case(" + strings.Join(gs, ",") + ")"
				}
				sub.nested(lab, func(s2 *ex) {
					for _, st := range cc.Body {
						s2.stmt(st)
					}
				})
			}
		})
	case *ast.TypeSwitchStmt:
		e.nested("typeswitch", func(sub *ex) {
			for _, c := range v.Body.List {
				cc := c.(*ast.CaseClause)
				sub.nested("case", func(s2 *ex) {
					for _, st := range cc.Body {
						s2.stmt(st)
					}
				})
			}
		})
	case *ast.SelectStmt:
		e.nested("select", func(sub *ex) {
			for _, c := range v.Body.List {
				cc := c.(*ast.CommClause)
				lab := "default"
				if cc.Comm != nil {
					arm := &ex{fset: e.fset, recv: e.recv}
					arm.stmt(cc.Comm)
					lab = "arm[" + arm.b.String() + "]"
				}
				sub.nested(lab, func(s2 *ex) {
					for _, st := range cc.Body {
						s2.stmt(st)
					}
				})
			}
		})
	case *ast.LabeledStmt:
		e.stmt(v.Stmt)
	}
}

func leanString(s string) string {
	s = strings.ReplaceAll(s, "\\", "\\\\")
	s = strings.ReplaceAll(s, "\"", "\\\"")
	return "\"" + s + "\""
}

func main() {
	root := flag.String("root", ".", "repo root")
	out := flag.String("out", "", "lean output file")
	ns := flag.String("ns", "Ekit.Gen.Skel", "lean namespace")
	flag.Parse()
	type entry struct{ name, skel string }
	var entries []entry
	for _, arg := range flag.Args() {
		file, filter, _ := strings.Cut(arg, ":")
		want := map[string]bool{}
		for _, t := range strings.Split(filter, ",") {
			if t != "" {
				want[t] = true
			}
		}
		fset := token.NewFileSet()
		f, err := parser.ParseFile(fset, filepath.Join(*root, file), nil, 0)
		if err != nil {
			fmt.Fprintln(os.Stderr, "skel:", err)
			os.Exit(1)
		}
		for _, d := range f.Decls {
			fd, ok := d.(*ast.FuncDecl)
			if !ok || fd.Body == nil {
				continue
			}
			typ, recv := "", ""
			if fd.Recv != nil && len(fd.Recv.List) == 1 {
				t := fd.Recv.List[0].Type
				if st, ok := t.(*ast.StarExpr); ok {
					t = st.X
				}
				if ie, ok := t.(*ast.IndexExpr); ok {
					t = ie.X
				}
				if il, ok := t.(*ast.IndexListExpr); ok {
					t = il.X
				}
				if id, ok := t.(*ast.Ident); ok {
					typ = id.Name
				}
				if len(fd.Recv.List[0].Names) == 1 {
					recv = fd.Recv.List[0].Names[0].Name
				}
			}
			if len(want) > 0 && !want[typ] && !want[fd.Name.Name] {
				continue
			}
			e := &ex{fset: fset, recv: recv}
			e.block(fd.Body)
			name := fd.Name.Name
			if typ != "" {
				name = typ + "_" + name
			}
			entries = append(entries, entry{name, e.b.String()})
		}
	}
	sort.Slice(entries, func(i, j int) bool { return entries[i].name < entries[j].name })
	var b strings.Builder
	b.WriteString("/- GENERATED by harness/skel from the Go sources of the current tree — do not edit. -/\n")
	b.WriteString("namespace " + *ns + "\n\n")
	for _, en := range entries {
		fmt.Fprintf(&b, "def %s : String :=\n  %s\n\n", en.name, leanString(en.skel))
	}
	b.WriteString("end " + *ns + "\n")
	if *out == "" {
		fmt.Print(b.String())
		return
	}
	old, _ := os.ReadFile(*out)
	if string(old) != b.String() {
		os.MkdirAll(filepath.Dir(*out), 0o755)
		os.WriteFile(*out, []byte(b.String()), 0o644)
	}
}
