// Correspondence harness for C19 (retry): drives the real retry strategies and retry.Retry
// in-process and writes one "op => observation" line per op.
//
//	retry -mode gen -tier quick|thorough -part next|loop -out ops.txt     (seed from VERIF_SEED)
//	retry -mode run -ops ops.txt -out trace.txt -stats stats.json
//
// ops (a case starts with `new`):
//
//	new exp <initial ns> <max ns> <maxRetries>     NewExponentialBackoffRetryStrategy
//	new fixed <interval ns> <maxRetries>           NewFixedIntervalRetryStrategy
//	next                                           one Next()
//	burn <k>                                       k sequential Next() calls, only counted
//	conc <g> <p>                                   g goroutines call Next() p times each, concurrently
//	race3 <trials>                                 three goroutines, one Next() each on a fresh strategy of the same
//	                                               configuration, repeated; stops at the first out-of-bounds interval
//	burst <rounds> <g> <k>                         rounds x (fresh strategy of the same configuration, g goroutines released
//	                                               together by a spin barrier, k Next() calls each): the smallest and largest
//	                                               number of grants seen in a round, their histogram, min/max granted interval
//	retry <fails> <durs> <ctxkind> <ctxarg>        retry.Retry with a scripted bizFunc:
//	      fails: invocation k fails iff k < fails (fails = -1: always); durs: comma list (ns, cycled) of
//	      how long each invocation sleeps; ctx: none 0 | timeout T | cancel T | pre 0
//
// All times in observations are nanoseconds on Go's monotonic clock relative to the start of the op;
// they are oracle values: the Lean driver asserts lower bounds only (gap >= interval, ctx not early).
package main

import (
	"context"
	"encoding/json"
	"errors"
	"flag"
	"fmt"
	"math"
	"os"
	"runtime"
	"sort"
	"strconv"
	"strings"
	"sync"
	"sync/atomic"
	"time"

	"github.com/ecodeclub/ekit/internal/errs"
	"github.com/ecodeclub/ekit/retry"
	"github.com/ecodeclub/ekit/zzverif/vlib"
)

const maxI64 = int64(math.MaxInt64)

// ---------------------------------------------------------------------------------------------
// generation

func i64s(xs []int64) string {
	if len(xs) == 0 {
		return "-"
	}
	var b strings.Builder
	for i, x := range xs {
		if i > 0 {
			b.WriteByte(',')
		}
		b.WriteString(strconv.FormatInt(x, 10))
	}
	return b.String()
}

func emit(out *vlib.Out, c string) {
	for _, l := range strings.Split(c, "\n") {
		out.Line("%s", l)
	}
}

func rep(s string, n int) string {
	return strings.TrimSuffix(strings.Repeat(s+"\n", n), "\n")
}

// safeConc: configurations for which the concurrent bounds theorem (c19_conc_in_bounds_partial)
// applies: initial*initial <= 2^63. The complement is known finding C19-R and is exercised only by
// the dedicated reproduction of the thorough tier.
func safeConc(initial int64) bool { return initial > 0 && initial <= 3037000499 }

func genNext(tier string, out *vlib.Out) {
	r := vlib.NewRng(vlib.Seed())
	cases := 1500
	if tier == "thorough" {
		cases = 20000
	}
	corpus := []string{
		// DESIGN §6 #15 configuration, sequentially (first_overflow_negative: the cap is hit, never a wrapped value)
		"new exp 4611686018427387905 9223372036854775807 0\n" + rep("next", 6),
		"new exp 1 9223372036854775807 0\n" + rep("next", 70),
		"new exp 1 9223372036854775806 -1\n" + rep("next", 70),
		"new exp 3 9223372036854775807 0\n" + rep("next", 70),
		"new exp 100 1000 1\nnext\nnext\nnext",
		"new exp 100 1000 5\n" + rep("next", 8),
		"new exp 10 10 3\n" + rep("next", 5),
		"new exp 0 10 1",
		"new exp -5 10 1",
		"new exp 11 10 1",
		"new exp 9223372036854775807 9223372036854775807 2\nnext\nnext\nnext",
		"new fixed 0 3",
		"new fixed -1 3",
		"new fixed 1000 3\n" + rep("next", 5),
		"new fixed 1000 0\n" + rep("next", 5) + "\nburn 1000\nnext",
		"new fixed 7 1\nconc 4 50\nnext",
		"new exp 1000000 50000000 5\nconc 8 40\nnext\nconc 2 3",
		"new exp 1000000 50000000 0\nconc 8 40\nnext\nconc 3 1",
		"new exp 2 9223372036854775807 0\nconc 6 30\nconc 6 30\nnext",
		// budget in the middle of a contended batch: a lost counter update shows up as an extra grant
		"new fixed 7 500\nconc 8 250\nnext",
		"new exp 1000 64000 700\nconc 8 250\nnext",
		"new exp 1000 64000 6000\nconc 8 1500\nnext",
		"new fixed 7 300\nconc 4 200\nconc 4 200",
		// many short rounds of simultaneous callers right at the budget boundary (grants must be exactly min(N, maxRetries))
		"new fixed 7 3\nburst 3000 8 4",
		"new fixed 1000000 1\nburst 3000 2 1\nburst 2000 4 2",
		"new fixed 5 2\nburst 3000 4 1\nburst 2000 3 3",
		"new fixed 9 4\nburst 3000 8 1",
		"new fixed 9 0\nburst 500 4 3",
		"new exp 1000 64000 3\nburst 3000 8 4",
		"new exp 1000000 50000000 1\nburst 3000 2 1\nburst 2000 4 2",
		"new exp 2 9223372036854775807 2\nburst 3000 4 1",
		"new exp 7 7 4\nburst 3000 8 1\nburst 1000 3 70",
		"new exp 1 9223372036854775807 0\nburst 300 4 20",
		// the extreme budgets: MaxInt32 ("practically unlimited", every call granted without an `unlimited` shortcut),
		// MaxInt32-1, MinInt32 and other negatives (unlimited), on both strategies; max interval == initial interval
		"new fixed 7 2147483647\n" + rep("next", 5) + "\nburn 3000\nnext\nconc 4 20\nnext",
		"new exp 3 100 2147483647\n" + rep("next", 9) + "\nburn 3000\nnext\nconc 4 20\nnext",
		"new fixed 7 2147483646\n" + rep("next", 3),
		"new exp 5 5 2147483646\n" + rep("next", 3),
		"new fixed 7 -2147483648\n" + rep("next", 5) + "\nburn 3000\nnext",
		"new exp 3 100 -2147483648\n" + rep("next", 9) + "\nburn 3000\nnext",
		"new fixed 7 -1\n" + rep("next", 5) + "\nburst 200 4 3",
		"new fixed 1 -7\n" + rep("next", 3),
		"new exp 1 1 -2\n" + rep("next", 4),
		"new exp 9223372036854775807 9223372036854775807 2147483647\nnext\nnext\nnext",
		"new fixed 9223372036854775807 1\nnext\nnext",
		"new fixed -9223372036854775808 1",
		"new exp -9223372036854775808 -9223372036854775808 0",
		"new exp 1 0 0",
		"new exp 1 -1 3",
	}
	for _, c := range corpus {
		emit(out, c)
	}
	initials := []int64{1, 2, 3, 7, 1000, 1000000, 100000000, 1 << 31, 3037000499, 3037000500, (1 << 40) + 1, 1 << 61,
		(1 << 62) - 1, 1 << 62, (1 << 62) + 1, (1 << 62) + 2, maxI64 - 1, maxI64}
	budgets := []int{-1, 0, 1, 2, 3, 4, 5, 5, 70, 200, 400, -1, 0, 1, 2, 3, 4, 5, 5, 70, 200, 400, math.MaxInt32, math.MinInt32, -2}
	for c := 0; c < cases; c++ {
		var initial int64
		if r.Chance(70) {
			initial = vlib.Pick(r, initials)
		} else {
			initial = int64(r.U64()>>uint(1+r.Intn(63))) + 1
			if initial <= 0 {
				initial = 1
			}
		}
		if r.Chance(8) { // malformed stream
			initial = vlib.Pick(r, []int64{0, -1, -initial, math.MinInt64})
		}
		var max int64
		switch r.Intn(8) {
		case 0:
			max = initial
		case 1:
			max = maxI64
		case 2:
			max = initial + int64(r.Intn(3))
		case 3:
			max = initial - 1 - int64(r.Intn(3)) // invalid: below initial
		default:
			k := uint(r.Intn(66))
			if initial > 0 && k < 63 && initial <= maxI64>>k {
				max = initial<<k + int64(r.Intn(3)) - 1
			} else {
				max = maxI64 - int64(r.Intn(3))
			}
		}
		if initial > 0 && max < initial && !r.Chance(20) {
			max = initial
		}
		mr := vlib.Pick(r, budgets)
		fixed := r.Chance(20)
		if fixed {
			out.Line("new fixed %d %d", initial, mr)
		} else {
			out.Line("new exp %d %d %d", initial, max, mr)
		}
		steps := r.Range(1, 12)
		if r.Chance(40) {
			steps = r.Range(60, 80)
		}
		for s := 0; s < steps; s++ {
			p := r.Intn(100)
			switch {
			case p < 85:
				out.Line("next")
			case p < 90:
				out.Line("burn %d", vlib.Pick(r, []int{1, 2, 5, 63, 64, 100, 3000}))
			default:
				if (fixed || safeConc(initial)) && r.Chance(15) {
					out.Line("burst %d %d %d", vlib.Pick(r, []int{50, 200, 600}), r.Range(2, 8), vlib.Pick(r, []int{1, 1, 2, 4}))
				} else if fixed || safeConc(initial) {
					out.Line("conc %d %d", r.Range(2, 8), vlib.Pick(r, []int{1, 1, 2, 5, 20, 60, 150}))
				} else {
					out.Line("next")
				}
			}
		}
	}
}

func genLoop(tier string, out *vlib.Out) {
	r := vlib.NewRng(vlib.Seed() + 7777)
	cases := 350
	if tier == "thorough" {
		cases = 3000
	}
	const ms = 1000000
	corpus := []string{
		// DESIGN §6 #11: operation slower than the interval (a tick buffered during the operation must not end the next wait)
		"new fixed 3000000 3\nretry -1 8000000 none 0",
		"new fixed 2000000 4\nretry 4 5000000,0,5000000,0 none 0",
		"new exp 1000000 4000000 4\nretry -1 3000000 none 0",
		"new fixed 1000000 2\nretry 0 0 none 0\nretry 1 0 none 0\nretry 5 0 none 0",
		"new fixed 1200000000 2\nretry -1 0 timeout 5000000",
		"new fixed 1200000000 2\nretry -1 0 cancel 4000000",
		"new fixed 1200000000 2\nretry -1 0 pre 0",
		"new fixed 1000000 0\nretry -1 500000 timeout 12000000",
		"new exp 1000000 2000000 0\nretry 3 2000000 pre 0",
		"new fixed 2000000 3\nretry -1 6000000 cancel 3000000",
	}
	for _, c := range corpus {
		emit(out, c)
	}
	for c := 0; c < cases; c++ {
		d := int64(vlib.Pick(r, []int{1, 2, 3, 5})) * ms
		mr := vlib.Pick(r, []int{1, 2, 3, 4, 0, -1})
		if r.Chance(35) {
			out.Line("new exp %d %d %d", d/2+1, d*2, mr)
		} else {
			out.Line("new fixed %d %d", d, mr)
		}
		nops := r.Range(1, 2)
		for o := 0; o < nops; o++ {
			fails := vlib.Pick(r, []int{0, 1, 2, 3, 4, -1})
			ck, ca := "none", int64(0)
			switch p := r.Intn(100); {
			case p < 8:
				ck = "pre"
			case p < 20:
				ck, ca = "timeout", int64(r.Range(1, 12))*ms
			case p < 32:
				ck, ca = "cancel", int64(r.Range(1, 12))*ms
			}
			if fails == -1 && mr <= 0 && ck == "none" {
				fails = 3 // would never end
			}
			nd := r.Range(1, 3)
			durs := make([]int64, nd)
			for i := range durs {
				switch r.Intn(5) {
				case 0:
					durs[i] = 0
				case 1:
					durs[i] = d / 2
				case 2:
					durs[i] = d
				case 3:
					durs[i] = 2*d + ms/2
				default:
					durs[i] = 3 * d
				}
			}
			out.Line("retry %d %s %s %d", fails, i64s(durs), ck, ca)
		}
	}
	// the context ends during a long wait: the margin between the context and the timer is seconds
	for c := 0; c < 6; c++ {
		out.Line("new fixed %d %d", int64(1000+r.Intn(500))*ms, r.Range(1, 3))
		if r.Bool() {
			out.Line("retry -1 %d timeout %d", int64(r.Intn(3))*ms, int64(r.Range(2, 10))*ms)
		} else {
			out.Line("retry -1 %d cancel %d", int64(r.Intn(3))*ms, int64(r.Range(2, 10))*ms)
		}
	}
}

// ---------------------------------------------------------------------------------------------
// execution

type stats struct {
	Ops         map[string]int `json:"ops"`
	Results     map[string]int `json:"results"`
	Kinds       map[string]int `json:"kinds"`
	MaxCalls    int            `json:"max_calls_on_one_strategy"`
	CapHits     int            `json:"next_calls_returning_max_interval"`
	Denied      int            `json:"next_calls_denied"`
	ConcCalls   int            `json:"concurrent_next_calls"`
	BurstRounds int            `json:"burst_rounds"`
	SlowOps     int            `json:"retry_invocations_slower_than_interval"`
	Waits       int            `json:"retry_waits_measured"`
	MinSlack    int64          `json:"min_gap_minus_interval_ns"`
	Cases       int            `json:"cases"`
	Lines       int            `json:"lines"`
	Distinct    int            `json:"distinct_state_op_pairs"`
	TimerChan   string         `json:"godebug"`
}

type strat struct {
	kind    string
	exp     *retry.ExponentialBackoffRetryStrategy
	fix     *retry.FixedIntervalRetryStrategy
	conf    string
	initial int64
	max     int64
	budget  int32
}

// fresh builds a new strategy with the same configuration
func (s *strat) fresh() retry.Strategy {
	if s.exp != nil {
		n, _ := retry.NewExponentialBackoffRetryStrategy(time.Duration(s.initial), time.Duration(s.max), s.budget)
		return n
	}
	n, _ := retry.NewFixedIntervalRetryStrategy(time.Duration(s.initial), s.budget)
	return n
}

// race3: `trials` times, three goroutines call Next once each, as simultaneously as possible, on a
// fresh strategy; stops at the first interval outside [initial, max].
//
// Returns the number of trials done, whether an out-of-bounds interval was seen and which (zero is a value
// like any other, not a sentinel), and the fewest / most grants seen in one trial of three calls.
func race3(s *strat, trials int) (n int, found bool, bad int64, gmin, gmax int) {
	var gen, done int32
	var cur atomic.Value
	var res [3]int64
	var oks [3]bool
	stop := int32(0)
	var wg sync.WaitGroup
	for g := 0; g < 3; g++ {
		wg.Add(1)
		go func(g int) {
			defer wg.Done()
			seen := int32(0)
			for {
				spins := 0
				for atomic.LoadInt32(&gen) == seen {
					if atomic.LoadInt32(&stop) == 1 {
						return
					}
					if spins++; spins > 20000 {
						runtime.Gosched()
						spins = 0
					}
				}
				seen++
				d, ok := cur.Load().(retry.Strategy).Next()
				res[g], oks[g] = int64(d), ok
				atomic.AddInt32(&done, 1)
			}
		}(g)
	}
	gmin, gmax = 4, -1
	t0 := time.Now()
	for n < trials && !found {
		if n&63 == 63 && time.Since(t0) > 3*time.Second {
			break
		}
		n++
		cur.Store(s.fresh())
		atomic.StoreInt32(&done, 0)
		atomic.AddInt32(&gen, 1)
		spins := 0
		for atomic.LoadInt32(&done) < 3 {
			if spins++; spins > 20000 {
				runtime.Gosched()
				spins = 0
			}
		}
		grants := 0
		for g := 0; g < 3; g++ {
			if oks[g] {
				grants++
			}
			if oks[g] && (res[g] < s.initial || res[g] > s.max) && !found {
				found, bad = true, res[g]
			}
		}
		if grants < gmin {
			gmin = grants
		}
		if grants > gmax {
			gmax = grants
		}
	}
	atomic.StoreInt32(&stop, 1)
	wg.Wait()
	return
}

// wall-clock budget (ns) shared by all burst ops of one run
var burstBudget = int64(5 * time.Second)

// burst: `rounds` times, g goroutines call Next k times each on a fresh strategy, all released at the same
// instant by a spin barrier (persistent workers, so a round costs microseconds).  Returns the per-round grant
// counts as a histogram and the extreme granted intervals.
func burst(s *strat, rounds, g, k int) (hist map[int]int, ivmin, ivmax int64, done_ int) {
	var gen, done, stop int32
	var cur atomic.Value
	grants := make([]int32, g*16) // one padded slot per worker
	mins := make([]int64, g*16)
	maxs := make([]int64, g*16)
	var wg sync.WaitGroup
	for w := 0; w < g; w++ {
		wg.Add(1)
		go func(w int) {
			defer wg.Done()
			seen := int32(0)
			for {
				spins := 0
				for atomic.LoadInt32(&gen) == seen {
					if atomic.LoadInt32(&stop) == 1 {
						return
					}
					if spins++; spins > 20000 {
						runtime.Gosched()
						spins = 0
					}
				}
				seen++
				st := cur.Load().(retry.Strategy)
				n, lo, hi := int32(0), int64(math.MaxInt64), int64(math.MinInt64)
				for j := 0; j < k; j++ {
					if d, ok := st.Next(); ok {
						n++
						if int64(d) < lo {
							lo = int64(d)
						}
						if int64(d) > hi {
							hi = int64(d)
						}
					}
				}
				grants[w*16], mins[w*16], maxs[w*16] = n, lo, hi
				atomic.AddInt32(&done, 1)
			}
		}(w)
	}
	hist = map[int]int{}
	ivmin, ivmax = math.MaxInt64, math.MinInt64
	// on an oversubscribed machine the barrier gets slow: every op is bounded by wall-clock time and all
	// burst ops of a run together by burstBudget (later ops then do only a few rounds)
	t0 := time.Now()
	limit := 40*time.Millisecond + time.Duration(rounds)*20*time.Microsecond
	if left := time.Duration(atomic.LoadInt64(&burstBudget)); left < limit {
		limit = left
	}
	defer func() { atomic.AddInt64(&burstBudget, -int64(time.Since(t0))) }()
	for r := 0; r < rounds; r++ {
		if r&7 == 7 && time.Since(t0) > limit {
			break
		}
		cur.Store(s.fresh())
		atomic.StoreInt32(&done, 0)
		atomic.AddInt32(&gen, 1)
		spins := 0
		for atomic.LoadInt32(&done) < int32(g) {
			if spins++; spins > 20000 {
				runtime.Gosched()
				spins = 0
			}
		}
		total := 0
		for w := 0; w < g; w++ {
			total += int(grants[w*16])
			if grants[w*16] > 0 {
				if mins[w*16] < ivmin {
					ivmin = mins[w*16]
				}
				if maxs[w*16] > ivmax {
					ivmax = maxs[w*16]
				}
			}
		}
		hist[total]++
		done_++
	}
	atomic.StoreInt32(&stop, 1)
	wg.Wait()
	return
}

func (s *strat) Next() (time.Duration, bool) {
	if s.exp != nil {
		return s.exp.Next()
	}
	return s.fix.Next()
}

func (s *strat) state() string {
	if s.exp != nil {
		r, f := retry.VerifExpState(s.exp)
		fl := 0
		if f {
			fl = 1
		}
		return fmt.Sprintf("retries=%d flag=%d", r, fl)
	}
	return fmt.Sprintf("retries=%d flag=0", retry.VerifFixedState(s.fix))
}

// ctorErr recognises the constructors' errors by re-building them with the library's own
// constructors (internal/errs) from the integers that occur in the message — not by its wording.
func ctorErr(err error) string {
	msg := err.Error()
	if a, ok := vlib.MatchInts1(msg, func(a int64) string {
		return errs.NewErrInvalidIntervalValue(time.Duration(a)).Error()
	}); ok {
		return "err:interval:" + strconv.FormatInt(a, 10)
	}
	if a, b, ok := vlib.MatchInts2(msg, func(a, b int64) string {
		return errs.NewErrInvalidMaxIntervalValue(time.Duration(a), time.Duration(b)).Error()
	}); ok {
		return "err:maxinterval:" + strconv.FormatInt(a, 10) + ":" + strconv.FormatInt(b, 10)
	}
	return "err:other"
}

// isExhausted: err is what errs.NewErrRetryExhausted builds around the error it wraps.
func isExhausted(err error) bool {
	last := errors.Unwrap(err)
	return last != nil && errs.NewErrRetryExhausted(last).Error() == err.Error()
}

// what an out-of-range float64 -> int64 conversion yields on this machine (oracle for the model's Arch)
func ovfProbe() string {
	e := float64(len(os.Args) + 62) // not a compile-time constant
	v := int64(math.Pow(2, e+1))
	switch v {
	case math.MinInt64:
		return "min"
	case math.MaxInt64:
		return "max"
	}
	return strconv.FormatInt(v, 10)
}

// recording wrapper: what Next returned to Retry
type recStrategy struct {
	inner retry.Strategy
	mu    sync.Mutex
	d     []int64
	ok    []int64
}

func (r *recStrategy) Next() (time.Duration, bool) {
	d, ok := r.inner.Next()
	r.mu.Lock()
	r.d = append(r.d, int64(d))
	if ok {
		r.ok = append(r.ok, 1)
	} else {
		r.ok = append(r.ok, 0)
	}
	r.mu.Unlock()
	return d, ok
}

func runRetry(s *strat, w []string, st *stats, stMu *sync.Mutex) string {
	fails, _ := strconv.Atoi(w[1])
	var durs []int64
	for _, p := range strings.Split(w[2], ",") {
		v, _ := strconv.ParseInt(p, 10, 64)
		durs = append(durs, v)
	}
	ckind := w[3]
	carg, _ := strconv.ParseInt(w[4], 10, 64)

	rec := &recStrategy{inner: s}
	var starts, ends []int64
	var bizErrs []error
	t0 := time.Now()
	since := func() int64 { return int64(time.Since(t0)) }

	ctx := context.Background()
	var cancel context.CancelFunc = func() {}
	cxlo, cxhi := int64(-1), int64(-1)
	var wg sync.WaitGroup
	stop := make(chan struct{})
	switch ckind {
	case "pre":
		ctx, cancel = context.WithCancel(ctx)
		cancel()
		cxlo, cxhi = 0, 0
	case "timeout":
		ctx, cancel = context.WithTimeout(ctx, time.Duration(carg))
		wg.Add(1)
		go func(c context.Context) {
			defer wg.Done()
			select {
			case <-c.Done():
				if errors.Is(c.Err(), context.DeadlineExceeded) {
					cxlo, cxhi = carg, since()
				}
			case <-stop:
				select {
				case <-c.Done():
					if errors.Is(c.Err(), context.DeadlineExceeded) {
						cxlo, cxhi = carg, since()
					}
				default:
				}
			}
		}(ctx)
	case "cancel":
		ctx, cancel = context.WithCancel(ctx)
		wg.Add(1)
		go func() {
			defer wg.Done()
			tm := time.NewTimer(time.Duration(carg))
			defer tm.Stop()
			select {
			case <-tm.C:
				lo := since()
				cancel()
				cxlo, cxhi = lo, since()
			case <-stop:
			}
		}()
	}
	n := 0
	biz := func() error {
		starts = append(starts, since())
		k := n
		n++
		if n > 5000 {
			panic("runaway: more than 5000 invocations")
		}
		if d := durs[k%len(durs)]; d > 0 {
			time.Sleep(time.Duration(d))
		}
		var err error
		if fails < 0 || k < fails {
			err = fmt.Errorf("biz-%d", k)
		}
		bizErrs = append(bizErrs, err)
		ends = append(ends, since())
		return err
	}
	var err error
	p := vlib.Catch(func() { err = retry.Retry(ctx, rec, biz) })
	ret := since()
	close(stop)
	wg.Wait()
	cancel()
	if p != "" {
		return p + " " + s.state()
	}
	res := "other"
	wrap := -1
	switch {
	case err == nil:
		res = "nil"
	case err == context.DeadlineExceeded:
		res = "deadline"
	case err == context.Canceled:
		res = "canceled"
	default:
		if isExhausted(err) {
			res = "exhausted"
		}
		for k, e := range bizErrs {
			if e != nil && errors.Is(err, e) {
				wrap = k
			}
		}
	}
	stMu.Lock()
	st.Results["retry/"+res]++
	for k := 0; k+1 < len(starts) && k < len(rec.d); k++ {
		st.Waits++
		slack := starts[k+1] - ends[k] - rec.d[k]
		if st.Waits == 1 || slack < st.MinSlack {
			st.MinSlack = slack
		}
		if ends[k]-starts[k] > rec.d[k] {
			st.SlowOps++
		}
	}
	stMu.Unlock()
	return fmt.Sprintf("res=%s wrap=%d n=%d nd=%s nok=%s starts=%s ends=%s ret=%d cxlo=%d cxhi=%d %s",
		res, wrap, n, i64s(rec.d), i64s(rec.ok), i64s(starts), i64s(ends), ret, cxlo, cxhi, s.state())
}

func runCase(ops []string, st *stats, stMu *sync.Mutex, seen map[string]struct{}) []string {
	var out []string
	var s *strat
	calls := 0
	for _, line := range ops {
		w := strings.Fields(line)
		stMu.Lock()
		st.Ops[w[0]]++
		st.Lines++
		stMu.Unlock()
		if w[0] == "new" {
			s = nil
			calls = 0
			var err error
			ns := &strat{kind: w[1], conf: line}
			p := vlib.Catch(func() {
				switch w[1] {
				case "exp":
					i, _ := strconv.ParseInt(w[2], 10, 64)
					m, _ := strconv.ParseInt(w[3], 10, 64)
					r, _ := strconv.ParseInt(w[4], 10, 32)
					ns.initial, ns.max, ns.budget = i, m, int32(r)
					ns.exp, err = retry.NewExponentialBackoffRetryStrategy(time.Duration(i), time.Duration(m), int32(r))
				case "fixed":
					i, _ := strconv.ParseInt(w[2], 10, 64)
					r, _ := strconv.ParseInt(w[3], 10, 32)
					ns.initial, ns.max, ns.budget = i, i, int32(r)
					ns.fix, err = retry.NewFixedIntervalRetryStrategy(time.Duration(i), int32(r))
				default:
					panic("kind " + w[1])
				}
			})
			stMu.Lock()
			st.Cases++
			st.Kinds[w[1]]++
			stMu.Unlock()
			switch {
			case p != "":
				out = append(out, line+" => "+p)
			case err != nil:
				out = append(out, line+" => "+ctorErr(err))
				stMu.Lock()
				seen["ctor|"+line] = struct{}{}
				st.Results["new/err"]++
				stMu.Unlock()
			case (w[1] == "exp" && ns.exp == nil) || (w[1] == "fixed" && ns.fix == nil):
				out = append(out, line+" => nilstrategy")
			default:
				s = ns
				out = append(out, fmt.Sprintf("%s => ok ovf=%s %s", line, ovfProbe(), s.state()))
			}
			continue
		}
		if s == nil {
			out = append(out, line+" => no-strategy")
			continue
		}
		before := s.state()
		var obs string
		switch w[0] {
		case "next":
			var d time.Duration
			var ok bool
			p := vlib.Catch(func() { d, ok = s.Next() })
			calls++
			stMu.Lock()
			switch {
			case p != "":
				obs = p
			case ok:
				obs = fmt.Sprintf("ok:%d", int64(d))
				st.Results["next/ok"]++
				if int64(d) == s.max {
					st.CapHits++
				}
			default:
				obs = fmt.Sprintf("stop:%d", int64(d))
				st.Results["next/stop"]++
				st.Denied++
			}
			stMu.Unlock()
		case "burn":
			k, _ := strconv.ParseInt(w[1], 10, 64)
			g := int64(0)
			for i := int64(0); i < k; i++ {
				if _, ok := s.Next(); ok {
					g++
				}
			}
			calls += int(k)
			obs = fmt.Sprintf("grants=%d", g)
		case "conc":
			g, _ := strconv.Atoi(w[1])
			per, _ := strconv.Atoi(w[2])
			res := make([][]int64, g)
			var wg sync.WaitGroup
			gate := make(chan struct{})
			for i := 0; i < g; i++ {
				wg.Add(1)
				go func(i int) {
					defer wg.Done()
					<-gate
					for j := 0; j < per; j++ {
						if d, ok := s.Next(); ok {
							res[i] = append(res[i], int64(d))
						}
					}
				}(i)
			}
			close(gate)
			wg.Wait()
			var all []int64
			for _, r := range res {
				all = append(all, r...)
			}
			sort.Slice(all, func(a, b int) bool { return all[a] < all[b] })
			calls += g * per
			stMu.Lock()
			st.ConcCalls += g * per
			stMu.Unlock()
			obs = fmt.Sprintf("n=%d grants=%d ivs=%s", g*per, len(all), i64s(all))
		case "burst":
			rounds, _ := strconv.Atoi(w[1])
			g, _ := strconv.Atoi(w[2])
			k, _ := strconv.Atoi(w[3])
			hist, lo, hi, rounds := burst(s, rounds, g, k)
			var keys []int
			for c := range hist {
				keys = append(keys, c)
			}
			sort.Ints(keys)
			var hs []string
			for _, c := range keys {
				hs = append(hs, fmt.Sprintf("%d:%d", c, hist[c]))
			}
			ivs := "ivmin=- ivmax=-"
			if lo <= hi {
				ivs = fmt.Sprintf("ivmin=%d ivmax=%d", lo, hi)
			}
			stMu.Lock()
			st.BurstRounds += rounds
			st.ConcCalls += rounds * g * k
			stMu.Unlock()
			obs = fmt.Sprintf("rounds=%d n=%d gmin=%d gmax=%d hist=%s %s", rounds, g*k, keys[0], keys[len(keys)-1], strings.Join(hs, ","), ivs)
		case "race3":
			trials, _ := strconv.Atoi(w[1])
			n, found, bad, gmin, gmax := race3(s, trials)
			if found {
				obs = fmt.Sprintf("trials=%d bad=%d gmin=%d gmax=%d", n, bad, gmin, gmax)
			} else {
				obs = fmt.Sprintf("trials=%d bad=- gmin=%d gmax=%d", n, gmin, gmax)
			}
		case "retry":
			out = append(out, line+" => "+runRetry(s, w, st, stMu))
			stMu.Lock()
			seen[s.conf+"|"+before+"|"+line] = struct{}{}
			stMu.Unlock()
			continue
		default:
			panic("op " + w[0])
		}
		after := s.state()
		stMu.Lock()
		if calls > st.MaxCalls {
			st.MaxCalls = calls
		}
		if before != after {
			seen[s.conf+"|"+before+"|"+line] = struct{}{}
		}
		stMu.Unlock()
		out = append(out, fmt.Sprintf("%s => %s %s", line, obs, after))
	}
	return out
}

func run(ops []string, out *vlib.Out, st *stats) {
	// split into cases; cases that sleep (retry ops) run on a few workers in parallel — only lower
	// bounds on the measured gaps are asserted, so load can delay but never falsify an observation
	var cases [][]string
	for _, l := range ops {
		if strings.HasPrefix(l, "new ") || len(cases) == 0 {
			cases = append(cases, nil)
		}
		cases[len(cases)-1] = append(cases[len(cases)-1], l)
	}
	nburst := 0
	for _, l := range ops {
		if strings.HasPrefix(l, "burst ") {
			nburst++
		}
	}
	atomic.StoreInt64(&burstBudget, int64(5*time.Second+time.Duration(nburst)*3*time.Millisecond))
	results := make([][]string, len(cases))
	seen := map[string]struct{}{}
	var stMu sync.Mutex
	sem := make(chan struct{}, 6)
	var wg sync.WaitGroup
	for i, c := range cases {
		sleeps := false
		for _, l := range c {
			if strings.HasPrefix(l, "retry ") {
				sleeps = true
			}
		}
		if !sleeps {
			results[i] = runCase(c, st, &stMu, seen)
			continue
		}
		wg.Add(1)
		sem <- struct{}{}
		go func(i int, c []string) {
			defer wg.Done()
			defer func() { <-sem }()
			results[i] = runCase(c, st, &stMu, seen)
		}(i, c)
	}
	wg.Wait()
	for _, r := range results {
		for _, l := range r {
			out.Line("%s", l)
		}
	}
	st.Distinct = len(seen)
}

func main() {
	mode := flag.String("mode", "gen", "gen|run")
	tier := flag.String("tier", "quick", "quick|thorough")
	part := flag.String("part", "next", "next|loop (gen mode)")
	opsF := flag.String("ops", "", "ops file (run mode)")
	outF := flag.String("out", "", "output file")
	statsF := flag.String("stats", "", "stats json (run mode)")
	flag.Parse()
	out := vlib.Create(*outF)
	defer out.Close()
	switch *mode {
	case "gen":
		if *part == "loop" {
			genLoop(*tier, out)
		} else {
			genNext(*tier, out)
		}
	case "run":
		st := &stats{Ops: map[string]int{}, Results: map[string]int{}, Kinds: map[string]int{}, TimerChan: os.Getenv("GODEBUG")}
		run(vlib.ReadLines(*opsF), out, st)
		if *statsF != "" {
			b, _ := json.MarshalIndent(st, "", " ")
			os.WriteFile(*statsF, b, 0o644)
		}
	}
}
