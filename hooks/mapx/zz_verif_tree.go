//go:build verif

package mapx

import "fmt"

// VerifDump / VerifAudit: see internal/tree/zz_verif_dump.go (verification overlay only).
func (treeMap *TreeMap[K, V]) VerifDump(key func(K) string) string { return treeMap.tree.VerifDump(key) }
func (treeMap *TreeMap[K, V]) VerifAudit() string                 { return treeMap.tree.VerifAudit() }

// VerifDump of a tree-backed LinkedMap is the dump of its index tree ("?" for other backings).
func (l *LinkedMap[K, V]) VerifDump(key func(K) string) string {
	tm, ok := l.m.(*TreeMap[K, *linkedKV[K, V]])
	if !ok {
		return "?"
	}
	return tm.VerifDump(key)
}

// VerifAudit of a tree-backed LinkedMap is the audit of its index tree.
func (l *LinkedMap[K, V]) VerifAudit() string {
	if tm, ok := l.m.(*TreeMap[K, *linkedKV[K, V]]); ok {
		return tm.VerifAudit()
	}
	return "ok"
}

// VerifListAudit checks the doubly linked list of a LinkedMap: next/prev are inverse, the number of
// cells is `length` and equals the index size, and the index maps every cell's key to that very cell.
func (l *LinkedMap[K, V]) VerifListAudit() string {
	n := 0
	if l.head.next == nil || l.tail.prev == nil {
		return "list-nil-link"
	}
	for cur := l.head.next; cur != l.tail; cur = cur.next {
		if cur == nil || cur.next == nil || cur.prev == nil {
			return "list-nil-link"
		}
		if cur.prev.next != cur || cur.next.prev != cur {
			return "list-link"
		}
		n++
		if n > l.length+8 {
			return "list-too-long"
		}
		if got, ok := l.m.Get(cur.key); !ok || got != cur {
			return "list-cell-not-indexed"
		}
	}
	if n != l.length {
		return fmt.Sprintf("list-length:%d/cells:%d", l.length, n)
	}
	if int64(n) != l.m.Len() {
		return fmt.Sprintf("list-cells:%d/index:%d", n, l.m.Len())
	}
	return "ok"
}

func (m *MultiMap[K, V]) VerifDump(key func(K) string) string {
	tm, ok := m.m.(*TreeMap[K, []V])
	if !ok {
		return "?"
	}
	return tm.VerifDump(key)
}

func (m *MultiMap[K, V]) VerifAudit() string {
	tm, ok := m.m.(*TreeMap[K, []V])
	if !ok {
		return "ok"
	}
	return tm.VerifAudit()
}
