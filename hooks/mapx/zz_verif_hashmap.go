//go:build verif

// Read-only white-box accessors for the C03 correspondence harness (zzverif/hashmap).
// Overlaid on a scratch copy of the repository only; never part of the library.
package mapx

import "sort"

// VerifWhiteBox reports whether these accessors really read the library's internal state (true here;
// false in the black-box stub zz_verif_hashmap.go.stub that replaces this file when it no longer compiles).
func VerifWhiteBox() bool { return true }

// verifWalkLimit bounds every pointer walk so that a cyclic structure is reported, not followed forever.
const verifWalkLimit = 1 << 12

// VerifEntry is one chain node: its fields and the node itself (opaque, for VerifNodeFields).
type VerifEntry[T any, V any] struct {
	Key     T
	Val     V
	HasNext bool
	Ref     any
}

// VerifChain is the collision chain stored under one hash code, in chain order.
type VerifChain[T any, V any] struct {
	Code  uint64
	Nodes []VerifEntry[T, V]
	Cycle bool
	// NilHead reports a map slot holding a nil head pointer.
	NilHead bool
}

// VerifChains dumps the bucket table sorted by hash code.
func (m *HashMap[T, ValType]) VerifChains() []VerifChain[T, ValType] {
	res := make([]VerifChain[T, ValType], 0, len(m.hashmap))
	for code, head := range m.hashmap {
		c := VerifChain[T, ValType]{Code: code, NilHead: head == nil}
		for cur := head; cur != nil; cur = cur.next {
			if len(c.Nodes) >= verifWalkLimit {
				c.Cycle = true
				break
			}
			c.Nodes = append(c.Nodes, VerifEntry[T, ValType]{Key: cur.key, Val: cur.value, HasNext: cur.next != nil, Ref: cur})
		}
		res = append(res, c)
	}
	sort.Slice(res, func(i, j int) bool { return res[i].Code < res[j].Code })
	return res
}

// VerifNodeFields reads the current fields of a node obtained from VerifChains (the node may
// meanwhile have been unlinked and handed to the pool).
func VerifNodeFields[T Hashable, V any](ref any) (key T, val V, hasNext bool) {
	n := ref.(*node[T, V])
	return n.key, n.value, n.next != nil
}

// VerifKV is a linked-map entry seen through the pointer the inner map stores.
type VerifKV[K any, V any] struct {
	Key K
	Val V
	Nil bool
}

// VerifLinkedChains dumps the HashMap inside a hash-backed LinkedMap, pointers dereferenced.
func VerifLinkedChains[K Hashable, V any](l *LinkedMap[K, V]) ([]VerifChain[K, VerifKV[K, V]], bool) {
	hm, ok := l.m.(*HashMap[K, *linkedKV[K, V]])
	if !ok {
		return nil, false
	}
	inner := hm.VerifChains()
	res := make([]VerifChain[K, VerifKV[K, V]], 0, len(inner))
	for _, c := range inner {
		d := VerifChain[K, VerifKV[K, V]]{Code: c.Code, Cycle: c.Cycle, NilHead: c.NilHead}
		for _, e := range c.Nodes {
			kv := VerifKV[K, V]{Nil: e.Val == nil}
			if e.Val != nil {
				kv.Key, kv.Val = e.Val.key, e.Val.value
			}
			d.Nodes = append(d.Nodes, VerifEntry[K, VerifKV[K, V]]{Key: e.Key, Val: kv, HasNext: e.HasNext, Ref: e.Ref})
		}
		res = append(res, d)
	}
	return res, true
}

// VerifLinkedNodeFields is VerifNodeFields for the inner map of a LinkedMap.
func VerifLinkedNodeFields[K Hashable, V any](ref any) (key K, valNil bool, hasNext bool) {
	n := ref.(*node[K, *linkedKV[K, V]])
	return n.key, n.value == nil, n.next != nil
}

// VerifLinkedWalk walks the entry list forwards (head.next … tail) and backwards (tail.prev … head).
func VerifLinkedWalk[K any, V any](l *LinkedMap[K, V]) (fwd, bwd []VerifKV[K, V], cycle bool) {
	for cur := l.head.next; cur != l.tail; cur = cur.next {
		if cur == nil || len(fwd) >= verifWalkLimit {
			cycle = true
			break
		}
		fwd = append(fwd, VerifKV[K, V]{Key: cur.key, Val: cur.value})
	}
	for cur := l.tail.prev; cur != l.head; cur = cur.prev {
		if cur == nil || len(bwd) >= verifWalkLimit {
			cycle = true
			break
		}
		bwd = append(bwd, VerifKV[K, V]{Key: cur.key, Val: cur.value})
	}
	return
}

// VerifMultiChains dumps the HashMap inside a hash-backed MultiMap.
func VerifMultiChains[K Hashable, V any](m *MultiMap[K, V]) ([]VerifChain[K, []V], bool) {
	hm, ok := m.m.(*HashMap[K, []V])
	if !ok {
		return nil, false
	}
	return hm.VerifChains(), true
}

// VerifBuiltinMap gives the harness the unexported builtinMap wrapper.
type VerifBuiltinMap[K comparable, V any] struct{ b *builtinMap[K, V] }

func VerifNewBuiltinMap[K comparable, V any](size int) VerifBuiltinMap[K, V] {
	return VerifBuiltinMap[K, V]{b: newBuiltinMap[K, V](size)}
}

// Available reports whether the wrapper could be constructed (false in the black-box stub).
func (v VerifBuiltinMap[K, V]) Available() bool { return v.b != nil }

func (v VerifBuiltinMap[K, V]) Put(key K, val V) error { return v.b.Put(key, val) }
func (v VerifBuiltinMap[K, V]) Get(key K) (V, bool)    { return v.b.Get(key) }
func (v VerifBuiltinMap[K, V]) Delete(key K) (V, bool) { return v.b.Delete(key) }
func (v VerifBuiltinMap[K, V]) Keys() []K              { return v.b.Keys() }
func (v VerifBuiltinMap[K, V]) Values() []V            { return v.b.Values() }
func (v VerifBuiltinMap[K, V]) Len() int64             { return v.b.Len() }
