//go:build verif

// White-box access for the C20 correspondence harness (overlaid on a scratch copy of the tree only).
package copier

import (
	"reflect"
	"strconv"
	"strings"

	"github.com/ecodeclub/ekit/bean/option"
)

// VerifBlackbox is false here and true in the stub that replaces this file when it no longer compiles.
const VerifBlackbox = false

// VerifOpt names the (unexported) option type so that the harness can keep options in slices.
type VerifOpt = option.Option[options]

func verifDump(n *fieldNode, b *strings.Builder) {
	b.WriteByte('[')
	for i := range n.fields {
		c := &n.fields[i]
		if i > 0 {
			b.WriteByte(',')
		}
		b.WriteString(c.name)
		b.WriteByte('/')
		b.WriteString(strconv.Itoa(c.srcIndex))
		b.WriteByte('/')
		b.WriteString(strconv.Itoa(c.dstIndex))
		if c.isLeaf {
			b.WriteString("/L")
			if len(c.fields) != 0 {
				b.WriteString("!kids")
			}
		} else {
			b.WriteString("/N")
			verifDump(c, b)
		}
	}
	b.WriteByte(']')
}

// VerifTrie renders the field trie of a copier: [name/srcIndex/dstIndex/L, name/s/d/N[...], ...].
func VerifTrie[S any, D any](c *ReflectCopier[S, D]) string {
	var b strings.Builder
	verifDump(&c.rootField, &b)
	return b.String()
}

// VerifDyn is the reflection-tree copier for types that exist only as reflect.Type values
// (reflect.StructOf): the same createFieldNodes / copyDefaultOptions / copyTreeNode code, entered the
// way NewReflectCopier and CopyTo enter it.
type VerifDyn struct {
	r *ReflectCopier[struct{}, struct{}]
}

func VerifNewDyn(srcTyp, dstTyp reflect.Type, opts ...VerifOpt) (*VerifDyn, error) {
	root := fieldNode{isLeaf: false, fields: []fieldNode{}}
	if srcTyp.Kind() != reflect.Struct {
		return nil, newErrTypeError(srcTyp)
	}
	if dstTyp.Kind() != reflect.Struct {
		return nil, newErrTypeError(dstTyp)
	}
	r := &ReflectCopier[struct{}, struct{}]{atomicTypes: defaultAtomicTypes}
	if err := r.createFieldNodes(&root, srcTyp, dstTyp); err != nil {
		return nil, err
	}
	r.rootField = root
	defaultOpts := newOptions()
	option.Apply(&defaultOpts, opts...)
	r.defaultOptions = defaultOpts
	return &VerifDyn{r: r}, nil
}

// CopyTo takes the *Src and *Dst pointers as reflect.Values.
func (d *VerifDyn) CopyTo(src, dst reflect.Value, opts ...VerifOpt) error {
	localOption := d.r.copyDefaultOptions()
	option.Apply(&localOption, opts...)
	return d.r.copyTreeNode(src.Type(), src, dst.Type(), dst, &d.r.rootField, localOption)
}

func (d *VerifDyn) Trie() string { return VerifTrie(d.r) }
