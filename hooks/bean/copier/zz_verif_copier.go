//go:build verif

// White-box access for the C20 correspondence harness (overlaid on a scratch copy of the tree only).
package copier

import (
	"errors"
	"reflect"
	"regexp"
	"strconv"
	"strings"
	"sync"

	"github.com/ecodeclub/ekit/bean/option"
)

// VerifBlackbox is false here and true in the stub that replaces this file when it no longer compiles.
const VerifBlackbox = false

// VerifOpt names the (unexported) option type so that the harness can keep options in slices.
type VerifOpt = option.Option[options]

func verifDump(n *fieldNode, b *strings.Builder) {
	b.WriteByte('[')
	for i := range n.fields {
		c := &n.fields[i]
		if i > 0 {
			b.WriteByte(',')
		}
		b.WriteString(c.name)
		b.WriteByte('/')
		b.WriteString(strconv.Itoa(c.srcIndex))
		b.WriteByte('/')
		b.WriteString(strconv.Itoa(c.dstIndex))
		if c.isLeaf {
			b.WriteString("/L")
			if len(c.fields) != 0 {
				b.WriteString("!kids")
			}
		} else {
			b.WriteString("/N")
			verifDump(c, b)
		}
	}
	b.WriteByte(']')
}

// VerifTrie renders the field trie of a copier: [name/srcIndex/dstIndex/L, name/s/d/N[...], ...].
func VerifTrie[S any, D any](c *ReflectCopier[S, D]) string {
	var b strings.Builder
	verifDump(&c.rootField, &b)
	return b.String()
}

// VerifDyn is the reflection-tree copier for types that exist only as reflect.Type values
// (reflect.StructOf): the same createFieldNodes / copyDefaultOptions / copyTreeNode code, entered the
// way NewReflectCopier and CopyTo enter it.
type VerifDyn struct {
	r *ReflectCopier[struct{}, struct{}]
}

func VerifNewDyn(srcTyp, dstTyp reflect.Type, opts ...VerifOpt) (*VerifDyn, error) {
	root := fieldNode{isLeaf: false, fields: []fieldNode{}}
	if srcTyp.Kind() != reflect.Struct {
		return nil, newErrTypeError(srcTyp)
	}
	if dstTyp.Kind() != reflect.Struct {
		return nil, newErrTypeError(dstTyp)
	}
	r := &ReflectCopier[struct{}, struct{}]{atomicTypes: defaultAtomicTypes}
	if err := r.createFieldNodes(&root, srcTyp, dstTyp); err != nil {
		return nil, err
	}
	r.rootField = root
	defaultOpts := newOptions()
	option.Apply(&defaultOpts, opts...)
	r.defaultOptions = defaultOpts
	return &VerifDyn{r: r}, nil
}

// CopyTo takes the *Src and *Dst pointers as reflect.Values.
func (d *VerifDyn) CopyTo(src, dst reflect.Value, opts ...VerifOpt) error {
	localOption := d.r.copyDefaultOptions()
	option.Apply(&localOption, opts...)
	return d.r.copyTreeNode(src.Type(), src, dst.Type(), dst, &d.r.rootField, localOption)
}

func (d *VerifDyn) Trie() string { return VerifTrie(d.r) }

// ---- error classes ---------------------------------------------------------------------------
//
// VerifErrClass maps an error of this package to the token of the Lean model
//
//	err:kind:<field>:<srcKind>:<dstKind> | err:typemismatch:<field> | err:multiptr:<field> |
//	err:type (entry type is not a struct) | err:convtype | err:other
//
// WITHOUT knowing the wording of any message: every class is recognised by a template obtained from
// the package's own constructor (newErrKindNotMatchError, newErrTypeNotMatchError, newErrMultiPointer,
// newErrTypeError) applied to marker arguments — the markers' places become capture groups, all the
// rest is literal — and, where the arguments can be recovered, by re-building the error with the
// constructor and comparing. errConvertFieldTypeNotMatch is a sentinel.

type verifSrcT struct{ VerifMarkerA int }
type verifDstT struct{ VerifMarkerB int }
type verifMapT map[verifSrcT]verifDstT

const verifFieldMark = "\u2039verif-field-mark\u203a"

// verifTemplate: the anchored regexp of msg with every occurrence of marks[i] replaced by groups[i];
// order[k] = index of the mark the k-th capture group stands for.
func verifTemplate(msg string, marks, groups []string) (*regexp.Regexp, []int) {
	var b strings.Builder
	var order []int
	b.WriteString("^")
	lit := 0
	flush := func(to int) {
		b.WriteString(regexp.QuoteMeta(msg[lit:to]))
	}
	for i := 0; i < len(msg); {
		hit := -1
		for k, m := range marks {
			if m != "" && strings.HasPrefix(msg[i:], m) {
				hit = k
				break
			}
		}
		if hit < 0 {
			i++
			continue
		}
		flush(i)
		b.WriteString(groups[hit])
		order = append(order, hit)
		i += len(marks[hit])
		lit = i
	}
	flush(len(msg))
	b.WriteString("$")
	re, err := regexp.Compile("(?s)" + b.String())
	if err != nil {
		return nil, nil
	}
	return re, order
}

// verifMatch returns the text captured for every mark (the first capture of each), or nil.
func verifMatch(re *regexp.Regexp, order []int, nmarks int, msg string) []string {
	if re == nil {
		return nil
	}
	m := re.FindStringSubmatch(msg)
	if m == nil {
		return nil
	}
	out := make([]string, nmarks)
	seen := make([]bool, nmarks)
	for k, idx := range order {
		if !seen[idx] {
			out[idx], seen[idx] = m[k+1], true
		} else if out[idx] != m[k+1] {
			return nil
		}
	}
	for _, s := range seen {
		if !s {
			return nil
		}
	}
	return out
}

var verifTpl struct {
	once                        sync.Once
	kind, typ, multi, entry     *regexp.Regexp
	kindO, typO, multiO, entryO []int
	entryN                      int
	kindByName                  map[string]reflect.Kind
}

func verifInitTemplates() {
	t := &verifTpl
	const word, any = `(\S+)`, `(.+)`
	k1, k2 := reflect.Kind(9001), reflect.Kind(9002)
	t.kind, t.kindO = verifTemplate(newErrKindNotMatchError(k1, k2, verifFieldMark).Error(),
		[]string{verifFieldMark, k1.String(), k2.String()}, []string{word, word, word})
	ts, td := reflect.TypeOf(verifSrcT{}), reflect.TypeOf(verifDstT{})
	t.typ, t.typO = verifTemplate(newErrTypeNotMatchError(ts, td, verifFieldMark).Error(),
		[]string{verifFieldMark, ts.String(), td.String()}, []string{word, any, any})
	t.multi, t.multiO = verifTemplate(newErrMultiPointer(verifFieldMark).Error(), []string{verifFieldMark}, []string{word})
	// newErrTypeError prints the type and its kind: the kind's place is found by comparing the messages
	// of two marker types whose kinds (struct, map) share neither a first nor a last letter
	tm := reflect.TypeOf(verifMapT{})
	m1 := strings.ReplaceAll(newErrTypeError(ts).Error(), ts.String(), verifFieldMark)
	m2 := strings.ReplaceAll(newErrTypeError(tm).Error(), tm.String(), verifFieldMark)
	p := 0
	for p < len(m1) && p < len(m2) && m1[p] == m2[p] {
		p++
	}
	q := 0
	for q < len(m1)-p && q < len(m2)-p && m1[len(m1)-1-q] == m2[len(m2)-1-q] {
		q++
	}
	const kindMark = "\u2039verif-kind-mark\u203a"
	if m1[p:len(m1)-q] == ts.Kind().String() && m2[p:len(m2)-q] == tm.Kind().String() {
		m1 = m1[:p] + kindMark + m1[len(m1)-q:]
	}
	t.entry, t.entryO = verifTemplate(m1, []string{verifFieldMark, kindMark}, []string{any, word})
	for _, i := range t.entryO {
		if i+1 > t.entryN {
			t.entryN = i + 1
		}
	}
	t.kindByName = map[string]reflect.Kind{}
	for k := reflect.Invalid; k <= reflect.UnsafePointer; k++ {
		t.kindByName[k.String()] = k
	}
}

func VerifErrClass(err error) string {
	if err == nil {
		return "ok"
	}
	t := &verifTpl
	t.once.Do(verifInitTemplates)
	msg := err.Error()
	if m := verifMatch(t.kind, t.kindO, 3, msg); m != nil {
		ks, ok1 := t.kindByName[m[1]]
		kd, ok2 := t.kindByName[m[2]]
		if !ok1 || !ok2 || newErrKindNotMatchError(ks, kd, m[0]).Error() == msg {
			return "err:kind:" + m[0] + ":" + m[1] + ":" + m[2]
		}
	}
	if m := verifMatch(t.typ, t.typO, 3, msg); m != nil {
		return "err:typemismatch:" + m[0]
	}
	if m := verifMatch(t.multi, t.multiO, 1, msg); m != nil && newErrMultiPointer(m[0]).Error() == msg {
		return "err:multiptr:" + m[0]
	}
	if m := verifMatch(t.entry, t.entryO, t.entryN, msg); m != nil {
		return "err:type"
	}
	if errors.Is(err, errConvertFieldTypeNotMatch) {
		return "err:convtype"
	}
	return "err:other"
}
