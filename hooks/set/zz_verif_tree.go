//go:build verif

package set

// VerifDump / VerifAudit: see internal/tree/zz_verif_dump.go (verification overlay only).
func (s *TreeSet[T]) VerifDump(key func(T) string) string { return s.treeMap.VerifDump(key) }
func (s *TreeSet[T]) VerifAudit() string                  { return s.treeMap.VerifAudit() }
