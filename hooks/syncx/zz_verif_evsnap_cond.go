//go:build verif

package syncx

import (
	"strconv"
	"strings"
)

// White-box snapshot of the notify list for the synchronisation-event traces (harness/evinst inserts a call
// right before every Unlock of notifyList.mu, i.e. still inside the critical section and inside the log
// mutex, so the calls are serialised).  Nodes are named by small integers in order of first appearance in
// the list of the current notifyList (the registry keeps them alive, so a name is never re-used for another
// node).  No spaces.
//
//	list=<ids front first, '/'-separated>,size=<chanList.size>,dirty=<listed nodes whose channel holds a token>,
//	full=<registered nodes whose channel holds a token>
var (
	zzverifSnapOf  *notifyList
	zzverifNodeIds map[*node]int
	zzverifNodes   []*node
)

func (l *notifyList) zzverifSnap() string {
	if zzverifSnapOf != l {
		zzverifSnapOf, zzverifNodeIds, zzverifNodes = l, map[*node]int{}, nil
	}
	var ids, full []string
	dirty, walked := 0, 0
	cl := l.list
	for e := cl.sentinel.next; e != cl.sentinel && e != nil && walked <= cl.size+1; e = e.next {
		walked++
		id, ok := zzverifNodeIds[e]
		if !ok {
			id = len(zzverifNodes)
			zzverifNodeIds[e] = id
			zzverifNodes = append(zzverifNodes, e)
		}
		ids = append(ids, strconv.Itoa(id))
		if len(e.Value) != 0 {
			dirty++
		}
	}
	for id, e := range zzverifNodes {
		if len(e.Value) != 0 {
			full = append(full, strconv.Itoa(id))
		}
	}
	return "list=" + strings.Join(ids, "/") + ",size=" + strconv.Itoa(cl.size) + ",dirty=" + strconv.Itoa(dirty) +
		",full=" + strings.Join(full, "/")
}
