//go:build verif

package syncx

// Placeholder of the synchronisation-event log (harness/evinst overwrites this file, in its own
// instrumented scratch copy, with the real runtime).  In an uninstrumented build nothing is logged.

func VerifEvInstrumented() bool { return false }
func VerifEvStart()             {}
func VerifEvStop() []string     { return nil }
func VerifEvTid(t int)          {}
func VerifEvNote(text string)   {}
func VerifEvYield(permille int) {}
