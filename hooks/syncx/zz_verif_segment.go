//go:build verif

package syncx

// White-box accessors for the C14 correspondence harness (overlaid on a scratch copy only).

// VerifIndex reports which element of s.locks the real getLock selects for key
// (by pointer identity, so whatever getLock/hash do is what is observed); -1 if none.
func (s *SegmentKeysLock) VerifIndex(key string) int {
	l := s.getLock(key)
	for i, m := range s.locks {
		if m == l {
			return i
		}
	}
	return -1
}

// VerifTokens reads the LimitPool token counter.
func (l *LimitPool[T]) VerifTokens() int32 {
	return l.tokens.Load()
}
