//go:build verif

package syncx

// White-box accessors for the C14 correspondence harness (overlaid on a scratch copy only).
// zz_verif_segment.go.stub has the same exported API without touching unexported state; the check
// falls back to it (spec mode only) when this file no longer compiles against an edited tree.

// VerifWhiteBox reports whether VerifIndex / VerifTokens really observe the objects.
func VerifWhiteBox() bool { return true }

// VerifIndex reports which element of s.locks the real getLock selects for key
// (by pointer identity, so whatever getLock/hash do is what is observed); -1 if none.
func (s *SegmentKeysLock) VerifIndex(key string) int {
	l := s.getLock(key)
	for i, m := range s.locks {
		if m == l {
			return i
		}
	}
	return -1
}

// VerifTokens reads the LimitPool token counter.
func (l *LimitPool[T]) VerifTokens() int32 {
	return l.tokens.Load()
}
