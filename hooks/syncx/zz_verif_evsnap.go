//go:build verif

package syncx

import (
	"strconv"
	"sync"
)

// Object naming for the synchronisation-event traces (harness/evinst): the RWMutex an action of
// SegmentKeysLock was performed on — the result of s.getLock(key), whatever getLock/hash do — is named by
// its position in s.locks (pointer identity): "i=<index>", "i=-1" if it is not one of s.locks.  No spaces.
// zz_verif_evsnap.go.stub answers "na" without touching unexported state.
func (s *SegmentKeysLock) zzverifObj(x any) string {
	m, ok := x.(*sync.RWMutex)
	if !ok {
		return "na"
	}
	for i, l := range s.locks {
		if l == m {
			return "i=" + strconv.Itoa(i)
		}
	}
	return "i=-1"
}
