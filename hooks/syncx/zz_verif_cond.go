//go:build verif

package syncx

import "time"

// verifLockMu acquires the list mutex without ever blocking for good (a broken implementation may
// hold it forever; the harness must then report a hang, not deadlock itself).
func verifLockMu(l *notifyList) bool {
	for i := 0; i < 20000; i++ {
		if l.mu.TryLock() {
			return true
		}
		time.Sleep(100 * time.Microsecond)
	}
	return false
}

// White-box accessors for the C13 correspondence harness (read-only; overlaid on a scratch copy of
// the repo, never committed).

// VerifCondListLen returns the length of c's notify list (-1 before first use, -2 if the list mutex
// cannot be acquired within two seconds), read under the
// list mutex, and the number of listed nodes whose channel holds a token (must be 0: notifyNext
// unlinks a node before it sends to it).
func VerifCondListLen(c *Cond) (n int, dirty int) {
	if c.notifyList == nil {
		return -1, 0
	}
	l := c.notifyList
	if !verifLockMu(l) {
		return -2, 0
	}
	defer l.mu.Unlock()
	n = l.list.len()
	walked := 0
	for e := l.list.sentinel.next; e != l.list.sentinel && e != nil && walked <= n+1; e = e.next {
		walked++
		if len(e.Value) != 0 {
			dirty++
		}
	}
	if walked != n {
		dirty += 1000 // size field and links disagree
	}
	return n, dirty
}

// VerifCondBackChan returns the channel of the last node of the notify list (nil if empty): called
// by a waiter's own Locker.Unlock (i.e. right after its add, while it still holds c.L, so no other
// waiter can have enqueued after it) it identifies that waiter's node, which lets the harness
// measure how often pooled nodes are reused.
func VerifCondBackChan(c *Cond) chan struct{} {
	if c.notifyList == nil {
		return nil
	}
	l := c.notifyList
	if !verifLockMu(l) {
		return nil
	}
	defer l.mu.Unlock()
	if l.list.len() == 0 {
		return nil
	}
	return l.list.sentinel.prev.Value
}
