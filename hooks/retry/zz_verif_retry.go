//go:build verif

package retry

import "sync/atomic"

// VerifExpState returns the attempt counter and the sticky "max interval reached" flag (read-only).
func VerifExpState(s *ExponentialBackoffRetryStrategy) (int32, bool) {
	r := atomic.LoadInt32(&s.retries)
	reached, ok := s.maxIntervalReached.Load().(bool)
	return r, ok && reached
}

// VerifFixedState returns the attempt counter (read-only).
func VerifFixedState(s *FixedIntervalRetryStrategy) int32 {
	return atomic.LoadInt32(&s.retries)
}
