//go:build verif

package list

import "github.com/ecodeclub/ekit/internal/list"

// VerifInner exposes the wrapped skip list to the correspondence harness (read-only use).
func (sl *SkipList[T]) VerifInner() *list.SkipList[T] { return sl.skiplist }
