//go:build verif

package list

import (
	"fmt"
	"strings"
)

// White-box snapshots for the synchronisation-event traces (harness/evinst inserts a call right before
// every Unlock/RUnlock of the receiver's mutex, i.e. still inside the critical section).  No spaces.

func zzverifVals[T any](xs []T) string {
	var b strings.Builder
	for i, x := range xs {
		if i > 0 {
			b.WriteByte('/')
		}
		fmt.Fprint(&b, x)
	}
	return b.String()
}

// the wrapped list's content and capacity, read without the wrapper's lock (the caller holds it)
func (c *ConcurrentList[T]) zzverifSnap() string {
	return fmt.Sprintf("vals=%s,cap=%d", zzverifVals(c.List.AsSlice()), c.List.Cap())
}

// the published array
func (a *CopyOnWriteArrayList[T]) zzverifSnap() string {
	return fmt.Sprintf("vals=%s,cap=%d", zzverifVals(a.vals), cap(a.vals))
}
