//go:build verif

package list

// VerifSkipDump is a pointer-free picture of a skip list: the level-0 chain with the tower height
// of every node, the level/size fields, and for every level >= 1 the chain of that level as
// 1-based positions in the level-0 chain (-1 = a node that is not on the level-0 chain).
type VerifSkipDump[T any] struct {
	Vals    []T
	Heights []int
	Level   int
	Size    int
	HeaderH int
	Chains  [][]int // Chains[i-1] = level i, trailing empty levels cut
}

// VerifDump walks the structure without modifying it. limit bounds every walk (cycle guard).
func (sl *SkipList[T]) VerifDump(limit int) VerifSkipDump[T] {
	d := VerifSkipDump[T]{Level: sl.level, Size: sl.size, HeaderH: len(sl.header.Forward)}
	pos := map[*skipListNode[T]]int{}
	n := 0
	for c := sl.header.Forward[0]; c != nil && n < limit; c = c.Forward[0] {
		n++
		pos[c] = n
		d.Vals = append(d.Vals, c.Val)
		d.Heights = append(d.Heights, len(c.Forward))
	}
	for i := 1; i < len(sl.header.Forward); i++ {
		var ch []int
		k := 0
		for c := sl.header.Forward[i]; c != nil && k < limit; k++ {
			if p, ok := pos[c]; ok {
				ch = append(ch, p)
			} else {
				ch = append(ch, -1)
			}
			if i >= len(c.Forward) {
				ch = append(ch, -2) // a node linked on a level above its own tower
				break
			}
			c = c.Forward[i]
		}
		d.Chains = append(d.Chains, ch)
	}
	for len(d.Chains) > 0 && len(d.Chains[len(d.Chains)-1]) == 0 {
		d.Chains = d.Chains[:len(d.Chains)-1]
	}
	return d
}
