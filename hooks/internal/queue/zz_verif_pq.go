//go:build verif

package queue

// VerifData returns the heap array as it is (slot 0 included). Read-only use.
func (p *PriorityQueue[T]) VerifData() []T { return p.data }

// VerifSliceCap returns cap(p.data).
func (p *PriorityQueue[T]) VerifSliceCap() int { return cap(p.data) }
