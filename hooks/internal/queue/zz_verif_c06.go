//go:build verif

package queue

// VerifC06Data returns a copy of the heap array without the unused slot 0 (read-only accessor for
// the C06 check).
func (p *PriorityQueue[T]) VerifC06Data() []T {
	if len(p.data) < 1 {
		return nil
	}
	out := make([]T, len(p.data)-1)
	copy(out, p.data[1:])
	return out
}
