//go:build verif

// Read-only white-box accessors for the verification harness (overlaid on a scratch copy of the
// repository only; never committed to the repository itself).
package tree

import (
	"fmt"
	"strings"
)

const verifMaxDepth = 256

// VerifDump renders the tree as colour/key/shape without spaces: nil is ".", a node is
// "(" + "R"|"B" + key + <left> + <right> + ")".
func (rb *RBTree[K, V]) VerifDump(key func(K) string) string {
	var b strings.Builder
	var walk func(n *rbNode[K, V], depth int)
	walk = func(n *rbNode[K, V], depth int) {
		if n == nil {
			b.WriteByte('.')
			return
		}
		if depth > verifMaxDepth {
			b.WriteString("!deep")
			return
		}
		b.WriteByte('(')
		if n.color == Red {
			b.WriteByte('R')
		} else {
			b.WriteByte('B')
		}
		b.WriteString(key(n.key))
		walk(n.left, depth+1)
		walk(n.right, depth+1)
		b.WriteByte(')')
	}
	walk(rb.root, 0)
	return b.String()
}

// VerifAudit checks, on the real tree: root has no parent and is black, no red node has a red
// child, every root-to-leaf path has the same number of black nodes, parent links are the inverse
// of child links, keys are strictly ascending in-order (by the tree's comparator), size == node count.
// It returns "ok" or the first failure as one token.
func (rb *RBTree[K, V]) VerifAudit() string {
	if rb.root == nil {
		if rb.size != 0 {
			return fmt.Sprintf("size:%d/count:0", rb.size)
		}
		return "ok"
	}
	if rb.root.parent != nil {
		return "root-has-parent"
	}
	if rb.root.color != Black {
		return "red-root"
	}
	count := 0
	fail := ""
	var prev *rbNode[K, V]
	// returns black height
	var walk func(n *rbNode[K, V], depth int) int
	walk = func(n *rbNode[K, V], depth int) int {
		if n == nil || fail != "" {
			return 0
		}
		if depth > verifMaxDepth {
			fail = "too-deep-or-cyclic"
			return 0
		}
		if n.left != nil && n.left.parent != n {
			fail = "parent-link"
			return 0
		}
		if n.right != nil && n.right.parent != n {
			fail = "parent-link"
			return 0
		}
		if n.color == Red && (n.left.getColor() == Red || n.right.getColor() == Red) {
			fail = "red-red"
			return 0
		}
		lh := walk(n.left, depth+1)
		if fail != "" {
			return 0
		}
		count++
		if prev != nil && rb.compare(prev.key, n.key) >= 0 {
			fail = "order"
			return 0
		}
		prev = n
		rh := walk(n.right, depth+1)
		if fail != "" {
			return 0
		}
		if lh != rh {
			fail = "black-height"
			return 0
		}
		if n.color == Black {
			return lh + 1
		}
		return lh
	}
	walk(rb.root, 0)
	if fail != "" {
		return fail
	}
	if count != rb.size {
		return fmt.Sprintf("size:%d/count:%d", rb.size, count)
	}
	return "ok"
}
