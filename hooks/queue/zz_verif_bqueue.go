//go:build verif

package queue

// White-box accessors for the C07/C09 correspondence harness (overlaid on a scratch copy only).
// They are meant to be called at quiescence (no call in flight).

// VerifABQState returns the ring cursors, the raw backing array and the number of free permits
// of both semaphores (measured by TryAcquire-ing them all and giving them back).
func (c *ConcurrentArrayBlockingQueue[T]) VerifABQState() (head, tail, count, enqFree, deqFree int, data []T) {
	c.mutex.RLock()
	defer c.mutex.RUnlock()
	head, tail, count = c.head, c.tail, c.count
	data = append([]T{}, c.data...)
	for c.enqueueCap.TryAcquire(1) {
		enqFree++
	}
	if enqFree > 0 {
		c.enqueueCap.Release(int64(enqFree))
	}
	for c.dequeueCap.TryAcquire(1) {
		deqFree++
	}
	if deqFree > 0 {
		c.dequeueCap.Release(int64(deqFree))
	}
	return
}

// VerifLBQState returns maxSize and the length of the linked list.
func (c *ConcurrentLinkedBlockingQueue[T]) VerifLBQState() (maxSize, length int) {
	c.mutex.RLock()
	defer c.mutex.RUnlock()
	return c.maxSize, c.linkedlist.Len()
}
