//go:build verif

package queue

import (
	"fmt"
	"strings"
)

// White-box snapshots for the synchronisation-event traces (harness/evinst inserts a call right before
// every Unlock/RUnlock of the receiver's mutex, i.e. still inside the critical section).  No spaces.

func zzverifVals[T any](xs []T) string {
	var b strings.Builder
	for i, x := range xs {
		if i > 0 {
			b.WriteByte('/')
		}
		fmt.Fprint(&b, x)
	}
	return b.String()
}

func (c *ConcurrentArrayBlockingQueue[T]) zzverifSnap() string {
	return fmt.Sprintf("head=%d,tail=%d,count=%d,data=%s", c.head, c.tail, c.count, zzverifVals(c.data))
}

func (c *ConcurrentLinkedBlockingQueue[T]) zzverifSnap() string {
	return fmt.Sprintf("max=%d,q=%s", c.maxSize, zzverifVals(c.linkedlist.AsSlice()))
}
