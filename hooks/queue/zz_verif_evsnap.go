//go:build verif

package queue

import (
	"fmt"
	"strings"
)

// White-box snapshots for the synchronisation-event traces (harness/evinst inserts a call right before
// every Unlock/RUnlock of the receiver's mutex, i.e. still inside the critical section).  No spaces.

func zzverifVals[T any](xs []T) string {
	var b strings.Builder
	for i, x := range xs {
		if i > 0 {
			b.WriteByte('/')
		}
		fmt.Fprint(&b, x)
	}
	return b.String()
}

func (c *ConcurrentArrayBlockingQueue[T]) zzverifSnap() string {
	return fmt.Sprintf("head=%d,tail=%d,count=%d,data=%s", c.head, c.tail, c.count, zzverifVals(c.data))
}

func (c *ConcurrentLinkedBlockingQueue[T]) zzverifSnap() string {
	return fmt.Sprintf("max=%d,q=%s", c.maxSize, zzverifVals(c.linkedlist.AsSlice()))
}

// cond (the broadcast helper of delay_queue.go, also used by ConcurrentLinkedBlockingQueue): the identity of the
// channel currently stored in c.signal, in the numbering of the event log (zzverifChanID; the same numbers the
// log gives for `close(old)` and for the `<-signal` select arms).  Only called inside the log mutex.
func (c *cond) zzverifSnap() string {
	return fmt.Sprintf("sig=%d", zzverifChanID(c.signal))
}

// DelayQueue: the heap array (root first; elements are rendered by their own String method, "id:deadline"
// for the elements of harness/evtrace).  Never calls Delay().
func (d *DelayQueue[T]) zzverifSnap() string {
	data := d.q.VerifData()
	if data == nil {
		return "na"
	}
	return "q=" + zzverifVals(data[1:])
}

// the whole heap array of the wrapped priority queue (slot 0 included), its capacity setting and the capacity of the array
func (c *ConcurrentPriorityQueue[T]) zzverifSnap() string {
	return fmt.Sprintf("data=%s,cap=%d,scap=%d", zzverifVals(c.pq.VerifData()), c.pq.Cap(), c.pq.VerifSliceCap())
}
