//go:build verif

package queue

// Read-only white-box accessors for the C08/C09 correspondence harness (harness/delayq).

// VerifLen returns the number of elements currently held, read under the queue's own mutex.
func (d *DelayQueue[T]) VerifLen() int {
	d.mutex.Lock()
	defer d.mutex.Unlock()
	return d.q.Len()
}

// VerifCap returns the capacity of the internal priority queue (0 = unbounded).
func (d *DelayQueue[T]) VerifCap() int {
	return d.q.Cap()
}
