//go:build verif

package queue

import "sync/atomic"

// VerifC06Chain is a read-only white-box accessor for the C06 check. It must only be called while
// no other goroutine uses the queue. It returns the values of the nodes linked after the current
// head (the dummy), the position of the tail node in that chain counted from the head
// (0 = tail is the dummy itself, -1 = tail is not reachable from head) and whether tail.next is nil.
func (c *ConcurrentLinkedQueue[T]) VerifC06Chain() (vals []T, tailPos int, tailNextNil bool) {
	headPtr := atomic.LoadPointer(&c.head)
	tailPtr := atomic.LoadPointer(&c.tail)
	tailPos = -1
	pos := 0
	cur := headPtr
	for cur != nil {
		if cur == tailPtr {
			tailPos = pos
		}
		n := (*node[T])(cur)
		next := atomic.LoadPointer(&n.next)
		if next != nil {
			vals = append(vals, (*node[T])(next).val)
		}
		cur = next
		pos++
		if pos > 1<<20 {
			break
		}
	}
	if tailPtr != nil {
		tailNextNil = atomic.LoadPointer(&(*node[T])(tailPtr).next) == nil
	}
	return
}

// VerifC06Data returns a copy of the heap array (without the unused slot 0) of the wrapped
// priority queue. Read-only; takes the read lock like every reader.
func (c *ConcurrentPriorityQueue[T]) VerifC06Data() []T {
	c.m.RLock()
	defer c.m.RUnlock()
	return c.pq.VerifC06Data()
}
