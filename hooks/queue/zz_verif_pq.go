//go:build verif

package queue

import "github.com/ecodeclub/ekit/internal/queue"

// VerifInner exposes the wrapped queue to the correspondence harness (read-only use).
func (pq *PriorityQueue[T]) VerifInner() *queue.PriorityQueue[T] { return pq.priorityQueue }
