//go:build verif

package tree

// VerifDump / VerifAudit: see internal/tree/zz_verif_dump.go (verification overlay only).
func (rb *RBTree[K, V]) VerifDump(key func(K) string) string { return rb.rbTree.VerifDump(key) }
func (rb *RBTree[K, V]) VerifAudit() string                 { return rb.rbTree.VerifAudit() }
