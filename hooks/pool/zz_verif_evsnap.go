//go:build verif

package pool

import (
	"fmt"
	"sort"
	"strings"
)

// White-box snapshots for the synchronisation-event traces (harness/evinst inserts a call right before
// every Unlock/RUnlock of the receiver's mutex, i.e. still inside the critical section).  No spaces.

// inside a critical section of b.mutex: totalGo (the only field that mutex protects)
func (b *OnDemandBlockTaskPool) zzverifSnap() string {
	return fmt.Sprintf("go=%d", b.totalGo)
}

// inside a critical section of g.mu: the counter and the member ids
func (g *group) zzverifSnap() string {
	ids := make([]int, 0, len(g.mp))
	for id := range g.mp {
		ids = append(ids, id)
	}
	sort.Ints(ids)
	s := make([]string, len(ids))
	for i, id := range ids {
		s[i] = fmt.Sprint(id)
	}
	return fmt.Sprintf("n=%d,mp=%s", g.n, strings.Join(s, "/"))
}

// VerifEvTotalGo: totalGo read under the mutex without going through an instrumented function (the harness
// waits for the workers to be gone before it stops the log).
func (b *OnDemandBlockTaskPool) VerifEvTotalGo() int {
	b.mutex.RLock()
	defer b.mutex.RUnlock()
	return int(b.totalGo)
}
