//go:build verif

package pool

import "time"

// Placeholder of the synchronisation-event log (harness/evinst overwrites this file, in its own
// instrumented scratch copy, with the real runtime).  In an uninstrumented build nothing is logged.

func VerifEvInstrumented() bool { return false }
func VerifEvStart()             {}
func VerifEvStop() []string     { return nil }
func VerifEvTid(t int)          {}
func VerifEvNote(text string)   {}

var zzverifBase = time.Now().Add(-time.Second)

// VerifEvClock: the monotonic clock in ns (nothing is logged in an uninstrumented build).
func VerifEvClock(text string) int64 { return int64(time.Since(zzverifBase)) }

// zzverifChanID: channel identities are only available in an instrumented build.
func zzverifChanID(ch any) int { return 0 }
