//go:build verif

package pool

import (
	"context"
	"errors"
	"sync/atomic"
)

// VerifPoolSnap is a read-only snapshot of the fields the C10-C12 model tracks.
// totalGo and the timeout-group size are read under b.mutex (the idle-exit path changes both
// inside one critical section), state / queue length / running counter are atomic reads.
type VerifPoolSnap struct {
	State   int32
	TotalGo int32
	Group   int32
	QLen    int
	QCap    int
	Running int32
	InitGo  int32
	CoreGo  int32
	MaxGo   int32
	Done    bool
}

func (b *OnDemandBlockTaskPool) VerifSnapshot() VerifPoolSnap {
	b.mutex.RLock()
	defer b.mutex.RUnlock()
	return VerifPoolSnap{
		State:   atomic.LoadInt32(&b.state),
		TotalGo: b.totalGo,
		Group:   b.timeoutGroup.size(),
		QLen:    len(b.queue),
		QCap:    cap(b.queue),
		Running: atomic.LoadInt32(&b.numGoRunningTasks),
		InitGo:  b.initGo,
		CoreGo:  b.coreGo,
		MaxGo:   b.maxGo,
		Done:    b.interruptCtx.Err() != nil,
	}
}

// VerifErrKind maps the package's unexported sentinel errors to the enum of the model.
func VerifErrKind(err error) string {
	switch {
	case err == nil:
		return "ok"
	case errors.Is(err, errTaskPoolIsNotRunning):
		return "err:notrunning"
	case errors.Is(err, errTaskPoolIsClosing):
		return "err:closing"
	case errors.Is(err, errTaskPoolIsStopped):
		return "err:stopped"
	case errors.Is(err, errTaskPoolIsStarted):
		return "err:started"
	case errors.Is(err, errTaskIsInvalid):
		return "err:invalid"
	case errors.Is(err, errInvalidArgument):
		return "err:arg"
	case errors.Is(err, context.DeadlineExceeded), errors.Is(err, context.Canceled):
		return "err:ctx"
	}
	return "err:other"
}
