"""Per-property check definitions. Each function gets (work, res, tier) and returns nothing;
it records obligations / violations on `res`."""
from . import core, steps

TRUSTED = [
    "Lean 4.33.0 kernel; axioms limited to propext, Classical.choice, Quot.sound (audited per theorem by #print axioms)",
    "the hand-written Lean model (tied to /repo by the correspondence run of this check and by regenerated definitions)",
    "the Go harness + Lean driver line protocol (generators, canonicalisation, parsing)",
    "Go runtime and standard library semantics (slices/append growth, maps, reflect, strconv, sync, time) are modelled, not verified",
]


def generic(pid, corrs, thorough_extra=None):
    """corrs: list of dicts(harness=, area=, name=, gen_args=, run_args=, env=)."""
    def run(work, res, tier):
        ok = steps.lean_obligations(res, pid)
        concrete = False
        for c in corrs:
            t = steps.TraceCorr(work, res, pid, tier=tier, **c)
            before = len(res.violations) + len(res.known)
            t.run(proofs_ok=ok)
            if any(v[1] for v in res.violations[before:]):
                concrete = True
        if not ok:
            steps.report_broken_proof(res, concrete)
        if tier == "thorough":
            rc, log = core.sh(["lake", "env", "leanchecker", "Ekit.Props." + pid], cwd=core.LEAN, timeout=3000)
            res.obligation("leanchecker Ekit.Props." + pid, rc == 0, log=log[-500:] if rc else "")
            if rc != 0:
                res.violation("leanchecker rejected the compiled proofs", {"broken": "leanchecker", "log": log[-2000:]},
                              concrete=False)
            if thorough_extra:
                thorough_extra(work, res)
    return run


CHECKS = {
    "C04": generic("C04", [dict(harness="lists", area="lists")]),
}
