"""Per-property check definitions live in checklib/props/Cxx.py (CHECK, MANIFEST); this module has the
generic pipeline they are built from and discovers them."""
import importlib
import re
import os
import pkgutil

from . import core, steps

TRUSTED = [
    "Lean 4.33.0 kernel; axioms limited to propext, Classical.choice, Quot.sound (audited per theorem by #print axioms)",
    "the hand-written Lean model (tied to /repo by the correspondence run of this check and by regenerated definitions)",
    "the Go harness + Lean driver line protocol (generators, canonicalisation, parsing)",
    "Go runtime and standard library semantics (slices/append growth, maps, reflect, strconv, sync, time) are modelled, not verified",
]
COMMON_NOTE = ("Trusted: Lean 4.33.0 kernel, axioms propext/Classical.choice/Quot.sound only (audited on every run); "
               "the hand model is tied to /repo by the per-run correspondence (real code vs compiled Lean model on the same "
               "operation sequences, white-box observations) and by definitions regenerated from the Go source; "
               "Go runtime/stdlib semantics are modelled, not verified.")


def generic(pid, corrs, extra=None, thorough_extra=None, skel=None, pregen=None, yield_search=None):
    """corrs: list of dicts(harness=, area=, name=, gen_args=, run_args=, env=, race=) for steps.TraceCorr.
    extra(work, res, tier, proofs_ok): property-specific additional steps (record violations on res).
    yield_search: list of corr dicts to re-run with schedule fuzzing (yield-instrumented copy) when an obligation
          broke and no concrete failing input was found yet; defaults to `corrs` when skel is given (concurrency).
    skel: list of "file.go[:Type,...]" — sync skeletons regenerated from the current tree into
          lean/Ekit/Generated/Skel<pid>.lean (namespace Ekit.Gen.Skel<pid>) before the Lean build.
    pregen(work) -> error string or None: other regeneration from the source (fact tables …)."""
    def do_pregen(work):
        errs = []
        if skel:
            e = steps.gen_skeletons(work, pid, skel)
            if e:
                errs.append(e)
        if pregen:
            e = pregen(work)
            if e:
                errs.append(e)
        return errs

    def run(work, res, tier):
        # keep every regenerated Lean file in step with the CURRENT tree, not only this property's:
        # the driver executable links all areas, and a file left over from a run against another tree
        # (e.g. a mutated one) must never leak into this run
        for other, chk in sorted(CHECKS.items()):
            if other != pid and hasattr(chk, "pregen"):
                try:
                    chk.pregen(work)
                except Exception:
                    pass
        for e in do_pregen(work):
            res.obligation("regenerate Lean definitions from the current source", False, log=e[-2000:])
            res.broken_proof = {"obligation": "extractor (source no longer in the translated subset)", "errors": [e[-2000:]]}
        ok = steps.lean_obligations(res, pid) and not getattr(res, "broken_proof", None)
        concrete = False
        for c in corrs:
            t = steps.TraceCorr(work, res, pid, tier=tier, **c)
            before = len(res.violations)
            t.run(proofs_ok=ok)
            if any(v[1] for v in res.violations[before:]):
                concrete = True
        if extra:
            before = len(res.violations)
            extra(work, res, tier, ok)
            if any(v[1] for v in res.violations[before:]):
                concrete = True
        # search phase for concurrency properties: something broke (proof / skeleton / model correspondence) but the
        # plain stress run produced no concrete failing input -> schedule fuzzing on the instrumented copy
        ys = yield_search if yield_search is not None else (corrs if skel else [])
        broke = (not ok) or getattr(res, "broken_proof", None) or any(not v[1] for v in res.violations)
        if os.environ.get("VERIF_FORCE_YIELD"):      # testing aid: run the schedule-fuzzing passes on a healthy tree too
            broke = True
        if ys and broke and not concrete:
            for permille in (30, 150):
                for c in ys:
                    if c.get("race") or c.get("evinst"):
                        continue
                    c2 = dict(c, name=(c.get("name") or c["harness"]) + "-yield%d" % permille, yielding=permille, spec_only=True)
                    before = len(res.violations)
                    steps.TraceCorr(work, res, pid, tier=tier, **c2).run(proofs_ok=True)
                    if any(v[1] for v in res.violations[before:]):
                        concrete = True
                        break
                if concrete:
                    break
        if not ok or getattr(res, "broken_proof", None):
            steps.report_broken_proof(res, concrete)
        if tier == "thorough":
            rc, log = core.sh(["lake", "env", "leanchecker", "Ekit.Props." + pid], cwd=core.LEAN, timeout=3000)
            res.obligation("leanchecker Ekit.Props." + pid, rc == 0, log=log[-500:] if rc else "")
            if rc != 0:
                res.violation("leanchecker rejected the compiled proofs", {"broken": "leanchecker", "log": log[-2000:]},
                              concrete=False)
            if thorough_extra:
                thorough_extra(work, res)
            # thorough tier: the same correspondences under schedule fuzzing (more interleavings explored on the
            # unchanged tree too; any spec rejection there would be a genuine counter-example)
            ys = yield_search if yield_search is not None else (corrs if skel else [])
            for c in ys:
                if not c.get("race") and not c.get("evinst"):
                    c2 = dict(c, name=(c.get("name") or c["harness"]) + "-yield60", yielding=60, spec_only=True)
                    steps.TraceCorr(work, res, pid, tier="quick", **c2).run(proofs_ok=True)
    run.pregen = do_pregen
    return run


CHECKS = {}
MANIFEST_TABLE = {}


def _discover():
    from . import props
    for m in pkgutil.iter_modules(props.__path__):
        if re.fullmatch(r"C\d{2,3}", m.name):
            mod = importlib.import_module("checklib.props." + m.name)
            CHECKS[m.name] = mod.CHECK
            MANIFEST_TABLE[m.name] = mod.MANIFEST


_discover()
