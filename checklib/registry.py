"""Per-property check definitions live in checklib/props/Cxx.py (CHECK, MANIFEST); this module has the
generic pipeline they are built from and discovers them."""
import importlib
import os
import pkgutil

from . import core, steps

TRUSTED = [
    "Lean 4.33.0 kernel; axioms limited to propext, Classical.choice, Quot.sound (audited per theorem by #print axioms)",
    "the hand-written Lean model (tied to /repo by the correspondence run of this check and by regenerated definitions)",
    "the Go harness + Lean driver line protocol (generators, canonicalisation, parsing)",
    "Go runtime and standard library semantics (slices/append growth, maps, reflect, strconv, sync, time) are modelled, not verified",
]
COMMON_NOTE = ("Trusted: Lean 4.33.0 kernel, axioms propext/Classical.choice/Quot.sound only (audited on every run); "
               "the hand model is tied to /repo by the per-run correspondence (real code vs compiled Lean model on the same "
               "operation sequences, white-box observations) and by definitions regenerated from the Go source; "
               "Go runtime/stdlib semantics are modelled, not verified.")


def generic(pid, corrs, extra=None, thorough_extra=None):
    """corrs: list of dicts(harness=, area=, name=, gen_args=, run_args=, env=, race=) for steps.TraceCorr.
    extra(work, res, tier, proofs_ok) -> bool(concrete violation found): property-specific additional steps."""
    def run(work, res, tier):
        ok = steps.lean_obligations(res, pid)
        concrete = False
        for c in corrs:
            t = steps.TraceCorr(work, res, pid, tier=tier, **c)
            before = len(res.violations)
            t.run(proofs_ok=ok)
            if any(v[1] for v in res.violations[before:]):
                concrete = True
        if extra:
            before = len(res.violations)
            extra(work, res, tier, ok)
            if any(v[1] for v in res.violations[before:]):
                concrete = True
        if not ok:
            steps.report_broken_proof(res, concrete)
        if tier == "thorough":
            rc, log = core.sh(["lake", "env", "leanchecker", "Ekit.Props." + pid], cwd=core.LEAN, timeout=3000)
            res.obligation("leanchecker Ekit.Props." + pid, rc == 0, log=log[-500:] if rc else "")
            if rc != 0:
                res.violation("leanchecker rejected the compiled proofs", {"broken": "leanchecker", "log": log[-2000:]},
                              concrete=False)
            if thorough_extra:
                thorough_extra(work, res)
    return run


CHECKS = {}
MANIFEST_TABLE = {}


def _discover():
    from . import props
    for m in pkgutil.iter_modules(props.__path__):
        if m.name.startswith("C"):
            mod = importlib.import_module("checklib.props." + m.name)
            CHECKS[m.name] = mod.CHECK
            MANIFEST_TABLE[m.name] = mod.MANIFEST


_discover()
