"""Orchestration shared by every property check (see DESIGN.md §2.2).

One run:  snapshot /repo's working tree -> overlay hooks+harness -> regenerate Lean from source ->
lake build + axiom audit -> correspondence runs (Go harness on the real code, Lean driver as
acceptor) -> on any failure search for a concrete failing input (spec oracle + shrink) ->
VIOLATION / KNOWN-FINDING lines, evidence file.
"""
import fcntl
import hashlib
import json
import os
import re
import shutil
import subprocess
import sys
import tempfile
import time

VERIF = os.path.dirname(os.path.dirname(os.path.abspath(__file__)))
REPO = os.environ.get("VERIF_REPO", "/repo")
LEAN = os.path.join(VERIF, "lean")
DRIVER = os.path.join(LEAN, ".lake", "build", "bin", "driver")
EVID = os.path.join(VERIF, "evidence")
ALLOWED_AXIOMS = {"propext", "Classical.choice", "Quot.sound"}
FORBIDDEN = re.compile(r"\b(sorry|admit|native_decide|bv_decide|implemented_by|unsafe)\b|^\s*axiom\s|maxHeartbeats\s+0")

GOENV = dict(os.environ, GOFLAGS="-mod=mod", GOPROXY="off", GOSUMDB="off", GOTOOLCHAIN="local",
             GONOSUMDB="*", GONOSUMCHECK="1", GOFLAGS_EXTRA="")


def sh(cmd, cwd=None, env=None, timeout=None, stdin=None, check=False):
    p = subprocess.run(cmd, cwd=cwd, env=env, timeout=timeout, stdin=stdin,
                       stdout=subprocess.PIPE, stderr=subprocess.STDOUT, text=True)
    if check and p.returncode != 0:
        raise RuntimeError("command failed: %s\n%s" % (cmd, p.stdout[-4000:]))
    return p.returncode, p.stdout


class Work:
    """Scratch copy of /repo's working tree with hooks and harness overlaid; removed on exit."""

    def __init__(self):
        base = os.environ.get("VERIF_TMP") or tempfile.gettempdir()
        self.dir = tempfile.mkdtemp(prefix="ekit-verif.", dir=base)
        self.repo = os.path.join(self.dir, "repo")
        self.bin = os.path.join(self.dir, "bin")
        os.makedirs(self.bin)
        shutil.copytree(REPO, self.repo, symlinks=True,
                        ignore=shutil.ignore_patterns(".git", "*.so", "zzverif"))
        # hooks: files tagged //go:build verif, laid next to the code they read
        self.hook_errors = []
        hooks = os.path.join(VERIF, "hooks")
        if os.path.isdir(hooks):
            for root, _, files in os.walk(hooks):
                rel = os.path.relpath(root, hooks)
                for f in files:
                    if not f.endswith(".go"):
                        continue
                    dst = os.path.join(self.repo, rel)
                    if not os.path.isdir(dst):
                        self.hook_errors.append("hook target directory missing: " + rel)
                        continue
                    shutil.copy(os.path.join(root, f), os.path.join(dst, f))
        shutil.copytree(os.path.join(VERIF, "harness"), os.path.join(self.repo, "zzverif"))
        self.built = {}
        self.blackbox = False      # True once the white-box hooks had to be replaced by their stubs
        self.hook_log = ""

    def use_stub_hooks(self):
        """Replace every overlaid hook file that has a sibling `<name>.go.stub` in /verif/hooks by that stub
        (same exported API, no access to unexported state). Returns True if at least one stub was installed."""
        hooks = os.path.join(VERIF, "hooks")
        n = 0
        for root, _, files in os.walk(hooks):
            rel = os.path.relpath(root, hooks)
            for f in files:
                if f.endswith(".go.stub"):
                    dst = os.path.join(self.repo, rel, f[:-5])
                    if os.path.isdir(os.path.dirname(dst)):
                        shutil.copy(os.path.join(root, f), dst)
                        n += 1
        self.blackbox = n > 0
        self.built = {}
        if getattr(self, "_yield_repo", None):
            shutil.rmtree(self._yield_repo, ignore_errors=True)
        self._yield_repo = None
        if getattr(self, "_evinst_repo", None):
            shutil.rmtree(self._evinst_repo, ignore_errors=True)
        self._evinst_repo = None
        return n > 0

    # the files whose interleavings matter: every statement of their functions gets a seeded yield point
    YIELD_FILES = [
        "list/copy_on_write_array_list.go", "list/concurrent_list.go", "queue/concurrent_linked_queue.go",
        "queue/concurrent_array_blocking_queue.go", "queue/concurrent_linked_blocking_queue.go",
        "queue/delay_queue.go", "queue/concurrent_priority_queue.go", "syncx/cond.go", "syncx/map.go",
        "syncx/limit_pool.go", "syncx/pool.go", "syncx/segment_key_lock.go", "pool/task_pool.go",
        "retry/exponential.go", "retry/fixed_internal.go", "retry/retry.go",
    ]

    def yield_repo(self):
        """A second scratch copy whose concurrent files are instrumented with yield points (schedule
        fuzzing, harness/yieldinst). Returns its path, or None (with self.yield_log set) if that failed."""
        if getattr(self, "_yield_repo", None) is not None:
            return self._yield_repo or None
        self._yield_repo = ""
        binp, blog = self.build("yieldinst")
        if binp is None:
            self.yield_log = "yieldinst does not build: " + blog
            return None
        dst = os.path.join(self.dir, "repo-yield")
        shutil.copytree(self.repo, dst, symlinks=True)
        files = [f for f in self.YIELD_FILES if os.path.exists(os.path.join(dst, f))]
        rc, log = sh([binp, "-root", dst] + files, env=GOENV, timeout=120)
        if rc != 0:
            self.yield_log = "yieldinst failed: " + log
            return None
        self._yield_repo = dst
        return dst

    # the files whose synchronisation actions are logged event by event (harness/evinst) for the model-mode
    # replay of real executions on the transition-system models (driver area evtrace)
    EVINST_FILES = [
        "queue/concurrent_array_blocking_queue.go", "queue/concurrent_linked_blocking_queue.go", "queue/delay_queue.go",
        "queue/concurrent_linked_queue.go", "syncx/limit_pool.go", "syncx/segment_key_lock.go", "syncx/cond.go",
        "queue/concurrent_priority_queue.go", "list/concurrent_list.go", "list/copy_on_write_array_list.go",
        # per-file options of harness/evinst (see its `options`): exact logging of channel operations by polling, go statements
        "pool/task_pool.go:poll,go,strict,chan=queue,cancel=interruptCtxCancel,skip=States,skip=sendState,skip=getState",
    ]

    def evinst_repo(self):
        """A scratch copy whose concurrent files log every synchronisation action (harness/evinst).
        Returns its path, or None (with self.evinst_log set) if the instrumenter failed."""
        if getattr(self, "_evinst_repo", None) is not None:
            return self._evinst_repo or None
        self._evinst_repo = ""
        binp, blog = self.build("evinst")
        if binp is None:
            self.evinst_log = "evinst does not build: " + blog
            return None
        dst = os.path.join(self.dir, "repo-evinst")
        shutil.copytree(self.repo, dst, symlinks=True)
        files = [f for f in self.EVINST_FILES if os.path.exists(os.path.join(dst, f.split(":")[0]))]
        rc, log = sh([binp, "-root", dst] + files, env=GOENV, timeout=120)
        if rc != 0:
            self.evinst_log = "evinst failed (the source left the instrumentable subset): " + log
            return None
        self._evinst_repo = dst
        return dst

    def build(self, name, race=False, yielding=False, evinst=False):
        """go build the harness command zzverif/<name> against the scratch copy (or its yield-/event-instrumented twin)."""
        key = (name, race, yielding, evinst)
        if key in self.built:
            return self.built[key]
        repo = self.repo
        if yielding:
            repo = self.yield_repo()
            if repo is None:
                return (None, getattr(self, "yield_log", "no instrumented copy"))
        if evinst:
            repo = self.evinst_repo()
            if repo is None:
                return (None, getattr(self, "evinst_log", "no instrumented copy"))
        out = os.path.join(self.bin, name + ("-race" if race else "") + ("-yield" if yielding else "") + ("-ev" if evinst else ""))
        cmd = ["go", "build", "-tags", "verif"] + (["-race"] if race else []) + ["-o", out, "./zzverif/" + name]
        rc, log = sh(cmd, cwd=repo, env=GOENV, timeout=600)
        if rc != 0 and not self.blackbox and not yielding and not evinst:
            # a hook may no longer compile against an edited tree: fall back to the black-box stubs
            self.hook_log = log
            if self.use_stub_hooks():
                rc, log = sh(cmd, cwd=self.repo, env=GOENV, timeout=600)
                if rc != 0:
                    log = self.hook_log + "\n--- with stub hooks ---\n" + log
        res = (out, None) if rc == 0 else (None, log)
        self.built[key] = res
        return res

    def cleanup(self):
        shutil.rmtree(self.dir, ignore_errors=True)


class LakeLock:
    def __enter__(self):
        os.makedirs(os.path.join(LEAN, ".lake"), exist_ok=True)
        self.f = open(os.path.join(LEAN, ".lake", "verif.lock"), "w")
        fcntl.flock(self.f, fcntl.LOCK_EX)
        return self

    def __exit__(self, *a):
        fcntl.flock(self.f, fcntl.LOCK_UN)
        self.f.close()


def write_if_changed(path, content):
    try:
        if open(path).read() == content:
            return False
    except FileNotFoundError:
        pass
    os.makedirs(os.path.dirname(path), exist_ok=True)
    with open(path, "w") as f:
        f.write(content)
    return True


def lake_build(targets, timeout=3000):
    with LakeLock():
        rc, log = sh(["lake", "build"] + targets, cwd=LEAN, timeout=timeout)
    return rc, log


def grep_forbidden(files):
    """sorry/admit/axiom/native_decide/... outside comments."""
    hits = []
    for path in files:
        try:
            src = open(path).read()
        except FileNotFoundError:
            continue
        # strip block comments (non-nested is enough for our sources) and line comments
        src2 = re.sub(r"/-.*?-/", lambda m: "\n" * m.group(0).count("\n"), src, flags=re.S)
        for n, line in enumerate(src2.split("\n"), 1):
            line = line.split("--")[0]
            if FORBIDDEN.search(line):
                hits.append("%s:%d: %s" % (os.path.relpath(path, VERIF), n, line.strip()))
    return hits


def lean_sources_of(module):
    """transitive local imports of a module (files under lean/)."""
    seen, todo = set(), [module]
    while todo:
        m = todo.pop()
        if m in seen:
            continue
        path = os.path.join(LEAN, m.replace(".", "/") + ".lean")
        if not os.path.exists(path):
            continue
        seen.add(m)
        for line in open(path):
            mm = re.match(r"\s*import\s+((Ekit|Driver|Audit)[\w.]*)", line)
            if mm:
                todo.append(mm.group(1))
    return [os.path.join(LEAN, m.replace(".", "/") + ".lean") for m in sorted(seen)]


def audit(pid):
    """Run Audit/<pid>.lean: one `#print axioms` per property theorem. Returns (obligations, failures)."""
    path = os.path.join(LEAN, "Audit", pid + ".lean")
    with LakeLock():
        rc, log = sh(["lake", "env", "lean", path], cwd=LEAN, timeout=900)
    obligations, failures = [], []
    names = re.findall(r"^#print axioms\s+(\S+)", open(path).read(), flags=re.M)
    # output blocks:  'name' depends on axioms: [a, b]   |   'name' does not depend on any axioms
    found = {}
    for m in re.finditer(r"'([^']+)' depends on axioms:\s*\[([^\]]*)\]", log, flags=re.S):
        found[m.group(1)] = [a.strip() for a in m.group(2).replace("\n", " ").split(",") if a.strip()]
    for m in re.finditer(r"'([^']+)' does not depend on any axioms", log):
        found[m.group(1)] = []
    for n in names:
        full = [k for k in found if k == n or k.endswith("." + n)]
        if not full:
            failures.append({"theorem": n, "reason": "not checked (missing or failed to elaborate)"})
            obligations.append({"theorem": n, "ok": False})
            continue
        ax = found[full[0]]
        bad = [a for a in ax if a not in ALLOWED_AXIOMS]
        ok = not bad
        obligations.append({"theorem": full[0], "axioms": ax, "ok": ok})
        if not ok:
            failures.append({"theorem": full[0], "reason": "depends on " + ", ".join(bad)})
    if rc != 0 and not failures:
        failures.append({"theorem": "Audit/" + pid, "reason": "audit file failed: " + log[-800:]})
    return obligations, failures, log


def run_driver(mode, area, trace_path, out_path, timeout=1800):
    with open(trace_path) as fin, open(out_path, "w") as fout:
        p = subprocess.run([DRIVER, mode, area], stdin=fin, stdout=fout, stderr=subprocess.PIPE, text=True,
                           timeout=timeout)
    return p.returncode, p.stderr


def first_bad(verdict_path):
    """(index, message) of the first non-ok verdict line, or None."""
    with open(verdict_path) as f:
        for i, line in enumerate(f):
            if not line.startswith("ok"):
                return i, line.strip()
    return None


def count_bad(verdict_path):
    n = 0
    with open(verdict_path) as f:
        for line in f:
            if not line.startswith("ok"):
                n += 1
    return n


def split_cases(lines, is_start=lambda l: l.startswith("new ")):
    cases, cur = [], []
    for l in lines:
        if is_start(l) and cur:
            cases.append(cur)
            cur = []
        cur.append(l)
    if cur:
        cases.append(cur)
    return cases


def case_of_line(trace_lines, idx, is_start=lambda l: l.startswith("new ")):
    """ops (without observations) of the case containing trace line idx."""
    start = idx
    while start > 0 and not is_start(trace_lines[start]):
        start -= 1
    end = idx + 1
    # keep the ops up to and including the failing line
    return [l.split(" => ")[0].strip() for l in trace_lines[start:end]]


def ddmin(ops, still_fails, keep_first=True, budget=400, seconds=150):
    """Delta-debugging over a list of op lines; the first line (constructor) is kept.
    Bounded by a number of re-runs and by wall time (re-running a defective concurrent implementation can be slow)."""
    head = ops[:1] if keep_first else []
    body = ops[1:] if keep_first else ops[:]
    n = 2
    calls = 0
    t_end = time.time() + seconds
    while len(body) >= 2 and calls < budget and time.time() < t_end:
        chunk = max(1, len(body) // n)
        reduced = False
        for i in range(0, len(body), chunk):
            cand = body[:i] + body[i + chunk:]
            calls += 1
            if cand and still_fails(head + cand):
                body = cand
                n = max(n - 1, 2)
                reduced = True
                break
        if not reduced:
            if chunk == 1:
                break
            n = min(len(body), n * 2)
    return head + body


def sha(s):
    return hashlib.sha1(s.encode()).hexdigest()[:12]


def load_known():
    p = os.path.join(VERIF, "known_findings.json")
    try:
        return json.load(open(p)).get("findings", [])
    except FileNotFoundError:
        return []


def match_known(pid, record):
    """A violation record matches a known finding iff property equals and the signature regex
    matches the record's canonical text."""
    text = json.dumps(record, sort_keys=True, ensure_ascii=False)
    for k in load_known():
        if k.get("property") == pid and k.get("status") == "known":
            if re.search(k["signature"], text):
                return k
    return None


class Result:
    def __init__(self, pid, tier, seed):
        self.pid, self.tier, self.seed = pid, tier, seed
        self.t0 = time.time()
        self.violations = []       # dicts with replay path
        self.known = []            # KNOWN-FINDING lines
        self.obligations = []      # {"name":..., "ok":bool, ...}
        self.coverage = {}
        self.assumptions = []
        self.notes = []
        # replays of earlier runs of this property are stale: every run rewrites its own
        rd = os.path.join(EVID, "replays")
        if os.path.isdir(rd):
            for f in os.listdir(rd):
                if f.startswith(pid + "-"):
                    os.remove(os.path.join(rd, f))

    def obligation(self, name, ok, **kw):
        self.obligations.append(dict(name=name, ok=bool(ok), **kw))

    def violation(self, what, replay_obj, concrete=True):
        os.makedirs(os.path.join(EVID, "replays"), exist_ok=True)
        replay_obj = dict(replay_obj, property=self.pid, what=what, concrete_input_found=concrete)
        k = match_known(self.pid, replay_obj)
        if k is not None:
            self.known.append("KNOWN-FINDING: property=%s %s (%s)" % (self.pid, k["what"], k["id"]))
            return
        path = os.path.join(EVID, "replays", "%s-%s.json" % (self.pid, sha(json.dumps(replay_obj, sort_keys=True))))
        with open(path, "w") as f:
            json.dump(replay_obj, f, indent=1, ensure_ascii=False)
        self.violations.append((path, concrete, what))

    def finish(self, level="proof", checker_cmd="", trusted_base=None):
        cov = dict(self.coverage)
        cov["obligations"] = len(self.obligations)
        cov["discharged"] = sum(1 for o in self.obligations if o["ok"])
        cov["obligation_list"] = self.obligations
        cov["checker_cmd"] = checker_cmd
        cov["trusted_base"] = trusted_base or []
        if self.notes:
            cov["notes"] = self.notes
        ev = {
            "property_id": self.pid, "tier": self.tier, "seed": self.seed, "level": level,
            "coverage": cov, "assumptions": self.assumptions,
            "wall_s": round(time.time() - self.t0, 2), "violations": len(self.violations),
            "known_findings_reported": self.known,
        }
        os.makedirs(EVID, exist_ok=True)
        with open(os.path.join(EVID, self.pid + ".json"), "w") as f:
            json.dump(ev, f, indent=1, ensure_ascii=False)
        for line in self.known:
            print(line)
        for path, concrete, what in self.violations:
            tail = "" if concrete else " no-failing-input-found"
            print("VIOLATION property=%s replay=%s%s" % (self.pid, path, tail))
            print("  " + what, file=sys.stderr)
        return 1 if self.violations else 0
