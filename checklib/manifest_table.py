"""Reasons for properties that are not claimed (MANIFEST.not_applicable)."""
NOT_APPLICABLE = {}
