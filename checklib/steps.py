"""Reusable steps: Lean proof obligations, trace correspondence with search+shrink."""
import json
import os
import shutil
import subprocess

from . import core


def driver_path():
    """the freshly built driver, or (if the current tree broke the Lean build) the reference copy
    built by setup — usable in spec mode, whose definitions do not depend on regenerated code."""
    if os.path.exists(core.DRIVER):
        return core.DRIVER
    ref = os.path.join(core.VERIF, "build", "driver.ref")
    return ref if os.path.exists(ref) else None


def gen_skeletons(work, pid, specs):
    """run harness/skel on the scratch copy; returns an error string or None"""
    binp, blog = work.build("skel")
    if binp is None:
        return "skeleton extractor does not build: " + blog
    # a file listed without a filter subsumes filtered entries of the same file (no duplicate defs)
    whole = {s for s in specs if ":" not in s}
    specs = sorted(set(s for s in specs if ":" not in s or s.split(":")[0] not in whole))
    out = os.path.join(core.LEAN, "Ekit", "Generated", "Skel%s.lean" % pid)
    tmp = os.path.join(work.dir, "Skel%s.lean" % pid)
    rc, log = core.sh([binp, "-root", work.repo, "-out", tmp, "-ns", "Ekit.Gen.Skel" + pid] + list(specs),
                      env=core.GOENV, timeout=120)
    if rc != 0:
        return "skeleton extractor failed: " + log
    core.write_if_changed(out, open(tmp).read())
    return None


def gen_extract(work, out_name, specs, ns="Ekit.Gen", imports="Ekit.Go.Basic"):
    """run harness/extract (Go -> Lean translator for loop-free integer functions) on the scratch copy,
    writing lean/Ekit/Generated/<out_name>.lean; returns an error string or None"""
    binp, blog = work.build("extract")
    if binp is None:
        return "translator does not build: " + blog
    out = os.path.join(core.LEAN, "Ekit", "Generated", out_name + ".lean")
    tmp = os.path.join(work.dir, out_name + ".lean")
    rc, log = core.sh([binp, "-root", work.repo, "-out", tmp, "-ns", ns, "-imports", imports] + list(specs),
                      env=core.GOENV, timeout=120)
    if rc != 0:
        return "Go->Lean translator failed (the source left the translated subset): " + log
    core.write_if_changed(out, open(tmp).read())
    return None


def pregen_slice(work):
    """Ekit/Generated/Slice.lean: calCapacity from internal/slice/shrink.go (used by C04, C05)."""
    return gen_extract(work, "Slice", ["internal/slice/shrink.go:calCapacity"])


def pregen_rbtreego(work):
    """Ekit/Generated/RBTreeGo.lean: the pointer-level functions of internal/tree/red_black_tree.go as MiniGo terms
    (harness/minigo); the C02 pointer-level theorems are about the interpreter running this output."""
    binp, blog = work.build("minigo")
    if binp is None:
        return "Go->MiniGo translator does not build: " + blog
    out = os.path.join(core.LEAN, "Ekit", "Generated", "RBTreeGo.lean")
    tmp = os.path.join(work.dir, "RBTreeGo.lean")
    rc, log = core.sh([binp, "-root", work.repo, "-out", tmp], env=core.GOENV, timeout=120)
    if rc != 0:
        return "Go->MiniGo translator failed (internal/tree/red_black_tree.go left the translated subset): " + log
    core.write_if_changed(out, open(tmp).read())
    return None


def pregen_linkedlistgo(work):
    """Ekit/Generated/LinkedListGo.lean: list/linked_list.go as terms of the second MiniGo instance (harness/minigoll);
    the C04 pointer-level theorems of the regenerated linked list are about the interpreter running this output."""
    binp, blog = work.build("minigoll")
    if binp is None:
        return "Go->MiniGo(LL) translator does not build: " + blog
    out = os.path.join(core.LEAN, "Ekit", "Generated", "LinkedListGo.lean")
    tmp = os.path.join(work.dir, "LinkedListGo.lean")
    rc, log = core.sh([binp, "-root", work.repo, "-out", tmp], env=core.GOENV, timeout=120)
    if rc != 0:
        return "Go->MiniGo(LL) translator failed (list/linked_list.go left the translated subset): " + log
    core.write_if_changed(out, open(tmp).read())
    return None


def pregen_slicego(work):
    """Ekit/Generated/SliceGo.lean: internal/slice/{add,delete,shrink}.go as terms of the third MiniGo instance
    (harness/minigosl: slices with aliasing)."""
    binp, blog = work.build("minigosl")
    if binp is None:
        return "Go->MiniGo(SL) translator does not build: " + blog
    out = os.path.join(core.LEAN, "Ekit", "Generated", "SliceGo.lean")
    tmp = os.path.join(work.dir, "SliceGo.lean")
    rc, log = core.sh([binp, "-root", work.repo, "-out", tmp], env=core.GOENV, timeout=120)
    if rc != 0:
        return "Go->MiniGo(SL) translator failed (internal/slice left the translated subset): " + log
    core.write_if_changed(out, open(tmp).read())
    return None


def pregen_pqgo(work):
    """Ekit/Generated/PQGo.lean: internal/queue/priority_queue.go as terms of the fourth MiniGo instance (harness/minigopq);
    it imports the translated internal/slice (SliceGo), so that one is regenerated first."""
    e = pregen_slicego(work)
    if e:
        return e
    binp, blog = work.build("minigopq")
    if binp is None:
        return "Go->MiniGo(PQ) translator does not build: " + blog
    out = os.path.join(core.LEAN, "Ekit", "Generated", "PQGo.lean")
    tmp = os.path.join(work.dir, "PQGo.lean")
    rc, log = core.sh([binp, "-root", work.repo, "-out", tmp], env=core.GOENV, timeout=120)
    if rc != 0:
        return "Go->MiniGo(PQ) translator failed (internal/queue/priority_queue.go left the translated subset): " + log
    core.write_if_changed(out, open(tmp).read())
    return None


def pregen_hm(work):
    """Ekit/Generated/HashMapGo.lean: mapx/hashmap.go as terms of the fifth MiniGo instance (harness/minigohm: node heap, the Go
    map as a function code -> optional head pointer, the node pool with the sync.Pool.Get choice as an oracle); the driver area
    `hmptr` and the theorems of Props/C03HM.lean are about the interpreter running this output."""
    binp, blog = work.build("minigohm")
    if binp is None:
        return "Go->MiniGo(HM) translator does not build: " + blog
    out = os.path.join(core.LEAN, "Ekit", "Generated", "HashMapGo.lean")
    tmp = os.path.join(work.dir, "HashMapGo.lean")
    rc, log = core.sh([binp, "-root", work.repo, "-out", tmp], env=core.GOENV, timeout=120)
    if rc != 0:
        return "Go->MiniGo(HM) translator failed (mapx/hashmap.go left the translated subset): " + log
    core.write_if_changed(out, open(tmp).read())
    return None


def pregen_al(work):
    """Ekit/Generated/ArrayListGo.lean: list/array_list.go as terms of the fifth MiniGo instance (harness/minigoal);
    it imports the translated internal/slice (SliceGo), which `slice.Add/Delete/Shrink` mean, so that one is regenerated first."""
    e = pregen_slicego(work)
    if e:
        return e
    binp, blog = work.build("minigoal")
    if binp is None:
        return "Go->MiniGo(AL) translator does not build: " + blog
    out = os.path.join(core.LEAN, "Ekit", "Generated", "ArrayListGo.lean")
    tmp = os.path.join(work.dir, "ArrayListGo.lean")
    rc, log = core.sh([binp, "-root", work.repo, "-out", tmp], env=core.GOENV, timeout=120)
    if rc != 0:
        return "Go->MiniGo(AL) translator failed (list/array_list.go left the translated subset): " + log
    core.write_if_changed(out, open(tmp).read())
    return None


def pregen_sk(work):
    """Ekit/Generated/SkipListGo.lean: internal/list/skip_list.go as terms of the fifth MiniGo instance (harness/minigosk)."""
    binp, blog = work.build("minigosk")
    if binp is None:
        return "Go->MiniGo(SK) translator does not build: " + blog
    out = os.path.join(core.LEAN, "Ekit", "Generated", "SkipListGo.lean")
    tmp = os.path.join(work.dir, "SkipListGo.lean")
    rc, log = core.sh([binp, "-root", work.repo, "-out", tmp], env=core.GOENV, timeout=120)
    if rc != 0:
        return "Go->MiniGo(SK) translator failed (internal/list/skip_list.go left the translated subset): " + log
    core.write_if_changed(out, open(tmp).read())
    return None


def lean_obligations(res, pid, extra_targets=()):
    """lake build of the property module + axiom audit + forbidden-token grep.
    Returns True iff every proof obligation of `pid` is discharged."""
    mod = "Ekit.Props." + pid
    # companion modules of the property (e.g. Ekit/Props/C06HW.lean: the Herlihy–Wing forms) are obligations too
    companions = sorted("Ekit.Props." + f[:-5] for f in os.listdir(os.path.join(core.LEAN, "Ekit", "Props"))
                        if f.startswith(pid) and f.endswith(".lean") and f[:-5] != pid)
    # soundness theorems about the driver's own replayers that go through this property's theorems
    # (lean/Driver/Ev/<Name><pid>.lean, e.g. BQSoundC07): audited with the property, never linked into the driver
    evdir = os.path.join(core.LEAN, "Driver", "Ev")
    if os.path.isdir(evdir):
        companions += sorted("Driver.Ev." + f[:-5] for f in os.listdir(evdir) if f.endswith(pid + ".lean"))
    rc, log = core.lake_build([mod] + companions + list(extra_targets))
    # the driver executable contains the acceptors of ALL areas; if some OTHER property's regenerated
    # definitions broke its build, that is not this property's obligation: use the reference driver.
    drc, dlog = core.lake_build(["driver"])
    if drc != 0:
        try:
            os.remove(core.DRIVER)
        except OSError:
            pass
        res.notes.append("driver executable did not build on this tree (another area's regenerated code?); "
                         "using the reference driver built by setup: " + "; ".join(
                             [l for l in dlog.split("\n") if "error" in l][:3]))
    ok = True
    if rc != 0:
        ok = False
        errs = [l for l in log.split("\n") if "error" in l][:20]
        res.obligation("lake build " + mod, False, log="\n".join(errs))
        res.broken_proof = {"obligation": "lake build " + mod, "errors": errs}
        # a failed build may leave no driver; fall back to the reference copy for the search
    else:
        res.obligation("lake build " + mod, True)
    obligations, failures, alog = core.audit(pid) if rc == 0 else ([], [], "")
    for o in obligations:
        res.obligation("theorem " + o["theorem"], o["ok"], axioms=o.get("axioms"))
    for f in failures:
        ok = False
        res.broken_proof = {"obligation": f["theorem"], "errors": [f["reason"]]}
    srcs = core.lean_sources_of(mod)
    for c in companions:
        srcs += [x for x in core.lean_sources_of(c) if x not in srcs]
    hits = core.grep_forbidden(srcs)
    res.obligation("no sorry/admit/axiom/native_decide/bv_decide/implemented_by/unsafe in %d source files" % len(srcs),
                   not hits, hits=hits)
    if hits:
        ok = False
        res.broken_proof = {"obligation": "forbidden tokens", "errors": hits}
    res.coverage.setdefault("lean_files", [os.path.relpath(s, core.VERIF) for s in srcs])
    return ok


class TraceCorr:
    """Correspondence of one harness with one driver area, on generated + corpus op sequences."""

    def __init__(self, work, res, pid, harness, area, tier, name=None, gen_args=(), run_args=(),
                 env=None, race=False, timeout=None, yielding=0, spec_only=False, evinst=False):
        self.work, self.res, self.pid = work, res, pid
        self.harness, self.area, self.tier = harness, area, tier
        self.name = name or harness
        self.gen_args, self.run_args = list(gen_args), list(run_args)
        self.env = dict(core.GOENV, VERIF_SEED=str(res.seed), **(env or {}))
        self.race = race
        # schedule fuzzing: run the harness against the yield-instrumented twin of the scratch copy
        # (harness/yieldinst) with VERIF_YIELD=<permille>; spec_only: judge by the specification only
        self.yielding = int(yielding)
        self.spec_only = spec_only
        # event-logging twin of the scratch copy (harness/evinst): the harness observes single synchronisation actions
        self.evinst = bool(evinst)
        if self.yielding:
            self.env["VERIF_YIELD"] = str(self.yielding)
        # a wedged implementation must not stall a check for long: bound every harness/driver process
        self.timeout = timeout or (600 if tier == "quick" else 3600)
        self.dir = os.path.join(work.dir, "corr-" + self.name)
        os.makedirs(self.dir, exist_ok=True)

    # -- plumbing ------------------------------------------------------------------------
    def _run_impl(self, ops_path, trace_path, stats_path=None):
        cmd = [self.bin, "-mode", "run", "-ops", ops_path, "-out", trace_path] + self.run_args
        if stats_path:
            cmd += ["-stats", stats_path]
        try:
            p = subprocess.run(cmd, env=self.env, stdout=subprocess.PIPE, stderr=subprocess.STDOUT, text=True,
                               timeout=self.timeout)
            return p.returncode, p.stdout
        except subprocess.TimeoutExpired as e:
            return 124, "timeout after %ss\n%s" % (self.timeout, (e.stdout or "")[-2000:] if isinstance(e.stdout, str) else "")

    def _verdict(self, mode, trace_path, out_path):
        drv = driver_path()
        if drv is None:
            return None
        with open(trace_path) as fin, open(out_path, "w") as fout:
            p = subprocess.run([drv, mode, self.area], stdin=fin, stdout=fout, stderr=subprocess.PIPE, text=True,
                               timeout=self.timeout)
        bad = core.first_bad(out_path)
        if bad is None:
            # every trace line must have received a verdict: a driver that stopped early (crash, unknown area)
            # must not silently accept the rest of the trace
            nt = sum(1 for _ in open(trace_path))
            nv = sum(1 for _ in open(out_path))
            if nv < nt:
                with open(out_path, "a") as fout:
                    fout.write("bad the Lean driver stopped after %d of %d lines (exit %s): %s\n"
                               % (nv, nt, p.returncode, (p.stderr or "").strip()[-300:]))
                return nv, "bad the Lean driver stopped after %d of %d lines" % (nv, nt)
        return bad

    def _still_fails(self, mode):
        def f(ops):
            d = os.path.join(self.dir, "shrink")
            os.makedirs(d, exist_ok=True)
            op, tr, vd = (os.path.join(d, x) for x in ("ops.txt", "trace.txt", "verdict.txt"))
            with open(op, "w") as fh:
                fh.write("\n".join(ops) + "\n")
            rc, _ = self._run_impl(op, tr)
            if rc != 0:
                return True   # crashed / hung on this input: still failing
            return self._verdict(mode, tr, vd) is not None
        return f

    # -- the step ------------------------------------------------------------------------
    def run(self, proofs_ok=True):
        res = self.res
        cname = "correspondence %s (harness %s vs driver area %s)" % (self.name, self.harness, self.area)
        self.bin, blog = self.work.build(self.harness, race=self.race, yielding=bool(self.yielding), evinst=self.evinst)
        if self.bin is None:
            res.obligation(cname, False, log=blog[-3000:])
            res.violation("the correspondence harness no longer builds against the current tree (an API or "
                          "a hooked field changed); " + cname,
                          {"broken": cname, "build_log": blog[-3000:]}, concrete=False)
            return False
        if self.work.blackbox:
            # the white-box hooks no longer compile: the model-mode correspondence is broken; go on black-box
            res.obligation("white-box hooks of %s compile against the current tree" % self.name, False,
                           log=self.work.hook_log[-1500:])
            if not getattr(res, "broken_proof", None):
                res.broken_proof = {"obligation": "white-box correspondence hooks (an unexported field they read changed)",
                                    "errors": [self.work.hook_log[-1500:]]}
            proofs_ok = False
        ops, trace, stats = (os.path.join(self.dir, x) for x in ("ops.txt", "trace.txt", "stats.json"))
        # several driver areas judge the traces of one harness (e.g. `lists`, `llptr`, `slptr`, `alptr`): generate and execute
        # once per (binary, arguments, environment) and let the later areas read the same ops/trace/stats files — also keeps a
        # wedged implementation from costing one timeout per area
        ckey = (self.bin, self.tier, tuple(self.gen_args), tuple(self.run_args), tuple(sorted(self.env.items())))
        cache = self.work.__dict__.setdefault("_impl_runs", {})
        hit = cache.get(ckey)
        if hit is not None:
            rc, log = hit["rc"], hit["log"]
            for src, dst in ((hit["ops"], ops), (hit["trace"], trace), (hit["stats"], stats)):
                if os.path.exists(src):
                    shutil.copyfile(src, dst)
        else:
            rc, log = core.sh([self.bin, "-mode", "gen", "-tier", self.tier, "-out", ops] + self.gen_args, env=self.env,
                              timeout=self.timeout)
            if rc != 0:
                res.obligation(cname, False, log=log[-2000:])
                res.violation("generator failed: " + log[-500:], {"broken": cname}, concrete=False)
                return False
            rc, log = self._run_impl(ops, trace, stats)
            cache[ckey] = dict(rc=rc, log=log, ops=ops, trace=trace, stats=stats)
        if rc != 0:
            # the implementation crashed or hung outside a recovered call: find the case
            res.obligation(cname, False, log=log[-3000:])
            lines = [l.strip() for l in open(trace)] if os.path.exists(trace) else []
            done = len(lines)
            allops = [l.strip() for l in open(ops) if l.strip()]
            case = core.case_of_line(allops, min(done, len(allops) - 1))
            res.violation("implementation crashed or hung (exit %d) while executing the case: %s" % (rc, log[-600:]),
                          {"harness": self.harness, "area": self.area, "evinst": self.evinst, "mode": "crash", "ops": case,
                           "log": log[-3000:]}, concrete=True)
            return False
        try:
            st = json.load(open(stats))
        except Exception:
            st = {}
        trace_lines = [l.rstrip("\n") for l in open(trace)]
        n = len(trace_lines)
        cov = res.coverage
        cov["evaluations"] = cov.get("evaluations", 0) + n
        cov["distinct_nontrivial"] = cov.get("distinct_nontrivial", 0) + int(st.get("distinct_state_op_pairs", 0))
        cov.setdefault("traces_validated_against_impl", 0)
        cov["traces_validated_against_impl"] += int(st.get("cases", 0))
        cov.setdefault("correspondence", {})[self.name] = {"lines": n, "stats": st}
        cov.setdefault("samples", [])
        cov["samples"] += trace_lines[:6] + trace_lines[n // 2:n // 2 + 3]

        # coverage guard: harnesses stop or skip scenarios after hangs and report hung/inconclusive cases with
        # tokens the drivers accept ("skipped", "hang", "inconclusive"). On a healthy tree these are (nearly) absent;
        # if they dominate the trace, an OK verdict would carry no evidence, so that is reported.
        def _tok(l):
            return (" => " in l) and l.split(" => ", 1)[1].split(" ")[0] or ""
        soft = [l for l in trace_lines if _tok(l) in ("skipped", "hang", "inconclusive") or " hang=1" in l or "=> hang" in l]
        cov.setdefault("inconclusive_lines", 0)
        cov["inconclusive_lines"] += len(soft)
        if n >= 10 and len(soft) > max(5, n // 5):
            res.obligation(cname + " (coverage)", False, inconclusive_lines=len(soft), lines=n)
            res.violation("%d of %d scenarios of this run were skipped / hung / inconclusive: the implementation hangs so often "
                          "that the run carries no evidence (first such line: %s)" % (len(soft), n, soft[0][:200]),
                          {"broken": cname + " coverage", "first_inconclusive": soft[:5], "seed": res.seed}, concrete=False)
        verdict_m = os.path.join(self.dir, "verdict.model")
        if self.work.blackbox or self.spec_only:
            bad_m = ("skip", "")
        else:
            bad_m = self._verdict("model", trace, verdict_m) if proofs_ok or os.path.exists(core.DRIVER) else ("skip", "")
        if bad_m is None:
            res.obligation(cname, True, lines=n)
            if proofs_ok:
                return True
        # something is off: a model/impl divergence, or a broken proof. Ask the specification.
        verdict_s = os.path.join(self.dir, "verdict.spec")
        bad_s = self._verdict("spec", trace, verdict_s)
        if bad_s is not None:
            idx, msg = bad_s
            case = core.case_of_line(trace_lines, idx)
            small = core.ddmin(case, self._still_fails("spec"))
            # final observation for the record
            d = os.path.join(self.dir, "shrink")
            self._still_fails("spec")(small)
            final_trace = [l.rstrip("\n") for l in open(os.path.join(d, "trace.txt"))]
            final_verdict = [l.rstrip("\n") for l in open(os.path.join(d, "verdict.txt"))]
            if bad_m is not None:
                res.obligation(cname, False)
            res.violation("the implementation disagrees with the abstract specification: " + msg,
                          {"harness": self.harness, "area": self.area, "evinst": self.evinst, "mode": "spec", "ops": small,
                           "trace": final_trace, "verdict": final_verdict, "first_message": msg,
                           "seed": res.seed, "broken_obligation": getattr(res, "broken_proof", None)},
                          concrete=True)
            return False
        if bad_m is not None and bad_m[0] != "skip":
            idx, msg = bad_m
            case = core.case_of_line(trace_lines, idx)
            small = core.ddmin(case, self._still_fails("model"))
            self._still_fails("model")(small)
            d = os.path.join(self.dir, "shrink")
            final_trace = [l.rstrip("\n") for l in open(os.path.join(d, "trace.txt"))]
            final_verdict = [l.rstrip("\n") for l in open(os.path.join(d, "verdict.txt"))]
            res.obligation(cname, False)
            res.violation("model and implementation diverge (%s) but the abstract specification accepts every "
                          "observed call: the theorems no longer speak about this code" % msg,
                          {"harness": self.harness, "area": self.area, "evinst": self.evinst, "mode": "model", "ops": small,
                           "trace": final_trace, "verdict": final_verdict, "broken": cname,
                           "first_message": msg, "seed": res.seed}, concrete=False)
            return False
        return True


def report_broken_proof(res, found_concrete):
    """A proof obligation failed and the search found no failing input."""
    bp = getattr(res, "broken_proof", None)
    if bp and not found_concrete:
        res.violation("proof obligation no longer checks: %s" % bp["obligation"],
                      {"broken": bp["obligation"], "errors": bp["errors"]}, concrete=False)


def replay(work, path):
    """./check Cxx --replay F"""
    rec = json.load(open(path))
    if "ops" not in rec:
        print(json.dumps(rec, indent=1, ensure_ascii=False))
        print("replay: this record names a broken obligation, there is no concrete input to re-run")
        return 1
    binp, blog = work.build(rec["harness"], evinst=bool(rec.get("evinst")))
    if binp is None:
        print(blog)
        return 1
    d = os.path.join(work.dir, "replay")
    os.makedirs(d)
    ops, tr, vd = (os.path.join(d, x) for x in ("ops.txt", "trace.txt", "verdict.txt"))
    with open(ops, "w") as f:
        f.write("\n".join(rec["ops"]) + "\n")
    env = dict(core.GOENV, VERIF_SEED=str(rec.get("seed", 1)))
    p = subprocess.run([binp, "-mode", "run", "-ops", ops, "-out", tr], env=env, stdout=subprocess.PIPE,
                       stderr=subprocess.STDOUT, text=True, timeout=600)
    print(p.stdout[-3000:])
    if p.returncode != 0:
        print("replay: implementation crashed or hung (exit %d)" % p.returncode)
        return 1
    mode = rec.get("mode", "spec")
    if mode == "crash":
        mode = "spec"
    with open(tr) as fin, open(vd, "w") as fout:
        subprocess.run([driver_path(), mode, rec["area"]], stdin=fin, stdout=fout, text=True)
    bad = False
    for t, v in zip(open(tr), open(vd)):
        print("%-70s   %s" % (t.rstrip(), v.rstrip()))
        bad = bad or not v.startswith("ok")
    print("replay: %s" % ("still failing" if bad else "passes now"))
    return 1 if bad else 0
