from checklib.registry import generic, COMMON_NOTE

CHECK = generic("C05", [dict(harness="heap", area="heap"), dict(harness="skiplist", area="skiplist")])

MANIFEST = dict(
    text=("Theorems in Lean 4 (Ekit/Props/C05.lean) for ANY comparator that is a total preorder (ties allowed). "
          "Priority queue (model = 1-based array with slot 0, append + the sift-up loop, move-last-to-root + slice.Shrink via "
          "calCapacity + the heapify loop, every index read partial): the heap invariant and the capacity bookkeeping are preserved "
          "by every call for every runtime growth choice; every history is accepted by the bag-with-capacity specification "
          "(dequeued/peeked element is a member and a minimum, contents = enqueued minus dequeued as a multiset, ErrOutOfCapacity "
          "exactly when a bounded queue holds capacity elements and then nothing changes, ErrEmptyQueue exactly on empty, Len/Cap/"
          "IsBoundless); a bounded queue never exceeds its capacity and its array is never reallocated; no call panics (sift loops "
          "stay in range with the stated fuel, the shrink never divides by zero - slot 0 keeps len >= 1 - and never truncates). "
          "Skip list (model = level-0 chain of (value, tower height) + level + size; forward pointer on level i = next tower higher "
          "than i; traverse = the per-level scans): for ALL tower heights in 1..MaxLevel every call returns what the sorted-sequence "
          "specification returns and leaves the same enumeration, so AsSlice is ascending and is inserted-minus-deleted as a "
          "multiset, Search = membership up to the comparator, Get = i-th element (out of range = index error, not a panic), "
          "Peek = head, Len = count, level = tallest tower (1 when empty), deleting an absent element changes nothing; update[j] "
          "is proved to be the level-j predecessor, which makes the per-level splices one list insertion. "
          "Lifted to all histories from the constructors (Ekit/Props/C05Rev.lean): in every state reachable from "
          "NewPriorityQueue(capacity) under every growth choice the queue is well formed, holds at most capacity elements, is "
          "full/empty exactly when it holds capacity/zero elements, Peek and Dequeue return the same minimum, nothing panics; "
          "initial + successfully enqueued = dequeued + held as multisets along every history; a full drain returns the held "
          "multiset in ascending order (enqueue ts then drain = ts sorted). Skip list from NewSkipList, every history, every "
          "height sequence (contract demanded of Inserts only), ANY lawful comparator incl. ties: AsSlice ascending and = "
          "inserted minus one cmp-equal element per successful delete as a multiset; Len/Peek/Get/Search agree with it. "
          "Both models are trace acceptors for the real code on every run (heap array incl. slot 0 and slice capacity; tower "
          "heights, level, size and every level chain), tower heights come from several hundred seeds of x/exp/rand per run."),
    note=COMMON_NOTE + " Comparator lawfulness (total preorder) is a hypothesis; harness comparators (natural, k/3 with ties, reversed) "
         "are proved lawful. Slice growth capacity on append and the tower height drawn by randomLevel are oracles (constraints "
         "cap>=len, 1<=h<=MaxLevel, the latter checked on every observed Insert); pointer-level tower splicing is abstracted to the "
         "(value,height) chain and tied by comparing every level chain of the real structure on every step; int overflow of "
         "capacity+1 and float32 rounding in calCapacity (int(float32(c)*0.625) differs from the model's c*5/8 from slice capacity 3355451 "
         "upwards, i.e. once 5c >= 2^24 - white-box capacity field only, the shrink still never truncates) are outside the model.",
    technique="Lean 4 invariant + refinement proofs (heap sift loops, per-level predecessor search, induction over histories and all "
              "height sequences) + white-box trace-acceptance correspondence against the real queue and skip list",
)
