from checklib import steps
from checklib.registry import generic, COMMON_NOTE


def deep_search(work, res, tier, proofs_ok):
    """Search phase of the heap part. The ordinary run replays every call on the list-based Lean model, which
    bounds how deep its queues can be (a few thousand elements). When something broke (a proof, or the white-box
    correspondence: heap array / slice capacity / a result differ from the model) but the specification accepted every
    call of the ordinary run, the defect may need a larger capacity or a deeper heap to become observable: the harness's
    `-deep` family (bounded queues filled to capacities up to ~80000, deep heaps drained completely) is executed on the
    real code and judged by the specification only. Never runs on a healthy tree."""
    broke = (not proofs_ok) or getattr(res, "broken_proof", None) or any(not v[1] for v in res.violations)
    if not broke or any(v[1] for v in res.violations):
        return
    steps.TraceCorr(work, res, "C05", harness="heap", area="heap", name="heap-deep", tier=tier, gen_args=["-deep"],
                    spec_only=True).run(proofs_ok=True)


CHECK = generic("C05", [dict(harness="heap", area="heap"), dict(harness="skiplist", area="skiplist"),
                        dict(harness="heap", area="pqptr", name="heap-pqptr"),
                        dict(harness="skiplist", area="skptr", name="skiplist-skptr")], extra=deep_search,
                pregen=lambda work: steps.pregen_pqgo(work) or steps.pregen_sk(work))

MANIFEST = dict(
    text=("Props/C05PQ.lean: internal/queue/priority_queue.go is translated on every run (harness/minigopq) into a deep embedding whose interpreter has "
          "Go's aliasing slices, the receiver, method calls and the translated slice.Shrink; the interpreter running the translation is proved to "
          "simulate the heap model below call by call - constructor, Enqueue (sift-up loop), Dequeue (move last to root, Shrink, heapify loop writing "
          "through the aliased slice), Peek, Len, Cap, IsBoundless (c05_pq_new_refines, c05_pq_step_refines) - and, for a lawful comparator and a "
          "well-formed queue, never to panic, get stuck or run out of fuel (c05_pq_step_refines_wf); the translated program is run against the real "
          "queue on every heap trace (area pqptr: results, Len, the whole heap array and the slice capacity). "
          "Props/C05SK.lean: internal/list/skip_list.go is translated on every run (harness/minigosk; interpreter Ekit/MiniGo/LangSK.lean with forward arrays, "
          "the by-value update array and the coin stream of randomLevel as an oracle) and replayed against the real skip list on every trace (area skptr: "
          "results, AsSlice, Len, tower heights, level, every level chain); proved about the translation: the constructor, randomLevel = min(n+1, MaxLevel) "
          "for every coin stream, traverse's loops computing the model's scan, Search/Get/Peek/Len composed with the c05_sl_* theorems (c05_sk_*); "
          "the simulation of the translated Insert and DeleteElement is NOT proved (replay only). "
          "Theorems in Lean 4 (Ekit/Props/C05.lean) for ANY comparator that is a total preorder (ties allowed). "
          "Priority queue (model = 1-based array with slot 0, append + the sift-up loop, move-last-to-root + slice.Shrink via "
          "calCapacity + the heapify loop, every index read partial): the heap invariant and the capacity bookkeeping are preserved "
          "by every call for every runtime growth choice; every history is accepted by the bag-with-capacity specification "
          "(dequeued/peeked element is a member and a minimum, contents = enqueued minus dequeued as a multiset, ErrOutOfCapacity "
          "exactly when a bounded queue holds capacity elements and then nothing changes, ErrEmptyQueue exactly on empty, Len/Cap/"
          "IsBoundless); a bounded queue never exceeds its capacity and its array is never reallocated; no call panics (sift loops "
          "stay in range with the stated fuel, the shrink never divides by zero - slot 0 keeps len >= 1 - and never truncates). "
          "Skip list (model = level-0 chain of (value, tower height) + level + size; forward pointer on level i = next tower higher "
          "than i; traverse = the per-level scans): for ALL tower heights in 1..MaxLevel every call returns what the sorted-sequence "
          "specification returns and leaves the same enumeration, so AsSlice is ascending and is inserted-minus-deleted as a "
          "multiset, Search = membership up to the comparator, Get = i-th element (out of range = index error, not a panic), "
          "Peek = head, Len = count, level = tallest tower (1 when empty), deleting an absent element changes nothing; update[j] "
          "is proved to be the level-j predecessor, which makes the per-level splices one list insertion. "
          "Lifted to all histories from the constructors (Ekit/Props/C05Rev.lean): in every state reachable from "
          "NewPriorityQueue(capacity) under every growth choice the queue is well formed, holds at most capacity elements, is "
          "full/empty exactly when it holds capacity/zero elements, Peek and Dequeue return the same minimum, nothing panics; "
          "initial + successfully enqueued = dequeued + held as multisets along every history; a full drain returns the held "
          "multiset in ascending order (enqueue ts then drain = ts sorted). Skip list from NewSkipList, every history, every "
          "height sequence (contract demanded of Inserts only), ANY lawful comparator incl. ties: AsSlice ascending and = "
          "inserted minus one cmp-equal element per successful delete as a multiset; Len/Peek/Get/Search agree with it. "
          "Both models are trace acceptors for the real code on every run (heap array incl. slot 0 and slice capacity; tower "
          "heights, level, size and every level chain), tower heights come from several hundred seeds of x/exp/rand per run. "
          "Capacities span 1 .. 2^22 on every run (constructor, Cap, IsBoundless, slice capacity, light use) and bounded queues "
          "are filled to and past capacities of ~2000 and ~5000 (thorough: ~17000); when only the white-box correspondence "
          "breaks, a specification-only search goes on to capacities of ~66000 and complete drains of 9000-element heaps."),
    note=COMMON_NOTE + " Comparator lawfulness (total preorder) is a hypothesis; harness comparators (natural, k/3 with ties, reversed) "
         "are proved lawful. Slice growth capacity on append and the tower height drawn by randomLevel are oracles (constraints "
         "cap>=len, 1<=h<=MaxLevel, the latter checked on every observed Insert); pointer-level tower splicing is abstracted to the "
         "(value,height) chain and tied by comparing every level chain of the real structure on every step; int overflow of "
         "capacity+1 and float32 rounding in calCapacity (int(float32(c)*0.625) differs from the model's c*5/8 from slice capacity 3355451 "
         "upwards, i.e. once 5c >= 2^24 - white-box capacity field only, the shrink still never truncates) are outside the model.",
    technique="Lean 4 invariant + refinement proofs (heap sift loops, per-level predecessor search, induction over histories and all "
              "height sequences) + white-box trace-acceptance correspondence against the real queue and skip list",
)
