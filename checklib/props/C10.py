from checklib import steps
from checklib.registry import generic, COMMON_NOTE


def race_run(work, res):
    """thorough tier: the same quick-sized scenario mix with the harness built with -race
    (a race report makes the harness exit non-zero = reported as a crash with the case)"""
    steps.TraceCorr(work, res, "C10", harness="pool", area="pool", tier="quick", name="pool-race",
                    gen_args=["-prop", "C10"], race=True).run(proofs_ok=True)


# evtrace: every single synchronisation action of real concurrent executions of the pool (event-logging twin of the
# scratch copy, harness/evinst) replayed label by label on Ekit.Pool's own step function (Driver/Ev/Pool.lean)
EVTRACE = dict(harness="evtrace", area="evtrace", name="evtrace-pool", evinst=True, gen_args=["-targets", "pool"])

CHECK = generic("C10", [dict(harness="pool", area="pool", gen_args=["-prop", "C10"]), EVTRACE],
                thorough_extra=race_run, skel=["pool/task_pool.go"])

MANIFEST = dict(
    text='Lean 4 transition system with one label per atomic action of task_pool.go (CAS/loads of state incl. the transient lock value, every mutex acquire/release with local copies of totalGo, channel send/recv/close incl. unbuffered rendezvous, select arms, Submit retry loop, Start, Shutdown, ShutdownNow drain, worker loop with idle timer, timeout group, !ok exit, panic/recover), unbounded callers and workers. Proved for every reachable state and valid configuration: no send on / second close of the closed queue (the source comment as theorem c10_send_never_after_close); conservation runs+returned+queued+in-hand = [sent] per task, hence exactly once for accepted tasks (c10_exactly_once, _quiescent, c10_at_most_once); a Submit that returned an error never sent, so the task is never run or returned (c10_err_never_runs); ShutdownNow leaves the queue empty (c10_shutdownNow_drains); panic then recover equals a normal return (c10_panic_contained).',
    note=COMMON_NOTE + " Modelled, not verified (definitions in Ekit/Model/Pool.lean): sequentially consistent atomics, sync.RWMutex, buffered/unbuffered/closed channels, select (any ready arm), one-shot timers (fire any time after arming), context cancellation, `go` statements; float64 queueBacklogRate comparison as an exact rational (exact for cap*1000 < 2^40; NaN rates are outside the model). The model is tied to pool/task_pool.go by (1) the regenerated sync skeletons of all 26 functions (equalities proved on every run), (2) the model's own step function used as an acceptor over all schedules for white-box sequential scenarios of the real pool (hook: state/totalGo/timeout-group/queue snapshot), (3) concurrent stress scenarios checked against the abstract laws. Ghost state (holder, pending, task table, counters) is never read by a guard.",
    technique='Lean 4 invariant proofs (localised invariants, frame rules, counting) over an executable transition system + model-as-acceptor trace correspondence + concurrent stress with per-task accounting',
)
