import os
import subprocess

from checklib import core, steps
from checklib.registry import generic, COMMON_NOTE

FACTS = os.path.join(core.LEAN, "Ekit", "Generated", "HashMapFacts.lean")


def pregen(work):
    """Regenerate lean/Ekit/Generated/HashMapFacts.lean from the scratch copy of mapx/hashmap.go
    (which node fields formatting() resets, what newNode assigns, whether Delete formats before
    pooling).  Returns None, or the reason the source has left the recognised shape."""
    binp, blog = work.build("hashmapfacts")
    if binp is None:
        return "the fact extractor does not build: " + (blog or "")[-800:]
    p = subprocess.run([binp, "-src", os.path.join(work.repo, "mapx", "hashmap.go")], env=core.GOENV,
                       stdout=subprocess.PIPE, stderr=subprocess.PIPE, text=True, timeout=120)
    if p.returncode != 0 or "namespace Ekit.Gen.HashMapFacts" not in p.stdout:
        return "fact extraction failed: " + (p.stderr or p.stdout)[-800:]
    with core.LakeLock():
        core.write_if_changed(FACTS, p.stdout)
    # Ekit/Generated/HashMapGo.lean: the whole file as MiniGo terms (harness/minigohm), see steps.pregen_hm
    return steps.pregen_hm(work)


CORRS = [dict(harness="hashmap", area="hashmap"), dict(harness="hashmap", area="hmptr", name="hashmap-hmptr")]

try:
    # the registry calls pregen(work) before the Lean build (and from ./check --setup)
    CHECK = generic("C03", CORRS, pregen=pregen)
except TypeError:
    # older registry without the pregen hook: do it here
    _generic = generic("C03", CORRS)

    def CHECK(work, res, tier):
        why = pregen(work)
        res.obligation("regenerate Ekit/Generated/HashMapFacts.lean from mapx/hashmap.go", why is None, log=why or "")
        if why is not None:
            res.violation("mapx/hashmap.go no longer has the shape the node-pool model is generated from "
                          "(formatting / newNode / Delete): " + why,
                          {"broken": "regenerate HashMapFacts", "error": why}, concrete=False)
        _generic(work, res, tier)


MANIFEST = dict(
    text=("Props/C03HM.lean, C03HMPut.lean: mapx/hashmap.go is translated on every run (harness/minigohm) into a deep embedding (interpreter "
          "Ekit/MiniGo/LangHM.lean: node heap, the Go map as code -> optional head pointer, the node pool with the sync.Pool.Get choice as an oracle); "
          "the interpreter running the translation is proved to simulate the hash-map model below step by step - constructor, Get, Put (chain walk, "
          "newNode from pool or factory, link), Delete (the three unlink cases, formatting(), pool Put) return the model's answers, keep the simulation "
          "relation and never panic, get stuck or run out of fuel (c03_hm_new_strong, c03_hm_get_refines_spec, c03_hm_put_refines, c03_hm_delete_refines); "
          "the translated program is run against the real HashMap on every trace (area hmptr). Keys/Values/Len are not translated (range over a Go map). "
          "Theorems in Lean 4 (Ekit/Props/C03.lean), for EVERY user-supplied Code/Equals pair subject only to the Hashable "
          "contract (Equals an equivalence, Equals keys have equal Codes; a constant Code is an instance), every history and every "
          "run-time choice (which pooled node sync.Pool hands out, in which order the Go map is iterated): the HashMap model "
          "(bucket table code -> collision chain, Put/Get/Delete as the chain walks of the source with the three unlink cases, "
          "Len as the two nested loops, node pool with formatting()) refines an abstract map keyed by Equals - every call returns "
          "the abstract map's answer, Keys/Values are permutations of its keys/values with no two keys Equals, Len is its size, "
          "the final state abstracts to its state (c03_step_refines, c03_run_refines_assoc, c03_len_eq_card, c03_keys_nodup_perm); "
          "Delete/Put of one key never changes Get of a key that is not Equals to it, whatever the codes (c03_delete_other_untouched); "
          "every pooled node is clean and a recycled node contributes exactly the new entry (c03_pool_nodes_clean); no call panics. "
          "The hash-backed LinkedMap equals the abstract map including order - first-insertion order, overwrite keeps position "
          "(c03_linked_step_refines, c03_linked_run_refines, c03_linked_keys_order); MultiMap (over HashMap and over builtinMap) has "
          "append-per-key semantics (c03_multi_step_refines, c03_multi_append, c03_multib_step_refines); builtinMap and MapSet refine "
          "the abstract map/set keyed by == (c03_builtin_*, c03_mapset_*). What formatting()/newNode/Delete do to a pooled node is "
          "regenerated from mapx/hashmap.go on every run (Ekit/Generated/HashMapFacts.lean). On every run the compiled model is an "
          "acceptor for traces of the real containers driven with key types from perfect to constant hash and an Equals coarser than "
          "identity: results, Len, Keys under the observed bucket order, Values, the chain dump per hash code, the fields of every "
          "node handed to the pool, the linked list walked both ways; aliasing of MultiMap slices is probed. "
          "Review additions (Ekit/Props/C03Rev.lean): the abstract map is validated against a container-free reading of the history - "
          "Get k after ANY history from the constructor returns the value of the last Put of a key Equals to k not followed by a Delete "
          "of such a key, whatever was done to other keys of the same hash code (c03_spec_get_last_write, c03_get_after_history, "
          "c03_linked_get_after_history, c03_multi_get_after_history, c03_builtin_get_after_history, c03_mapset_exist_after_history); in "
          "every reachable state Len = len(Keys) = len(Values) for any iteration orders and every live key is listed exactly once, every "
          "dead key never (c03_len_keys_values_reachable, c03_len_eq_len_keys, c03_keys_exactly_once, c03_keys_values_zip, "
          "c03_linked_reachable); reads and failed Deletes change nothing, pool included (c03_reads_change_nothing, "
          "c03_delete_missing_changes_nothing, c03_linked_failed_changes_nothing); no call of any history panics (c03_run_no_panic); two "
          "runs of the same calls that differ in every pool choice and iteration order are indistinguishable "
          "(c03_pool_choice_unobservable); every call sequence has a legal oracle history (c03_validrun_exists). The acceptor now also "
          "checks the iteration-order oracle against its constraint (the order read off an observed Keys() must visit every bucket "
          "exactly once), so a Keys() that skips whole buckets is rejected. Acceptor audit additions: the value returned next to "
          "ok == false by Get/Delete (HashMap, LinkedMap, builtinMap, MultiMap.Delete) must be the zero value - the model's answer for "
          "an absent key is (zero, false) - and is printed as `miss-nonzero:<v>` otherwise; the fact extractor refuses a source in which "
          "the node pool is touched anywhere but newNode (Get) and Delete (Put after formatting), or newNode is called from anywhere but "
          "Put, because c03_pool_nodes_clean and the `freed=` observation know no other way into the pool; `=> na` (case not run) is "
          "accepted only for the unexported builtinMap wrapper in a black-box run; stats.json records where in its collision chain the "
          "key of every put/delete/get sat (only/head/middle/tail/not-in-chain/no-bucket) and where recycled nodes were linked in."),
    note=COMMON_NOTE + " Go map iteration order and sync.Pool.Get are oracles (any permutation of the buckets / any pooled or new node); "
         "the doubly linked ring of LinkedMap is modelled as the list of its entries with allocation ids for pointers; which of several "
         "Equals keys a map stores is fixed by the model (the first) but not demanded by the spec oracle; slice aliasing is probed "
         "dynamically, not modelled; GC is switched off in the harness so that the pool really recycles nodes.",
    technique="Lean 4 refinement proof (invariant + simulation of an abstract Equals-keyed map, induction over histories, regenerated "
              "pool facts) + trace-acceptance correspondence with white-box chain dumps against the real maps",
)
