from checklib import steps
from checklib.registry import generic, COMMON_NOTE

# the five anchored files: every function's synchronisation skeleton is regenerated on each run into
# lean/Ekit/Generated/SkelC06.lean and must equal the skeleton the models were written against
SKEL = ["queue/concurrent_linked_queue.go", "queue/concurrent_priority_queue.go", "list/concurrent_list.go",
        "list/copy_on_write_array_list.go", "syncx/map.go"]



def thorough_race(work, res):
    """thorough tier: the same harness built with the race detector (a report makes it exit non-zero,
    which the pipeline reports as a crash together with the scenario); smaller volume, -race is slow."""
    t = steps.TraceCorr(work, res, "C06", harness="linz", area="linz", tier="quick", name="linz-race", race=True,
                        env={"VERIF_LINZ_REPS": "12", "VERIF_LINZ_EXTRA": "10", "VERIF_LINZ_CASES": "200", "VERIF_LINZ_BURSTS": "20",
                             "GORACE": "halt_on_error=1"})
    t.run(proofs_ok=True)


# the ConcurrentPriorityQueue theorem takes "the inner heap refines the priority-queue spec" as a hypothesis; C05 proves it
# for the heap MODEL, so that model is re-validated against the real internal/queue.PriorityQueue here as well
# evtrace: every atomic load / CAS of real concurrent executions of the lock-free queue (event-logging twin of the scratch
# copy, harness/evinst, with pointer identities) replayed step by step on the transition system the theorems are about
EVTRACE = dict(harness="evtrace", area="evtrace", name="evtrace-clq", evinst=True, gen_args=["-targets", "clq"])
# the same for the lock-wrapped containers (every Lock/RLock/Unlock/RUnlock with a snapshot of the protected data) on the generic
# RWMutex model: ConcurrentList over ArrayList/LinkedList, CopyOnWriteArrayList, ConcurrentPriorityQueue over the C05 heap model
EVTRACE_LW = dict(harness="evtrace", area="evtrace", name="evtrace-lockwrapped", evinst=True, gen_args=["-targets", "clist,cow,cpq"])

CHECK = generic("C06", [dict(harness="linz", area="linz"), dict(harness="heap", area="heap", name="heap-under-cpq"), EVTRACE, EVTRACE_LW],
                skel=SKEL, thorough_extra=thorough_race)

MANIFEST = dict(
    text=("Theorems in Lean 4 (Ekit/Props/C06.lean), each for every number of threads, every mix of calls and every "
          "interleaving of the atomic steps: (1) the lock-free ConcurrentLinkedQueue model (one step per atomic load/CAS, "
          "monotone node-history abstraction) is linearizable w.r.t. the FIFO queue by forward simulation to the canonical "
          "atomic automaton — Enqueue takes effect at the tail swing (whose CAS is proved never to fail), Dequeue at its "
          "successful head CAS, an 'empty' answer at the tail load (head = tail proved at that instant); invariants "
          "head<=tail, tail<=|nodes|<=tail+1, a linked-but-unswung node iff exactly one thread between its two CASes, "
          "no nil dereference; (2) a generic theorem for containers whose methods run inside Lock/RLock critical sections "
          "of one RWMutex (explicit writer flag and reader count, bodies split into read and write steps, torn reads "
          "modelled) — instantiated for ConcurrentList over the C04 list models, the fixed CopyOnWriteArrayList "
          "(snapshot readers) and ConcurrentPriorityQueue over any heap refining the priority-queue specification; "
          "(3) syncx.Map.LoadOrStoreFunc = Load; fn; LoadOrStore is linearizable w.r.t. the atomic map specification. "
          "Recorded observation (Props/C06Rev.lean): the linked queue is not lock-free - while one enqueuer sits between its two CASes no other Enqueue can link or complete (they spin); "
          "conservation nodes = dequeued ++ queue ++ (at most one unswung) as a state invariant. "
          "Tie: the synchronisation skeletons of all 37 functions of the five files are regenerated from the source on "
          "every run and proved equal to the modelled ones; a Go harness records invocation/response histories of the "
          "real containers under 2-8 goroutines and the Lean driver decides by exhaustive search whether each history is "
          "linearizable w.r.t. the very specification functions the theorems use (plus quiescent white-box shape facts); "
          "long permit bursts on the linked queue (producers publish a permit after Enqueue returned, consumers take one "
          "before Dequeue) hand every suspicious answer to the same search as a small projection of the burst's history; "
          "stack bursts on the copy-on-write list (one writer popping/pushing at the tail, readers in Range with a yielding "
          "callback) hand every traversal that is not strictly increasing to the search as the writer's overlapping calls "
          "plus that traversal, from the list state before them. "
          " Event traces (driver area evtrace): an instrumented twin of the scratch copy logs every atomic load / CAS of the lock-free queue with pointer "
          "identities, and every Lock/RLock/Unlock/RUnlock of ConcurrentList, CopyOnWriteArrayList and ConcurrentPriorityQueue with a snapshot of "
          "the protected data, in an order that is a legal order of the real execution; the CLQ transition system and the generic RWMutex "
          "model replay the log step by step (each load returns the node the model says, each CAS succeeds or fails as the model decides, "
          "each lock step is enabled, snapshots and results equal the model's)."),
    note=COMMON_NOTE + (" Concurrency residue: sequential consistency of sync/atomic, unsafe.Pointer identity = node identity "
                        "(GC: no reuse while referenced), sync.RWMutex/sync.Mutex semantics and the atomicity of sync.Map's own "
                        "operations are definitions of the models (trusted). The heap inside ConcurrentPriorityQueue is a "
                        "parameter (its sequential refinement is C05). sync.Map.Range is not atomic: only 'every reported pair "
                        "was present at some instant of the call' is checked dynamically. The dynamic search samples schedules "
                        "(real parallelism, random jitter); a window of a few instructions may be missed dynamically and is then "
                        "reported through the broken skeleton obligation only."),
    technique="forward simulation to the canonical atomic automaton + invariants (Lean 4); regenerated sync skeletons; exhaustive linearizability search (Wing-Gong) on recorded histories of the real code",
)
