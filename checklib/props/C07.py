from checklib import steps
from checklib.registry import generic, COMMON_NOTE

SKEL = ["queue/concurrent_array_blocking_queue.go", "queue/concurrent_linked_blocking_queue.go", "queue/delay_queue.go:cond"]


def _race(work, res):
    """thorough tier: the same stress once more with the harness built with -race (a race report makes
    the harness exit non-zero, which the pipeline reports as a crash with the case)"""
    steps.TraceCorr(work, res, "C07", harness="bqueue", area="bqueue", tier="quick", name="bqueue-race", race=True).run(proofs_ok=True)


# evtrace: every single synchronisation action of real concurrent executions (event-logging twin of the scratch copy,
# harness/evinst) replayed step by step on the transition-system models the theorems are about
EVTRACE = dict(harness="evtrace", area="evtrace", name="evtrace-bq", evinst=True, gen_args=["-targets", "abq,lbq"])

CHECK = generic("C07", [dict(harness="bqueue", area="bqueue"), EVTRACE], skel=SKEL, thorough_extra=_race)

MANIFEST = dict(
    text=("Theorems in Lean 4 (Ekit/Props/C07.lean) about transition-system models of ConcurrentArrayBlockingQueue (two semaphores, "
          "RWMutex, ring buffer; Ekit/Model/ArrayBQ.lean) and ConcurrentLinkedBlockingQueue + cond (mutex, C04 linked list, channel "
          "generations; Ekit/Model/LinkedBQ.lean), one label per atomic action, unbounded threads, a context that may end between any "
          "two actions: for every capacity >= 1 (every maxSize, <= 0 = unbounded) and every reachable state 0 <= count <= cap, permit "
          "conservation enqFree + deqFree + permits in flight = cap and count = deqFree + dequeue permits in flight, ring "
          "well-formedness, mutual exclusion, no Go panic (index, semaphore over-release, unlock of unlocked mutex, close of closed "
          "channel), no non-context error; every history is linearizable w.r.t. the bounded FIFO queue in which a context error has no "
          "effect (forward simulation to the canonical automaton); enqd = deqd ++ contents (FIFO, exactly-once); a call returning a "
          "context error has returned every permit and written nothing; at quiescence enqFree = cap - count and deqFree = count. "
          "A call answers a context error only if its context ended (Props/C07Rev.lean: the specification alone would also admit spurious context errors). "
          "Tied to /repo by sync-skeleton equalities regenerated on every run and by stress histories of the real queues (2-8 "
          "goroutines, random deadlines/cancellations, capacities 1,2,3,8,unbounded) accepted by an exhaustive linearizability search "
          "against the same specification, Len()/AsSlice() samplers, exactly-once and per-producer-order accounting, a high-volume "
          "exactly-once monitor (up to 8 producers x 8 consumers, capacity 1-3, several hundred thousand operations per run: every accepted "
          "value delivered once or still queued, no invented/zero value, per-producer FIFO at each consumer), a fill/drain "
          "capacity check after every scenario, and (model mode) a label-by-label replay of sequential scenarios on the model with "
          "white-box cursors, raw ring and free permits compared; and by synchronisation-event traces: an instrumented twin of the "
          "scratch copy (harness/evinst) logs every Lock/Unlock/RLock/RUnlock, semaphore Acquire/Release, ctx.Err observation, select "
          "arm and channel close of concurrent scenarios in an order that is a legal order of the real execution, with white-box "
          "snapshots taken inside the critical sections, and the models' step functions must accept the log action by action "
          "(each logged action is the model's next synchronisation action of that thread and is ENABLED in the model's state; "
          "snapshots and call results equal the model's) - driver area evtrace."),
    note=COMMON_NOTE + " Assumed (definitions in the model files): semaphore.Weighted as a permit counter whose Acquire may succeed or "
         "return ctx.Err() once ctx ended (no FIFO hand-off), sync.RWMutex (no writer preference), channels that are only ever closed, "
         "select takes any enabled arm, context as a monotone flag. Critical-section statements are grouped into two steps per section; "
         "values are Int; Len() unlocked reads and memory-model effects are C15's subject, not modelled here.",
    technique="Lean 4 invariants (induction over reachable states) + forward simulation to the canonical automaton of a bounded FIFO "
              "specification; sync-skeleton equalities; stress histories of the real code decided by an exhaustive linearizability search",
)
