from checklib.registry import generic, COMMON_NOTE
from checklib import steps

def _pregen(work):
    errs = [e for e in (steps.pregen_slice(work), steps.pregen_linkedlistgo(work), steps.pregen_slicego(work),
                        steps.pregen_al(work)) if e]
    return "; ".join(errs) if errs else None


CHECK = generic("C04", [dict(harness="lists", area="lists"),
                        dict(harness="lists", area="llptr", name="lists-llptr"),
                        dict(harness="lists", area="slptr", name="lists-slptr"),
                        dict(harness="lists", area="alptr", name="lists-alptr")], pregen=_pregen)

MANIFEST = dict(
    text=("Theorems in Lean 4 (Ekit/Props/C04.lean): every call on the ArrayList / LinkedList / CopyOnWriteArrayList models "
          "returns what the abstract sequence returns and leaves equal contents, for every capacity, index, history and every "
          "runtime growth choice; failing calls leave contents and capacity unchanged; no call panics; len <= cap is invariant. "
          "The shifting loops of slice.Add/Delete are modelled literally and proved equal to insertIdx/eraseIdx; calCapacity is "
          "regenerated from the source. Props/C04Rev.lean: no-panic / error-leaves-whole-state-unchanged / error iff index out of the "
          "permitted range for all three implementations, every-history refinement for all three, len <= cap over histories under "
          "the per-allocation oracle constraint only, findNode walks and the COW delete copy as loops. Props/C04Ring.lean: the "
          "LinkedList at pointer level (heap of nodes with nil-able prev/next, sentinel ring, splice/unlink, length counter) never "
          "dereferences nil, keeps the ring invariant and computes exactly the value-level LinkedList.step after every history "
          "from NewLinkedList (c04_ring_step_refines, c04_ring_run_refines). Props/C04LL.lean: the same for the REGENERATED linked list - "
          "harness/minigoll translates list/linked_list.go on every run into a deep embedding (Ekit/Generated/LinkedListGo.lean) whose interpreter "
          "(Ekit/MiniGo/LangLL.lean) is proved to simulate the Ring model call by call (step_sim, new_sim), so that from NewLinkedList(), after every "
          "history of Get/Append/Add/Set/Delete/Len and with enough fuel, the translated program never dereferences nil, returns what the abstract "
          "sequence returns and holds its contents (c04_ll_run_refines); the translated program is run against the real LinkedList on every trace "
          "(area llptr). Props/C04AL.lean: the same for the REGENERATED ArrayList - harness/minigoal translates list/array_list.go on every run "
          "(Ekit/Generated/ArrayListGo.lean, interpreter Ekit/MiniGo/LangAL.lean; slice.Add/Delete/Shrink = the translated internal/slice) and every "
          "translated call is proved to simulate ArrayList.step (step_sim, run_sim; c04_al_step_refines, c04_al_run_refines); the translated program "
          "is run against the real ArrayList on every trace (area alptr). The model is an acceptor for traces of the real lists (incl. ConcurrentList wrapper) on every run."),
    note=COMMON_NOTE + " Slice growth capacity is an oracle constrained only by cap>=len; AsSlice freshness is probed dynamically (aliasing is not in the value-level model).",
    technique="Lean 4 refinement proof (model refines abstract sequence, induction over histories; for the linked list also a simulation proof about "
              "the Go source translated to a deep embedding on every run) + trace-acceptance correspondence against the real lists",
)
