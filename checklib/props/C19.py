"""C19 — retry budget, backoff bounds, wait between attempts."""
import os
import subprocess

from checklib import core, steps
from checklib.registry import generic, COMMON_NOTE

# canonical texts the known-findings signatures match on (see known_findings.json: C19-W, C19-R)
W_SIG = "C19-W: history contains >= 2^31 Next calls on one strategy"
R_SIG = "C19-R: concurrent Next callers, initial^2 > 2^63, wrapped positive interval below initial"

W_OPS = ["new fixed 1 1", "burn 2147483647", "next"]
R_OPS = ["new exp 4611686018427387905 9223372036854775807 0"]   # + "race3 <trials>"


def _theorem_ok(res, name):
    return any(o["ok"] and o["name"].endswith("." + name) for o in res.obligations if o["name"].startswith("theorem "))


def _wrap64(x):
    """two's-complement int64 of a mathematical integer (Go's wrap-around multiplication)"""
    x &= (1 << 64) - 1
    return x - (1 << 64) if x >= 1 << 63 else x


def _run_spec(work, name, ops, timeout, model=False):
    """ops on the real code, the Lean driver in spec mode as oracle -> (trace, verdict) or None.
    With model=True a third component is returned: the verdict of the driver in model mode (None when the
    white-box hook is not available)."""
    binp, _ = work.build("retry")
    drv = steps.driver_path()
    if binp is None or drv is None:
        return None
    d = os.path.join(work.dir, "known-" + name)
    os.makedirs(d, exist_ok=True)
    op, tr, vd = (os.path.join(d, x) for x in ("ops.txt", "trace.txt", "verdict.txt"))
    with open(op, "w") as f:
        f.write("\n".join(ops) + "\n")
    try:
        p = subprocess.run([binp, "-mode", "run", "-ops", op, "-out", tr], env=core.GOENV, stdout=subprocess.PIPE,
                           stderr=subprocess.STDOUT, text=True, timeout=timeout)
    except subprocess.TimeoutExpired:
        return None
    if p.returncode != 0:
        return None
    with open(tr) as fin, open(vd, "w") as fout:
        subprocess.run([drv, "spec", "retry"], stdin=fin, stdout=fout, stderr=subprocess.PIPE, text=True, timeout=timeout)
    trace, verdict = [l.rstrip("\n") for l in open(tr)], [l.rstrip("\n") for l in open(vd)]
    if not model:
        return trace, verdict
    mverdict = None
    if not getattr(work, "blackbox", False):
        md = os.path.join(d, "verdict-model.txt")
        with open(tr) as fin, open(md, "w") as fout:
            subprocess.run([drv, "model", "retry"], stdin=fin, stdout=fout, stderr=subprocess.PIPE, text=True, timeout=timeout)
        mverdict = [l.rstrip("\n") for l in open(md)]
    return trace, verdict, mverdict


def _by_theorem(res, sig, fid, theorem, history):
    res.violation("known corner of the stated quantifier, confirmed by its negative-witness theorem (part of this run's Lean build)",
                  {"harness": "retry", "area": "retry", "mode": "negative-witness", "finding": fid, "theorem": theorem,
                   "history": history, "finding_signature": sig + " [negative-witness theorem %s]" % theorem}, concrete=True)


def known_findings(work, res, tier, proofs_ok):
    """The two corners the code does not satisfy (DESIGN §6 #14, #15).  Each is (re)confirmed on every run: by its
    negative-witness theorem, and on the real code where that is affordable (C19-R always; C19-W, which needs 2^31
    calls, in the thorough tier).  A reproduction is turned into a violation record whose `finding_signature` is set
    only after the record has been checked to be exactly that history."""
    # ---- C19-R: stale flag, three concurrent callers
    r_ops = R_OPS + ["race3 %d" % (200000 if tier == "quick" else 5000000)]
    got = _run_spec(work, "stale-flag", r_ops, 600, model=True)
    reproduced = False
    if got:
        trace, verdict, mverdict = got
        bad = [i for i, v in enumerate(verdict) if not v.startswith("ok")]
        if bad:
            i = bad[0]
            rec = {"harness": "retry", "area": "retry", "mode": "spec", "ops": r_ops, "trace": trace,
                   "verdict": verdict, "first_message": verdict[i], "seed": res.seed}
            initial = 4611686018427387905
            f = dict(kv.split("=", 1) for kv in trace[i].split(" => ")[1].split() if "=" in kv)
            try:
                iv = int(f.get("bad", "x"))
            except ValueError:
                iv = None
            # exactly the recorded history: the ONLY out-of-bounds value three callers of a fresh strategy can obtain
            # through the stale flag is the wrapped product of call 3 (call 1 returns initial, the product of call 2
            # is negative = a cap hit); any other value (zero, negative, above max, another positive value below
            # initial) or a trial with a denied call (unlimited budget) is a different defect.  Where the white-box model is available it must
            # accept the very same trace (the model predicts the value); the constructor line must be clean too.
            want = _wrap64(initial * 4)
            model_ok = mverdict is None or (len(mverdict) == len(trace) and all(v.startswith("ok") for v in mverdict))
            if (i == 1 and len(trace) == 2 and trace[i].startswith("race3 ") and iv is not None and iv == want
                    and 0 < want < initial and initial * initial > 2 ** 63 and f.get("gmin") == "3" and f.get("gmax") == "3" and model_ok):
                rec["finding_signature"] = "%s (initial=%d, interval=%d, trial %s)" % (R_SIG, initial, iv, f.get("trials"))
                reproduced = True
            res.violation("three concurrent Next callers obtained an interval below the initial interval: " + verdict[i], rec)
    if not reproduced and proofs_ok and _theorem_ok(res, "c19_stale_flag_witness"):
        res.notes.append("C19-R not reproduced on the real code in this run's trials; listed by its negative-witness theorem")
        _by_theorem(res, R_SIG, "C19-R", "c19_stale_flag_witness",
                    "initial=2^62+1ns max=MaxInt64: add0 load0 add1 load1(pending store) add2 load2 -> 4ns")
    # ---- C19-W: the int32 counter wraps
    if tier == "thorough":
        got = _run_spec(work, "counter-wrap", W_OPS, 1200)
        if got:
            trace, verdict = got
            bad = [i for i, v in enumerate(verdict) if not v.startswith("ok")]
            if bad:
                i = bad[0]
                rec = {"harness": "retry", "area": "retry", "mode": "spec", "ops": W_OPS, "trace": trace, "verdict": verdict,
                       "first_message": verdict[i], "seed": res.seed}
                calls_before = sum(int(o.split()[1]) if o.startswith("burn ") else 1 for o in W_OPS[1:i])
                # exactly the recorded history: the burn line was accepted (exactly one of the first 2^31-1 calls
                # granted) and call 2^31 is granted again with the strategy's own interval
                if i == 2 and len(trace) == 3 and trace[i].startswith("next => ok:1 ") and calls_before + 1 == 2 ** 31:
                    rec["finding_signature"] = "%s (calls=%d, maxRetries=1): call %d granted" % (W_SIG, calls_before + 1, calls_before + 1)
                res.violation("a Next call beyond the budget was granted: " + verdict[i], rec)
            elif proofs_ok and _theorem_ok(res, "c19_counter_wrap_witness"):
                res.violation("known finding C19-W no longer reproduces on the real code although its negative-witness theorem "
                              "still holds: the model no longer describes the counter of the real strategies",
                              {"broken": "C19-W reproduction", "ops": W_OPS, "trace": trace, "verdict": verdict}, concrete=False)
    elif proofs_ok and _theorem_ok(res, "c19_counter_wrap_witness"):
        _by_theorem(res, W_SIG, "C19-W", "c19_counter_wrap_witness",
                    "maxRetries=1: sequential calls 1 and 2147483648 are both granted (real-code reproduction: thorough tier, ~25 s)")


CHECK = generic("C19", [
    dict(harness="retry", area="retry", name="retry-next", gen_args=["-part", "next"]),
    dict(harness="retry", area="retry", name="retry-loop-asynctimerchan1", gen_args=["-part", "loop"],
         env={"GODEBUG": "asynctimerchan=1"}),
    dict(harness="retry", area="retry", name="retry-loop-asynctimerchan0", gen_args=["-part", "loop"],
         env={"GODEBUG": "asynctimerchan=0"}),
], extra=known_findings)

MANIFEST = dict(
    text=("Theorems in Lean 4 (Ekit/Props/C19.lean) about an executable model of retry/ (int32 counter and int64 durations with "
          "explicit wrap-around, the float power with the out-of-range conversion as an architecture parameter, Next split into "
          "its atomic AddInt32 / flag Load / flag Store for any number of goroutines, Retry on a virtual clock with every runtime "
          "choice an oracle): for ANY interleaving of N < 2^31 calls the number granted is exactly (maxRetries<=0 ? N : min N "
          "maxRetries) and every call returns once (invariant over the transition system); sequentially the i-th result is exactly "
          "(min(initial*2^(i-1), max), true) in mathematical integers, hence within [initial,max], non-decreasing, never a wrapped "
          "value (the first overflowing product is negative and sets the sticky flag), and with an unlimited budget this holds for "
          "every call number, beyond the counter's range too; with maxRetries<=0 every call of any interleaving is granted; for any interleaving every returned interval "
          "is within bounds when initial^2 <= 2^63 or the strategy is fixed; constructors reject initial<=0 and initial>max; Retry "
          "returns nil at the first success, ErrRetryExhausted wrapping the last error exactly when the strategy says stop, ctx.Err() "
          "only when the context ended, consults Next once per failure in order, and consecutive invocations are separated by at "
          "least the returned interval for every operation duration, lag and timer lateness. Negative witnesses are proved for the "
          "old shared-ticker code (fixed in 9886278) and for the two known corners C19-W (counter wrap at 2^31 calls) and C19-R "
          "(stale flag: three concurrent callers get 4ns < initial=2^62+1ns). The model is the acceptor for traces of the real "
          "strategies (white-box counter and flag), of concurrent batches, and of retry.Retry with measured gaps under both "
          "GODEBUG=asynctimerchan settings on every run."),
    note=COMMON_NOTE + (" Partial: the budget and the sequential interval theorems assume fewer than 2^31 calls on one strategy "
                        "(known finding C19-W: beyond that the int32 counter wraps and calls are granted again); the concurrent "
                        "bounds theorem assumes initial^2 <= 2^63 (known finding C19-R otherwise). Timer, select, context and "
                        "scheduling behaviour are oracle parameters of the virtual-clock model (a timer never fires early; select "
                        "takes an enabled arm); measured wall-clock times are used as lower bounds only. math.Pow(2,k) is taken "
                        "to be exact for 0<=k<=62 and its out-of-range conversion to be MinInt64 or MaxInt64 (probed at run time)."),
    technique=("Lean 4 invariant proofs over a labelled transition system (atomic steps of Next, unbounded goroutines), induction over "
               "sequential histories with machine-integer wrap-around, virtual-clock model of Retry + trace-acceptance correspondence "
               "against the real package (white-box counter/flag, measured gaps)"),
)
