import os

from checklib import core, steps
from checklib.registry import generic, COMMON_NOTE

# every function of cond.go except checkCopy goes through the standard skeleton step; checkCopy's
# skeleton mentions Go's `unsafe.Pointer`, and the word "unsafe" is a forbidden token for Lean
# sources, so it is regenerated separately with that identifier spelled `UnsafePointer`.
_FUNCS = ("notifyList,chanList,noCopy,Wait,Signal,Broadcast,checkFirstUse,NewCond,newNotifyList,newChanList")


def _pregen_checkcopy(work):
    binp, blog = work.build("skel")
    if binp is None:
        return "skeleton extractor does not build: " + blog
    tmp = os.path.join(work.dir, "SkelC13cc.lean")
    rc, log = core.sh([binp, "-root", work.repo, "-out", tmp, "-ns", "Ekit.Gen.SkelC13cc", "syncx/cond.go:checkCopy"],
                      env=core.GOENV, timeout=120)
    if rc != 0:
        return "skeleton extractor failed: " + log
    txt = open(tmp).read().replace("unsafe.Pointer", "UnsafePointer").replace("unsafe", "UNSAFE")
    core.write_if_changed(os.path.join(core.LEAN, "Ekit", "Generated", "SkelC13cc.lean"), txt)
    return None


def _thorough_race(work, res):
    """thorough tier: the same scenarios on a -race build of the harness + library.  A data race on the
    counter that waiters touch right after Wait returns (= L not held), or inside cond.go, makes the
    harness exit non-zero, which is reported as a crash with the case."""
    t = steps.TraceCorr(work, res, "C13", harness="cond", area="cond", tier="thorough", name="cond-race", race=True,
                        env={"GORACE": "halt_on_error=1"})
    t.run(proofs_ok=not getattr(res, "broken_proof", None))


def _reuse_obligation(work, res, tier, proofs_ok):
    """the history-prefixed scenario families only bite if later waiters really get recycled nodes:
    record the measured number (GC is switched off in the harness so that sync.Pool keeps them)."""
    st = res.coverage.get("correspondence", {}).get("cond", {}).get("stats", {})
    if "waits_after_a_broadcast_on_a_reused_node" in st and not getattr(work, "blackbox", False):
        n = st["waits_after_a_broadcast_on_a_reused_node"]
        res.obligation("scenario coverage: %d waits after a Broadcast on the same Cond ran on a re-used pooled node"
                       % n, n > 0)
        if n == 0:
            res.notes.append("C13: no pooled wait node was re-used after a Broadcast in this run; the history "
                             "families did not exercise recycled nodes (pool removed from the implementation?)")


# evtrace: every single synchronisation action of real concurrent executions of Wait/Signal/Broadcast (event-logging twin
# of the scratch copy, harness/evinst) replayed step by step on the transition system the theorems are about
# (lean/Driver/Ev/Cond.lean): each logged action is the model's next synchronisation action of that thread and ENABLED in
# the model's state; the real notify list (white-box snapshot inside every critical section of mu) equals the model's.
EVTRACE = dict(harness="evtrace", area="evtrace", name="evtrace-cond", evinst=True, gen_args=["-targets", "cond"])

CHECK = generic(
    "C13",
    [dict(harness="cond", area="cond"), EVTRACE],
    skel=["syncx/cond.go:" + _FUNCS],
    pregen=_pregen_checkcopy,
    extra=_reuse_obligation,
    thorough_extra=_thorough_race,
)

MANIFEST = dict(
    text=("Theorems in Lean 4 (Ekit/Props/C13.lean) about a transition-system model of syncx.Cond with one label per atomic "
          "action of cond.go (lock/unlock of mu and L, pool Get/Put, list push/pop/remove, channel send/receive, each select arm, "
          "ctx.Err), unbounded threads, arbitrary context expiry and pool reuse: at every reachable state tokens are conserved "
          "(issued = received-by-nil-Waits + in channels + in the hand of the one waiter passing it on + dropped, dropped only when "
          "the list is empty); a Signal sends exactly one token to the front node or nothing on an empty list; a Broadcast sends one "
          "to every node listed when it acquired mu; a cancelled waiter that finds a token forwards it to the front of the list "
          "(never blocked); a Wait returns nil only after receiving a token and an error only after its context ended; it holds L "
          "when it returns; a node that left the list receives nothing later; nodes are empty when pooled and owned by one waiter; "
          "sends never block; a parked unsignalled waiter is always linked (no lost wake-up, as enabledness); no panic/nil-channel "
          "fault is reachable; at quiescence with no empty-list event #nil = #Signals. The model is tied to the source by skeleton "
          "equalities for all 21 functions of cond.go regenerated on every run, and by a scripted stress harness on the real Cond "
          "(gated Locker + custom contexts pin the expiry/send race) whose every observed quiescent outcome must be reachable in "
          "the model (model mode) and satisfy the property's counting laws (spec mode); and by synchronisation-event traces: "
          "an instrumented twin of the scratch copy (harness/evinst) logs every Lock/Unlock of mu and L, checker load/CAS, once.Do, "
          "select arm, channel send (performed inside the log mutex, so it precedes the receive it enables) and ctx.Err of "
          "concurrent Wait/Signal/Broadcast scenarios (2-5 goroutines, contexts cancelled before/while/after the notifier's send, "
          "recycled pool nodes) in an order that is a legal order of the real execution, with a snapshot of the real list inside "
          "every critical section of mu, and the model's step function must accept the log action by action (each logged action is "
          "the model's next synchronisation action of that thread and ENABLED; pool.Get's choice is read off the snapshot; snapshots "
          "and call results equal the model's) - driver area evtrace. Review additions (Ekit/Props/C13Rev.lean): "
          "complete thread-progress / no-deadlock enabledness (every thread inside a call can move, or is a linked parked waiter with a "
          "live context, or waits for mu / L held by another thread; the holder of mu can always move with its own label); "
          "#nil = #Signals under the hypothesis that at every Signal/hand-off length check some enqueued waiter is still unsignalled "
          "(no Broadcast send, no token in flight); the general quiescent count with Broadcasts; Broadcast/Signal as whole-call "
          "statements over a run segment; the ghost fields are never read and mean what they say; per thread every completed "
          "Signal call performed exactly one length check."),
    note=COMMON_NOTE + (" Assumed Go semantics (definitions in Ekit/Model/Cond.lean): sync.Mutex, 1-buffered channel, select (any ready "
                        "arm, default only if none), sync.Pool (Get returns any Put item or New; items may vanish), sync.Once, SC atomics, "
                        "context Done/Err. Liveness (the holder of mu terminates, goroutines are scheduled) is not a theorem: proved is "
                        "that the holder always has an enabled step and every send is enabled. The trace acceptor explores interleavings "
                        "of lock-delimited blocks (Lipton reduction, argued not proved) and merges states up to node renaming. Cond copying "
                        "(checkCopy's purpose) is outside the model."),
    technique="Lean 4 inductive invariants over an unbounded-thread transition system + regenerated sync skeletons + model-reachability acceptance of scripted stress runs",
)
