"""C17 — AnyValue accessors are total and exact.

Before the Lean build the accessor table `lean/Ekit/Generated/ValueTable.lean` is regenerated from
value.go of the scratch copy by harness/valuetab (go/parser + go/ast), so `c17_table_sound` & co. are
re-checked against what the code says *now*."""
import os

from checklib import core
from checklib.registry import generic, COMMON_NOTE

GEN = os.path.join(core.LEAN, "Ekit", "Generated", "ValueTable.lean")

_FALLBACK = """/- GENERATED fallback: harness/valuetab could not process value.go (%s) -/
import Ekit.Model.ValueBase
namespace Ekit.Gen
open Ekit.Value
def valueRows : List Row := []
def valueDefs : List DefRow := []
def valueAsString : AsStringInfo := { errGuard := false, tag := .unknown "", arms := [], dflt := .unknown "", unknown := ["extraction failed"] }
def valueJSONScan : JSONScanInfo := { via := "", propagatesErr := false, unknown := ["extraction failed"] }
def valueTable : Table :=
  { rows := valueRows, defs := valueDefs, asString := valueAsString, jsonScan := valueJSONScan,
    unclassified := ["extraction failed"] }
end Ekit.Gen
"""


def pregen(work):
    """Regenerate Ekit/Generated/ValueTable.lean from <scratch copy>/value.go.
    Returns None, or a text saying why the table could not be extracted (a table that fails the
    soundness theorems is written in that case, so the check cannot pass by accident)."""
    err = None
    content = None
    binp, blog = work.build("valuetab")
    if binp is None:
        err = "harness/valuetab does not build: " + (blog or "")[-1500:]
    else:
        out = os.path.join(work.dir, "ValueTable.lean")
        rc, log = core.sh([binp, "-src", os.path.join(work.repo, "value.go"), "-out", out], env=core.GOENV, timeout=300)
        if rc != 0 or not os.path.exists(out):
            err = "valuetab failed: " + log[-1500:]
        else:
            content = open(out).read()
    if content is None:
        content = _FALLBACK % " ".join((err or "").split())[:200].replace("-/", "- /")
    with core.LakeLock():
        core.write_if_changed(GEN, content)
    return err


_CORRS = [dict(harness="value", area="value")]

try:
    # registry with the regeneration hook: generic() calls pregen before the Lean build and exposes it
    # as CHECK.pregen for ./check --setup
    CHECK = generic("C17", _CORRS, pregen=pregen)
except TypeError:
    _run = generic("C17", _CORRS)

    def CHECK(work, res, tier):
        err = pregen(work)
        res.obligation("regenerate Ekit/Generated/ValueTable.lean from value.go (harness/valuetab)", err is None, log=err or "")
        _run(work, res, tier)

    CHECK.pregen = lambda work: [e for e in [pregen(work)] if e]


MANIFEST = dict(
    text=("Theorems in Lean 4 (Ekit/Props/C17.lean) about the interpreter of the accessor table that is REGENERATED from value.go "
          "on every run (harness/valuetab, go/ast): the table passes a decidable soundness check (Err guard first, comma-ok assertion on "
          "exactly the result type, `case string` calling strconv.ParseInt/ParseUint of the right signedness with base 10 and bit size = "
          "width of the conversion target, OrDefault forms consulting the strict accessor of their own type, AsString switching on "
          "valueOf.Kind() with FormatInt/FormatUint base 10, JSONScan propagating AsBytes' error); the statement-level models of "
          "strconv.ParseInt/ParseUint accept exactly the decimal numerals that fit the bit size and return their value (all strings, all "
          "bit sizes 2..64); conversions are the identity on values that fit; FormatInt yields the unique canonical numeral and parses back; "
          "hence every integer As accessor returns v iff the string denotes v and v fits, otherwise an error; a stored Err is returned "
          "unchanged by every accessor and JSONScan; OrDefault returns the default exactly when the strict accessor fails; no call panics "
          "for any held value (nil, typed nils, pointers, defined types...); and the whole interpreter refines the specification the "
          "driver uses as oracle. Every run executes the real AnyValue on ~1M calls (all accessors x all kinds of held values, all decimal "
          "strings in [-70000,70000] on the 8/16-bit targets, every width boundary with notational variants, fuzzed strings, stored Err, "
          "OrDefault, JSONScan) with the compiled Lean model as acceptor."),
    note=COMMON_NOTE + (" Not proved (oracle parameters of the model, compared bit-for-bit with direct strconv/encoding/json calls by the harness): "
                        "strconv.ParseFloat/FormatFloat, float32<->float64 conversion, json.Unmarshal; for those only dispatch/Err/default logic is "
                        "proved. FormatInt/FormatUint are modelled at contract level. int/uint are 64 bits. The extractor understands a fixed set of "
                        "statement shapes; a rewrite outside them (e.g. if-chains instead of the type switch) is reported as a broken obligation "
                        "even if behaviour is unchanged. Which error (syntax/range/type) is returned is checked in model mode only; the value "
                        "returned alongside an error is not observed."),
    technique="Lean 4 proofs over a table regenerated from the Go AST (decide on the table + induction on strings for the strconv loops) + trace-acceptance correspondence against the real AnyValue",
)
