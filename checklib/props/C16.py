from checklib.registry import generic, COMMON_NOTE
from checklib import steps

CHECK = generic("C16", [dict(harness="slices", area="slices")], pregen=steps.pregen_slicego)

MANIFEST = dict(
    text=("Props/C16SL.lean: internal/slice/{add,delete,shrink}.go are translated on every run (harness/minigosl) into a deep embedding whose "
          "interpreter has Go's aliasing slices (backing arrays, in-place append, runtime-chosen capacity on reallocation, bounds panics); the "
          "interpreter running the translation is proved to compute the value-level models sliceAdd / sliceDelete / sliceShrink that the theorems "
          "below are about, including where the result lives and what the argument's array holds afterwards (c16_sl_add_refines, "
          "c16_sl_delete_refines, c04_sl_shrink_refines); the translated functions are run against the real ArrayList on every lists trace (area "
          "slptr under C04). Theorems in Lean 4 (Ekit/Props/C16.lean, 52 theorems) about literal models of every anchored function "
          "(Ekit/Model/Slices.lean, SlicesKV.lean; internal/slice Add/Delete shared with C04): for every input, every map-iteration "
          "order and every enumeration of a result map, UnionSet/IntersectSet/DiffSet/SymmetricDiffSet return exactly the required "
          "set without duplicates and ContainsAny/All are the quantifier statements; with == the quadratic Func variants return one "
          "of the results of the comparable variants, and for any reflexive transitive equality one representative per required class "
          "(the last duplicate survives); Index/LastIndex/IndexAll/Find/FindAll/FilterMap/Map/Reverse/ReverseSelf/FilterDelete/"
          "Max/Min/Sum equal the obvious List definitions and their explicit indexing never panics (Max/Min panic exactly on the empty "
          "slice, the documented precondition); Add/Delete are insertIdx/eraseIdx inside the range and the index error (never a panic) "
          "outside, with the exact in-place effect on the argument (the specification-level clause: after a successful Add the argument is "
          "unchanged unless the result lives in the argument's own backing array, Spec.addArgOk); FindAll is never nil; slice.ToMapV and mapx.ToMap bind every key to "
          "its last value, report nil/length mismatch as errors and never panic; ToMap∘KeysValues and KeysValues∘ToMap, "
          "SplitPairs∘NewPairs, NewPairs∘SplitPairs, PackPairs∘FlattenPairs are identities; PackPairs never index-panics. "
          "The Boolean specification used as the violation oracle is proved equivalent to the model's acceptance for map-valued results. "
          "Every run executes the real functions on all pairs of slices over a 3-letter alphabet up to length 3 (4 in the thorough tier), "
          "every index in [-1,len+1], predicate/equality/callback families over ints and strings, nil/empty shapes and random slices, "
          "with a capacity-window mutation probe on every argument (also of failing Add/Delete calls and of PackPairs; the spare slots beyond "
          "len of the in-place functions; after a successful Add the argument as seen by the caller, its whole capacity window and whether the "
          "result shares its array, judged by the specification too), two Adds derived from one base slice for every pair of indices and "
          "every amount of spare capacity (second result, first result read again), a result/argument backing-array overlap probe on every non-in-place function that returns a "
          "slice, and the compiled Lean model accepts or rejects each observed call."),
    note=COMMON_NOTE + (" Go map iteration order is an oracle (results compared up to permutation); append growth capacity of slice.Add is an "
                        "oracle constrained by cap>=len; argument non-modification of the read-only functions holds by construction in the "
                        "functional model and is tied to the code by the dynamic probe; Max/Min/Sum are modelled over unbounded integers "
                        "(no float NaN ordering, no int wrap-around); nil-ness of results is modelled only where the Go doc speaks about it."),
    technique="Lean 4 proofs (induction over literal loop models, loop invariants for the in-place compaction/reversal) + trace-acceptance correspondence against the real helpers",
)
