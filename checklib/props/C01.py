from checklib.registry import generic, COMMON_NOTE
from checklib import steps

CHECK = generic("C01", [dict(harness="tree", area="tree", timeout=900),
                        dict(harness="tree", area="rbptr", name="tree-ptr", timeout=900)],
                pregen=steps.pregen_rbtreego)

MANIFEST = dict(
    text=("POINTER LEVEL (Ekit/Props/C01Ptr.lean): internal/tree/red_black_tree.go is translated to a deep embedding on every run "
          "(harness/minigo) and the MiniGo interpreter running that translation is proved to refine the abstract cmp-sorted association list: "
          "for every lawful comparator, every call of Add/Set/Find/Delete that returns gives the abstract map's result and leaves the entries "
          "read off the heap in in-order sequence equal to the abstract map's (c01_ptr_step_refines, c01_ptr_run_refines), and every history run "
          "with enough fuel completes and does so (c01_ptr_history_total_refines, Props/C01Total.lean); the translated "
          "program is run against the real tree on every trace (area rbptr). FUNCTIONAL MODEL: "
          "Theorems in Lean 4 (Ekit/Props/C01.lean) about a functional red-black tree that mirrors internal/tree "
          "(descent, insert fix-up, successor splice, delete fix-up with a 'one black short' flag), generic in key/value type and "
          "comparator: for every comparator that is a total preorder by sign (LawfulCmp; key equality is cmp=0 only) and every "
          "history, RBTree (Add/Set/Find/Delete/KeyValues/Size), TreeMap, TreeSet, the tree-backed LinkedMap and MultiMap return "
          "exactly what the abstract cmp-sorted association list (insertion-ordered list for LinkedMap) returns and hold exactly "
          "its contents; KeyValues is strictly ascending; failing calls return the identical state (RBTree, and in Props/C01Rev.lean "
          "TreeMap, MultiMap, LinkedMap: c01_*_failed_call_unchanged); every-history-from-the-constructor forms for all wrappers; "
          "the specification itself stays sorted, holds one entry per comparator class and obeys the map laws (c01_spec_*). Tied to /repo on every run: the "
          "compiled model is an acceptor for traces of the real containers (results, Keys/Values/Len, white-box colour/key/shape dump "
          "of the real tree after every call, comparator-call counts)."),
    note=COMMON_NOTE + " The imperative parent-pointer tree is modelled by its recursive reformulation (tied by per-call shape-dump "
         "equality, incl. a bounded-exhaustive enumeration of all reachable trees); []V aliasing of MultiMap is probed dynamically, not proved.",
    technique="Lean 4 refinement proof (functional red-black tree refines a sorted association list, induction over histories) + "
              "white-box trace-acceptance correspondence against the real tree and its wrappers",
)
