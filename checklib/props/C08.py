from checklib import steps
from checklib.registry import generic, COMMON_NOTE
from checklib.props.C09b_part import DRIVER_ENV   # where the harness finds the Lean acceptor for its own re-checks

SKEL = ["queue/delay_queue.go"]
# the same harness binary under both timer-channel disciplines of the Go runtime
CORRS = [
    dict(harness="delayq", area="delayq", name="delayq-sync", env=dict(DRIVER_ENV, GODEBUG="asynctimerchan=0")),
    dict(harness="delayq", area="delayq", name="delayq-async", env=dict(DRIVER_ENV, GODEBUG="asynctimerchan=1")),
    # the DelayQueue model abstracts its heap to "an element of minimal deadline": that assumption is what the C05 heap
    # theorems (c05_pq_dequeue_min, c05_pq_step_refines …) prove about the heap MODEL, so the heap model must be an
    # acceptor for the real internal/queue.PriorityQueue on this run too (growth beyond 64 slots, shrinking, ties)
    dict(harness="heap", area="heap", name="heap-under-delayq"),
    # evtrace: every single synchronisation action (mutex, the two cond generations with channel identities, select arms,
    # ctx observations, NewTimer/Reset/Stop, every Delay() evaluation with its clock reading) of real concurrent executions
    # on the event-logging twin of the scratch copy (harness/evinst), replayed step by step on Ekit.DelayQ.step under
    # the timer discipline the process really runs (lean/Driver/Ev/DelayQ.lean)
    dict(harness="evtrace", area="evtrace", name="evtrace-dq-sync", evinst=True, gen_args=["-targets", "dq"],
         env=dict(GODEBUG="asynctimerchan=0")),
    dict(harness="evtrace", area="evtrace", name="evtrace-dq-async", evinst=True, gen_args=["-targets", "dq"],
         env=dict(GODEBUG="asynctimerchan=1")),
]


def thorough_extra(work, res):
    # the same scenarios with the race detector (a race report makes the harness exit non-zero)
    for disc in ("0", "1"):
        t = steps.TraceCorr(work, res, "C08", harness="delayq", area="delayq", tier="quick",
                            name="delayq-race-atc" + disc, env=dict(DRIVER_ENV, GODEBUG="asynctimerchan=" + disc), race=True)
        t.run(proofs_ok=True)


CHECK = generic("C08", CORRS, skel=SKEL, thorough_extra=thorough_extra)

MANIFEST = dict(
    text=("Theorems in Lean 4 (Ekit/Props/C08.lean) about a transition-system model of queue/delay_queue.go whose steps are the "
          "atomic actions of the code (mutex, the two cond broadcast generations, per-call timer under BOTH timer-channel "
          "disciplines, virtual clock, contexts; any number of producers and consumers, every schedule and timing): the "
          "element removed by q.Dequeue() is expired at the removing step and no element in the queue has an earlier deadline "
          "(also after the re-lock/re-peek that follows a timer tick, stale or not: a stale tick only costs a loop iteration); "
          "a returned element is expired; nothing is lost or duplicated (queue ++ removed is a permutation of inserted, "
          "returned elements are distinct); len <= cap; a call about to return a context error has not touched the queue; the "
          "'cannot happen' error after Peek cannot happen. Review additions (Ekit/Props/C08Rev.lean): every Dequeue call that "
          "returns y contains its own pop of y between invocation and response, so any element present in the queue in every "
          "state of the call has a deadline >= y's (c08_whole_call_earliest: the property's 'whole duration of that call' "
          "clause, literally); and every TIMED history (invocations, responses and clock ticks) is a history of the timed "
          "atomic automaton whose clock only the ticks move and in which Dequeue takes effect only on a present, expired, "
          "minimal element (c08_linearizable_clocked; in c08_linearizable_timed the specification's clock is free, so that "
          "theorem alone says nothing about time). The model is tied to the code by the sync skeletons of every function "
          "of delay_queue.go regenerated on each run, and by timed concurrent histories of the real queue under "
          "GODEBUG=asynctimerchan=0 and =1 which the model must explain (linearization search over runs of the model's step "
          "function inside the calls' time brackets) and the property's own monitors must accept; and by synchronisation-event "
          "traces (harness/evinst + harness/evtrace target dq, driver area evtrace, lean/Driver/Ev/DelayQ.lean): an instrumented twin of "
          "the scratch copy logs every Lock/Unlock, the swap/fetch/close of the two cond generations with channel identities, every "
          "select arm, ctx observation, NewTimer/Reset/Stop (with Reset's result) and every Delay() evaluation with its clock reading "
          "(read inside the log mutex) in an order that is a legal order of the real execution; the model's step function must accept "
          "the log label by label under the timer discipline of the process - each logged action is the model's next synchronisation "
          "action of that thread and is ENABLED, the heap's root is fed to the model's peek oracle (present and of minimal deadline), the "
          "model's clock is moved to exactly the logged readings (so the model takes `delay <= 0` iff the code did and arms the timer "
          "with the same duration) and otherwise only as far as a received tick / an expired Reset proves, snapshots and results are the model's."),
    note=COMMON_NOTE + (" The internal heap is abstracted: Peek/Dequeue return an element of minimal deadline (heap correctness is C05: its heap model is re-validated against the real PriorityQueue by this check as well; "
                        "the comparator evaluates Delay() at two instants, the model compares deadlines exactly, i.e. 'up to "
                        "clock-resolution ties' as the property says; the dynamic oracle uses a 2 ms tolerance). Mutex, channel "
                        "close/receive, select, time.Timer (both asynctimerchan modes), context and the monotonic clock are "
                        "modelled by definition; timer accuracy is not modelled (a timer fires at or after its instant). "
                        "PriorityQueue never returns an error other than ErrOutOfCapacity/ErrEmptyQueue, so the two "
                        "'unknown error' default branches are not model states."),
    technique="Lean 4 invariant proofs over a transition-system model + regenerated sync skeletons + timed-history correspondence (model replay and property monitors)",
)
