"""The ConcurrentArrayBlockingQueue / ConcurrentLinkedBlockingQueue share of C09 (to be merged with
the DelayQueue share `C09b_part` into the final C09 module): correspondences, skeleton sources,
manifest text.
    from checklib.props.C09a_part import CORRS as BQ_CORRS, SKEL as BQ_SKEL, TEXT, NOTE, thorough_extra
Lean side: lean/Ekit/Props/C09a.lean (theorems c09a_*), lean/Audit/C09a.lean (the #print axioms lines to
append to Audit/C09.lean; Props/C09.lean must `import Ekit.Props.C09a`).  The skeleton theorems refer to
namespace Ekit.Gen.SkelC09, i.e. generic("C09", ..., skel=[... + SKEL]) (duplicates in the skel list are
harmless: `queue/delay_queue.go:cond` is contained in the DelayQueue share's `queue/delay_queue.go`)."""
from checklib import steps

CORRS = [dict(harness="bqueue", area="bqueuewake", name="bqueue-wake"),
         dict(harness="evtrace", area="evtrace", name="evtrace-bq", evinst=True, gen_args=["-targets", "abq,lbq"])]
SKEL = ["queue/concurrent_array_blocking_queue.go", "queue/concurrent_linked_blocking_queue.go", "queue/delay_queue.go:cond"]


def thorough_extra(work, res):
    steps.TraceCorr(work, res, "C09", harness="bqueue", area="bqueuewake", tier="quick", name="bqueue-wake-race", race=True).run(proofs_ok=True)


TEXT = ("Array/linked queues (Ekit/Props/C09a.lean, same transition systems as C07): the cond protocol never loses a wake-up "
        "(generation fetched while the lock is held; a parked waiter whose wait condition has been falsified holds a closed channel, or "
        "the close / the swap is pending in a thread whose next action is enabled; every superseded generation is closed exactly once); "
        "no reachable state is stuck (a call the specification enables can move, or the holder of the permit / lock / close duty it "
        "waits for can); the context arm is enabled at every blocking point once the context ended and a cancellation after winning a "
        "slot returns the permit; at quiescence after any cancellations enqFree = cap - count, deqFree = count, the lock is free and no "
        "close is pending; every own action decreases a variant (array) / decreases it except on the wake-up back edge, which is paid for "
        "by a broadcast (linked). Review additions (Props/C09aRev.lean): closed channels stay closed and a parked waiter on a closed channel stays enabled under every step of other threads, "
        "the owner of a pending close reaches it by its own enabled actions, a superseded waiter wakes whatever the queue looks like by then; from every reachable quiescent state k consecutive "
        "Enqueues complete unaided while count + k <= cap, the next one parks in Acquire, and cap Dequeues then complete unaided (array: exactly capacity; linked: fill/drain). "
        "Tied by skeleton equalities (incl. cond.signalCh/broadcast) and by stress runs with directed wake-up "
        "and cancellation-storm scenarios, incl. a woken waiter cancelled right after the wake-up; every call into the queue "
        "(also the sampler and the probes) is watched, a wedged queue (leaked lock) is reported within seconds and stops the run: no call stays blocked for the (seconds) bound while its enabling condition holds, none fails "
        "to return after its context ended, and the queue then accepts and delivers exactly capacity - len elements.")
NOTE = ("Residue (partial): wall-clock 'as soon as'/'promptly' and scheduler / mutex / semaphore fairness are not expressible; proved is "
        "enabledness + variant, checked dynamically is completion within a generous bound.")
