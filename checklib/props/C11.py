from checklib import steps
from checklib.registry import generic, COMMON_NOTE


def race_run(work, res):
    """thorough tier: the same quick-sized scenario mix with the harness built with -race
    (a race report makes the harness exit non-zero = reported as a crash with the case)"""
    steps.TraceCorr(work, res, "C11", harness="pool", area="pool", tier="quick", name="pool-race",
                    gen_args=["-prop", "C11"], race=True).run(proofs_ok=True)


# evtrace: every single synchronisation action of real concurrent executions of the pool (event-logging twin of the
# scratch copy, harness/evinst) replayed label by label on Ekit.Pool's own step function (Driver/Ev/Pool.lean)
EVTRACE = dict(harness="evtrace", area="evtrace", name="evtrace-pool", evinst=True, gen_args=["-targets", "pool"])

CHECK = generic("C11", [dict(harness="pool", area="pool", gen_args=["-prop", "C11"]), EVTRACE],
                thorough_extra=race_run, skel=["pool/task_pool.go"])

MANIFEST = dict(
    text='Same model as C10. Proved for every reachable state and valid configuration: totalGo <= maxGo (growth is decided and counted by the single holder of the CAS spin lock; everybody else only decrements under the mutex), workers inside task.Run <= totalGo <= maxGo, every States/numOfGo sample <= maxGo, no worker exists before a Start CAS succeeded, rank(created<running<closing<stopped) of the lifecycle behind the lock value never decreases, Start CAS succeeds at most once, Shutdown/ShutdownNow at most once between them, calls invoked after shutdown began never pass a CAS and return errors; constructor: whatever newPool accepts has 1<=initGo<=coreGo<=maxGo and 0<=rate<=1 for every option list, explicit rejection lemmas and the normalisation table.',
    note=COMMON_NOTE + " Modelled, not verified (definitions in Ekit/Model/Pool.lean): sequentially consistent atomics, sync.RWMutex, buffered/unbuffered/closed channels, select (any ready arm), one-shot timers (fire any time after arming), context cancellation, `go` statements; float64 queueBacklogRate comparison as an exact rational (exact for cap*1000 < 2^40; NaN rates are outside the model). The model is tied to pool/task_pool.go by (1) the regenerated sync skeletons of all 26 functions (equalities proved on every run), (2) the model's own step function used as an acceptor over all schedules for white-box sequential scenarios of the real pool (hook: state/totalGo/timeout-group/queue snapshot), (3) concurrent stress scenarios checked against the abstract laws. Ghost state (holder, pending, task table, counters) is never read by a guard.",
    technique='Lean 4 invariant proofs (mutual exclusion of the CAS lock, mutex local-copy invariant, live-worker counting) + model-as-acceptor correspondence + concurrent stress (high-water mark, States samples, lifecycle call log)',
)
