from checklib.registry import generic, COMMON_NOTE


def CHECK(work, res, tier):
    # GOTRACEBACK=none: an unrecoverable Go fatal error (e.g. "Unlock of unlocked RWMutex") is reported by its
    # message instead of a goroutine dump
    env = {"GOTRACEBACK": "none"}
    corrs = [dict(harness="syncx", area="syncx", env=env)]
    if tier == "thorough":
        # the same scripted cases and stress scenarios with the race detector on: the owner-variable
        # probe inside the critical sections is a plain variable, so broken exclusion is also a race report
        corrs.append(dict(harness="syncx", area="syncx", name="syncx-race", race=True, env=env))
    return generic("C14", corrs)(work, res, tier)


MANIFEST = dict(
    text=("Theorems in Lean 4 (Ekit/Props/C14.lean) over transition systems with any number of threads and any interleaving "
          "of the atomic steps of the methods as written: LimitPool (int32 counter as BitVec 32) keeps "
          "tokens = max - outstanding - failing in every reachable state, never has more than maxTokens successful Gets "
          "outstanding, and at quiescence with nothing borrowed has tokens = max so that exactly maxTokens further Gets succeed; "
          "SegmentKeysLock: index = FNV-1a(key bytes) mod size is a function of the contents and < size for size >= 1, and over the "
          "assumed RWMutex semantics a write hold excludes every other hold on an equal key, TryLock/TryRLock fail while it is held, "
          "read locks are shared, TryLock succeeds whenever nothing is held. The models are acceptors for traces of the real code "
          "(token counter, factory calls and segment index observed through hooks) and for concurrent stress summaries "
          "(outstanding high-water mark, quiescent conservation, owner-variable probe) on every run."),
    note=COMMON_NOTE + " Stated for 0 <= maxTokens < 2^31 (the constructor truncates int to int32) and at most 2^31 goroutines "
         "(int32 wrap); spurious Get failures under contention are allowed by the property and exhibited as a reachable schedule; "
         "sync.RWMutex / sync.Pool / atomic.Int32 semantics are assumed primitives; size = 0 panics at first use and is outside the "
         "property's quantifier.",
    technique="Lean 4 invariant proofs over executable transition systems (unbounded threads) + trace-acceptance and stress "
              "correspondence against the real syncx code",
)
