"""C14 — LimitPool bounds outstanding objects; SegmentKeysLock excludes per key."""
import os
import subprocess

from checklib import core, steps
from checklib.registry import generic, COMMON_NOTE

# canonical text the known-findings signature matches on (see known_findings.json: C14-T)
T_SIG = "C14-T: maxTokens >= 2^31 truncated to int32"
T_MAX = 2 ** 31 + 1
T_OPS = ["new limit %d" % T_MAX, "get 0"]
T_THEOREM = "c14_limitPool_truncation_witness"

# GOTRACEBACK=none: an unrecoverable Go fatal error (e.g. "Unlock of unlocked RWMutex") is reported by its
# message instead of a goroutine dump
ENV = {"GOTRACEBACK": "none"}


def _theorem_ok(res, name):
    return any(o["ok"] and o["name"].endswith("." + name) for o in res.obligations if o["name"].startswith("theorem "))


def _run(work, name, ops, modes, timeout=120):
    """ops on the real code, the Lean driver as oracle in each of `modes` -> (trace, {mode: verdict}) or None."""
    binp, _ = work.build("syncx")
    drv = steps.driver_path()
    if binp is None or drv is None:
        return None
    d = os.path.join(work.dir, "known-" + name)
    os.makedirs(d, exist_ok=True)
    op, tr = os.path.join(d, "ops.txt"), os.path.join(d, "trace.txt")
    with open(op, "w") as f:
        f.write("\n".join(ops) + "\n")
    try:
        p = subprocess.run([binp, "-mode", "run", "-ops", op, "-out", tr], env=dict(core.GOENV, **ENV),
                           stdout=subprocess.PIPE, stderr=subprocess.STDOUT, text=True, timeout=timeout)
    except subprocess.TimeoutExpired:
        return None
    if p.returncode != 0:
        return None
    verdicts = {}
    for mode in modes:
        vd = os.path.join(d, "verdict." + mode)
        with open(tr) as fin, open(vd, "w") as fout:
            subprocess.run([drv, mode, "syncx"], stdin=fin, stdout=fout, stderr=subprocess.PIPE, text=True, timeout=timeout)
        verdicts[mode] = [l.rstrip("\n") for l in open(vd)]
    return [l.rstrip("\n") for l in open(tr)], verdicts


def known_findings(work, res, tier, proofs_ok):
    """C14-T: NewLimitPool converts maxTokens to int32; for 2^31 < maxTokens < 2^32 the counter starts negative and no
    Get ever succeeds, although the property quantifies over all maxTokens >= 0.  Re-confirmed on every run: by the
    negative-witness theorem (part of this run's Lean build) and on the real code (two calls).  The reproduction is
    turned into a violation record whose `finding_signature` is set only after the record has been checked to be exactly
    that case; the model-mode driver must accept the same trace (the model predicts the defect)."""
    modes = ["spec"] if work.blackbox else ["spec", "model"]
    got = _run(work, "truncation", T_OPS, modes)
    thm = proofs_ok and _theorem_ok(res, T_THEOREM)
    if not got:
        if thm:
            res.notes.append("C14-T could not be run on the real code in this run; listed by its negative-witness theorem")
            res.violation("known corner of the stated quantifier, confirmed by its negative-witness theorem (part of this run's Lean build)",
                          {"harness": "syncx", "area": "syncx", "mode": "negative-witness", "finding": "C14-T",
                           "theorem": T_THEOREM, "history": "NewLimitPool(2^31+1); Get -> false with nothing outstanding",
                           "finding_signature": T_SIG + " [negative-witness theorem %s]" % T_THEOREM}, concrete=True)
        return
    trace, verdicts = got
    spec = verdicts["spec"]
    bad = [i for i, v in enumerate(spec) if not v.startswith("ok")]
    if bad:
        i = bad[0]
        rec = {"harness": "syncx", "area": "syncx", "mode": "spec", "ops": T_OPS, "trace": trace, "verdict": spec,
               "first_message": spec[i], "seed": res.seed}
        # exactly the known case: the constructor line was accepted, the single Get on the fresh pool returned false,
        # and maxTokens really is in the truncated range
        if (i == 1 and len(trace) == 2 and trace[0].startswith("new limit %d => ok" % T_MAX)
                and trace[1].startswith("get 0 => false") and 2 ** 31 < T_MAX < 2 ** 32):
            rec["finding_signature"] = "%s (maxTokens=%d: the first Get fails with nothing outstanding)" % (T_SIG, T_MAX)
        res.violation("a Get failed although nothing was outstanding and maxTokens > 0: " + spec[i], rec)
        model = verdicts.get("model")
        if model is not None and any(not v.startswith("ok") for v in model) and proofs_ok:
            res.violation("the model does not predict the observed behaviour of NewLimitPool(maxTokens >= 2^31): "
                          + next(v for v in model if not v.startswith("ok")),
                          {"broken": "C14-T model agreement", "ops": T_OPS, "trace": trace, "verdict": model}, concrete=False)
    elif thm:
        res.violation("known finding C14-T no longer reproduces on the real code although its negative-witness theorem "
                      "still holds: the model no longer describes NewLimitPool's conversion of maxTokens",
                      {"broken": "C14-T reproduction", "ops": T_OPS, "trace": trace, "verdict": spec}, concrete=False)


# evtrace: every single synchronisation action of real concurrent executions (event-logging twin of the scratch copy,
# harness/evinst) replayed step by step on the transition systems the theorems are about: each tokens.Add of LimitPool
# with its returned value, each Lock/Unlock/RLock/RUnlock/TryLock/TryRLock of SegmentKeysLock with the index of the
# mutex it was performed on (Driver/Ev/SyncX.lean).  Must come after the syncx correspondence (which installs the
# stub hooks when the white-box hooks no longer compile).
EVTRACE = dict(harness="evtrace", area="evtrace", name="evtrace-syncx", evinst=True, gen_args=["-targets", "limit,seg"], env=ENV)


def CHECK(work, res, tier):
    corrs = [dict(harness="syncx", area="syncx", env=ENV), EVTRACE]
    if tier == "thorough":
        # the same scripted cases and stress scenarios with the race detector on: the owner-variable
        # probe inside the critical sections is a plain variable, so broken exclusion is also a race report
        corrs.append(dict(harness="syncx", area="syncx", name="syncx-race", race=True, env=ENV))
    # schedule fuzzing in the search phase (first-use races, check-then-act windows)
    return generic("C14", corrs, extra=known_findings, yield_search=corrs[:1])(work, res, tier)


MANIFEST = dict(
    text=("Theorems in Lean 4 (Ekit/Props/C14.lean) over transition systems with any number of threads and any interleaving "
          "of the atomic steps of the methods as written: LimitPool (int32 counter as BitVec 32) keeps "
          "tokens = max - outstanding - failing in every reachable state, never has more than maxTokens successful Gets "
          "outstanding, and at quiescence with nothing borrowed has tokens = max so that exactly maxTokens further Gets succeed; "
          "SegmentKeysLock: index = FNV-1a(key bytes) mod size is a function of the contents and < size for size >= 1, and over the "
          "assumed RWMutex semantics a write hold excludes every other hold on an equal key, TryLock/TryRLock fail while it is held, "
          "read locks are shared, TryLock succeeds whenever nothing is held. A negative witness is proved for the known corner "
          "C14-T (maxTokens = 2^31+1 is truncated to int32 and no Get ever succeeds). The models are acceptors for traces of the real "
          "code (token counter, factory calls and segment index observed through hooks, with a black-box stub fallback) and for "
          "concurrent stress summaries (outstanding high-water mark, quiescent conservation, owner-variable probe) on every run; "
          "and for synchronisation-event traces: an instrumented twin of the scratch copy (harness/evinst) logs every tokens.Add "
          "(with the value it returned) and every Lock/Unlock/RLock/RUnlock/TryLock/TryRLock (with the position in s.locks of the "
          "mutex it was performed on and the Try answer) of concurrent scenarios in an order that is a legal order of the real "
          "execution, and the models' step functions must accept the log action by action (each logged action is the next action of "
          "that thread, ENABLED in the model's state; counter values, FNV-1a segment indices and call results equal the model's) - "
          "driver area evtrace."),
    note=COMMON_NOTE + " Partial: the LimitPool theorems assume 0 <= maxTokens < 2^31 (known finding C14-T: the constructor truncates "
         "int to int32; reproduced on the real code on every run) and at most 2^31 goroutines (int32 wrap); spurious Get failures "
         "under contention are allowed by the property and exhibited as a reachable schedule; sync.RWMutex / sync.Pool / "
         "atomic.Int32 semantics are assumed primitives; size = 0 panics at first use and is outside the property's quantifier.",
    technique="Lean 4 invariant proofs over executable transition systems (unbounded threads) + trace-acceptance and stress "
              "correspondence against the real syncx code",
)
