import os
import subprocess

from checklib import core, steps
from checklib.registry import generic, COMMON_NOTE

ANCHORED = [
    "list/copy_on_write_array_list.go", "list/concurrent_list.go",
    "queue/concurrent_linked_queue.go", "queue/concurrent_array_blocking_queue.go",
    "queue/concurrent_linked_blocking_queue.go", "queue/delay_queue.go", "queue/concurrent_priority_queue.go",
    "syncx/cond.go", "syncx/map.go", "syncx/limit_pool.go", "syncx/atomicx/atomic.go",
    "pool/task_pool.go", "retry/exponential.go", "retry/fixed_internal.go", "bean/copier/reflect_copier.go",
    # named in the property's statement (syncx.Pool, SegmentKeysLock), not in its anchor list:
    "syncx/pool.go", "syncx/segment_key_lock.go",
]


def pregen(work):
    """regenerate lean/Ekit/Generated/AccessTable.lean from the current tree (harness/accesstab);
    returns an error string or None"""
    binp, blog = work.build("accesstab")
    if binp is None:
        return "access-table extractor does not build: " + blog
    out = os.path.join(core.LEAN, "Ekit", "Generated", "AccessTable.lean")
    tmp = os.path.join(work.dir, "AccessTable.lean")
    rc, log = core.sh([binp, "-root", work.repo, "-out", tmp] + ANCHORED, env=core.GOENV, timeout=300)
    if rc != 0:
        return "access-table extractor failed (source outside the analysed subset?): " + log
    core.write_if_changed(out, open(tmp).read())
    return None


def _note_matrix_coverage(work, res):
    """evidence only (never an alarm): public entries of the regenerated table that the race matrix does not
    exercise (`new matrix T m1,m2,…` lines of the trace vs `entries` of Ekit/Generated/AccessTable.lean)"""
    import re
    trace = os.path.join(work.dir, "corr-races", "trace.txt")
    gen = os.path.join(core.LEAN, "Ekit", "Generated", "AccessTable.lean")
    if not (os.path.exists(trace) and os.path.exists(gen)):
        return
    listed = {}
    for line in open(trace):
        ws = line.split()
        if ws[:2] == ["new", "matrix"] and len(ws) >= 4:
            listed[ws[2]] = set(ws[3].split(","))
    src = open(gen).read()
    m = re.search(r"def entries : List \(String × String\) := \[(.*?)\n\]", src, re.S)
    if not m:
        return
    implicit = {("SegmentKeysLock", "Unlock"), ("SegmentKeysLock", "RUnlock")}
    missing = sorted("%s.%s" % (t, e) for t, e in re.findall(r'\("([^"]*)", "([^"]*)"\)', m.group(1))
                     if t in listed and e[:1].isupper() and ":" not in e and e not in listed[t] and (t, e) not in implicit)
    res.coverage["c15_public_methods_outside_race_matrix"] = missing


def extra(work, res, tier, proofs_ok):
    """directed search: when the regenerated table is no longer disciplined, the driver (model mode) names
    the method pairs with unprotected conflicting accesses (e.g. Get:read:vals[] vs Append:write:vals[]); those
    the matrix found clean are re-run heavier, both as the plain pair and as `directed` cases (all variants of
    one method against sequences "other mutators of the type as preparation, then the other method"),
    before settling for `no-failing-input-found`."""
    try:
        _note_matrix_coverage(work, res)
    except Exception:
        pass
    if proofs_ok or any(v[1] for v in res.violations):
        return      # nothing broken, or the matrix / sequence cases already produced a concrete race
    d = os.path.join(work.dir, "corr-races")
    trace, vm = os.path.join(d, "trace.txt"), os.path.join(d, "verdict.model")
    if not (os.path.exists(trace) and os.path.exists(vm)):
        return
    suspects = []
    for line, verdict in zip(open(trace), open(vm)):
        op, _, obs = line.strip().partition(" => ")
        if verdict.startswith("bad") and "access table" in verdict and obs.strip() == "clean":
            suspects.append(op)
    if not suspects:
        return
    binp, _ = work.build("races", race=True)
    drv = steps.driver_path()
    if binp is None or drv is None:
        return
    factor = 10 if tier == "quick" else 4
    ops = []
    for op in [o for o in suspects if o.split()[:2] == ["new", "pair"]][:16]:
        ws = op.split()
        n = str(int(ws[-1]) * factor)
        # the same pair, heavier; and the pair with every other mutator of the type as preparation steps
        # (a conflict may need a state only a sequence of calls produces, e.g. spare capacity)
        ops.append(" ".join(ws[:-1] + [n]))
        ops.append(" ".join(["new", "directed"] + ws[2:-1] + [n]))
    for op in [o for o in suspects if o.split()[:2] == ["new", "fresh"]][:8]:
        # the conflict may sit in lazy initialisation: more first uses of new instances, in every construction
        # form of the flagged type (`new fresh T <form> <rounds>`)
        ws = op.split()
        ops.append(" ".join(ws[:-1] + [str(int(ws[-1]) * factor)]))
    if not ops:
        return
    dd = os.path.join(work.dir, "corr-races-directed")
    os.makedirs(dd, exist_ok=True)
    opath, tpath, vpath = (os.path.join(dd, x) for x in ("ops.txt", "trace.txt", "verdict.spec"))
    with open(opath, "w") as f:
        f.write("\n".join(ops) + "\n")
    env = dict(core.GOENV, VERIF_SEED=str(res.seed))
    rc, log = core.sh([binp, "-mode", "run", "-ops", opath, "-out", tpath], env=env, timeout=1500)
    if rc != 0:
        return
    with open(tpath) as fin, open(vpath, "w") as fout:
        subprocess.run([drv, "spec", "races"], stdin=fin, stdout=fout, stderr=subprocess.PIPE, text=True, timeout=600)
    bad = core.first_bad(vpath)
    res.obligation("directed search on %d method pairs the regenerated table flags" % len(ops), bad is None)
    if bad is not None:
        idx, msg = bad
        tl = [l.rstrip("\n") for l in open(tpath)]
        res.violation("the implementation disagrees with the abstract specification: " + msg,
                      {"harness": "races", "area": "races", "mode": "spec", "ops": [ops[idx]], "trace": [tl[idx]],
                       "verdict": [msg], "first_message": msg, "seed": res.seed,
                       "broken_obligation": getattr(res, "broken_proof", None)}, concrete=True)


CHECK = generic("C15", [dict(harness="races", area="races", race=True)], extra=extra, pregen=pregen)

MANIFEST = dict(
    text=("Lean 4: (1) a trace model of Go's happens-before (program order, release->acquire of mutex/RWMutex, sequentially "
          "consistent atomics, publish->receive for channels/sync.Pool/Once/goroutine start) and the theorem that every "
          "well-formed trace conforming to a discipline table (per location: atomic-only | lock-protected with exclusive "
          "writes | read-only after publication | thread-local; constructor accesses before the first publication) has no "
          "data race - any number of goroutines, any client program (Ekit/Conc/Lockset.lean, c15_disciplined_raceFree); "
          "(2) the access table of the 15 anchored files (every read/write of every receiver field, element, inner-object "
          "field and package variable per public method / constructor / started goroutine, atomic or plain, with the "
          "receiver locks held on all paths) is REGENERATED from the Go source on every run by a flow-sensitive lockset "
          "analysis over the type-checked AST (helpers inlined, lock aliases derived from the constructors and compared "
          "with a hand-written table) and its discipline certificate is checked by the Lean kernel "
          "(c15_accessTable_disciplined); table + certificate give race freedom of every execution the table describes "
          "(c15_raceFree) and hand-off happens-before (c15_handoff_lock/atomic); (3) a pairwise method matrix (every pair "
          "of public methods of every type on one instance, 2-4 goroutines, payloads written before and read after the "
          "hand-off), a mixed stress and a writer-sequences-against-readers case per type (scripted and random sequences of the mutating methods: delete-tail-then-append, fill-then-drain, ...) run under the Go race detector, one subprocess per case; every type is built in each of its supported construction forms (every constructor, the struct literal / zero value where the type supports it - a literal syncx.Cond{L: l} -, each configuration with its own code path: bounded/unbounded, capacity 1, the kind of Locker, the wrapped List), the rounds of each case going through the forms, and a `fresh` case per (type, form) lets the FIRST uses of hundreds of new, unprimed instances come from 2-4 goroutines (lazy initialisation); when the table obligation breaks, a directed search stresses exactly the method pairs the driver names, with the other mutators as preparation steps; the Lean driver "
          "accepts only `clean` and, in model mode, only pairs the regenerated table declares conflict-free."),
    note=COMMON_NOTE + (" Residue: the access-table analysis is syntactic/intraprocedural with inlined helpers and summaries for "
                        "owned objects of other packages (written iff the callee assigns through its receiver); objects of recursive "
                        "types are abstracted by type; the Go memory model's treatment of mutexes, atomics, channels, sync.Pool, "
                        "sync.Once and goroutine start is assumed as happens-before edges inside the trace model's definition (not "
                        "Lean axioms); that real executions are instances of the table's rows (FromTable: extractor soundness, object "
                        "ownership, publication with a happens-before edge) is trusted and cross-checked on every run by the race "
                        "detector; state reached only through closures handed to unanalysed callees is covered dynamically only."),
    technique="lockset discipline => data-race freedom (Lean proof) + regenerated access table checked by kernel evaluation + race-detector pairwise matrix",
)
