from checklib.registry import generic, COMMON_NOTE
from checklib import steps

CHECK = generic("C02", [dict(harness="tree", area="treebal", timeout=900),
                        dict(harness="tree", area="rbptr", name="tree-ptr", timeout=900)],
                pregen=steps.pregen_rbtreego)

MANIFEST = dict(
    text=("Theorems in Lean 4 (Ekit/Props/C02.lean) about the functional red-black tree that mirrors internal/tree: the invariant "
          "RBInv (black root, no red node with a red child, equal black height on every path, keys strictly ascending, size = node "
          "count) holds after every history of Add/Delete/Set (insert fix-up and all delete fix-up cases incl. red sibling, "
          "successor splice, phantom leaf); RBInv implies height <= 2*log2(n+1); the descent of find/insert/delete makes at most "
          "height comparator calls; TreeSet, LinkedMap and MultiMap keep the invariant of their index tree and stay within the bound after "
          "every history from their constructors, the descents of addNode/Delete instrumented with one tick per comparator call "
          "return ins/del and cmpCount (Props/C02Rev.lean). Tied to /repo on every run: shape/colour dump equality of model and real tree after every call, "
          "an invariant audit executed on the real tree (incl. parent links), and the measured comparator-call count compared with "
          "the model's count exactly and with the bound. POINTER LEVEL (Ekit/Props/C02Ptr.lean): harness/minigo translates every function "
          "of the current internal/tree/red_black_tree.go into a deep embedding of a Go subset (Ekit/Generated/RBTreeGo.lean) whose "
          "interpreter (Ekit/MiniGo/Lang.lean: heap of nodes with left/right/parent pointers, nil dereference = panic, fuel for loops and "
          "calls) is what the theorems are about: after every history of Add/Delete/Find/Set from NewRBTree, for every comparator function "
          "and every fuel, the heap holds a tree without sharing or cycles in which the root has no parent, every child's parent link points "
          "back and every non-root node is a child of the node its parent link names (c02_ptr_history_parent_links), the reported size equals "
          "the number of nodes (c02_ptr_history_size) and, for every lawful comparator, the keys met by the in-order walk along the child "
          "pointers are strictly ascending (c02_ptr_history_ordered), and the tree is red-black coloured - black root, no red node with a red "
          "child, equal black height on every path (c02_ptr_history_rb) - hence at most 2*log2(n+1) high (c02_ptr_history_height); proved through a "
          "contract for all syntactically safe procedures (one induction over the syntax, so the fix-up procedures are covered whatever "
          "they do with colours) and lemmas for rotateLeft, rotateRight, addNode, deleteNode, findSuccessor (returns the in-order successor) and "
          "fixAfterDelete (its leaf argument stays a leaf and is never rotated up to the root), and the CLRS insertion and deletion fix-up "
          "arguments on the iterative parent-pointer code (RBPtrInsRB, RBPtrDelRB). The translated program is run "
          "against the real tree on every trace (area rbptr: results, size, colour/key/shape dump after every call)."),
    note=COMMON_NOTE + " Parent pointers do not exist in the functional model; their consistency is proved for the MiniGo "
         "translation of the source (regenerated on every run) and additionally established by the audit walker on the implementation "
         "after every call. Trusted there: the translator harness/minigo (a syntax dump) and the interpreter's reading of Go "
         "(evaluation order, nil dereference, loops) - both exercised against the real code by the rbptr correspondence; the pointer-level "
         "theorems come in two forms: conditional on the operation returning (c02_ptr_history_*), and unconditional (Props/C02Total.lean: "
         "c02_ptr_history_total / c02_ptr_history_all - for every history and every comparator function there is a fuel bound above which the "
         "interpreter completes the history without a nil dereference, an ill-typed step or a non-terminating loop, and every invariant holds "
         "at the end); the functional and the pointer-level model are related only through the real code "
         "(both must reproduce its dumps).",
    technique="Lean 4 invariant proof over all histories (red-black invariants preserved by insert/delete fix-ups; height bound; "
              "pointer-level parent/child consistency proved about the Go source translated to a deep embedding on every run) + "
              "white-box trace-acceptance correspondence and implementation-side audit",
)
