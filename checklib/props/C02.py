from checklib.registry import generic, COMMON_NOTE
from checklib import steps

CHECK = generic("C02", [dict(harness="tree", area="treebal", timeout=900),
                        dict(harness="tree", area="rbptr", name="tree-ptr", timeout=900)],
                pregen=steps.pregen_rbtreego)

MANIFEST = dict(
    text=("Theorems in Lean 4 (Ekit/Props/C02.lean) about the functional red-black tree that mirrors internal/tree: the invariant "
          "RBInv (black root, no red node with a red child, equal black height on every path, keys strictly ascending, size = node "
          "count) holds after every history of Add/Delete/Set (insert fix-up and all delete fix-up cases incl. red sibling, "
          "successor splice, phantom leaf); RBInv implies height <= 2*log2(n+1); the descent of find/insert/delete makes at most "
          "height comparator calls; TreeSet, LinkedMap and MultiMap keep the invariant of their index tree and stay within the bound after "
          "every history from their constructors, the descents of addNode/Delete instrumented with one tick per comparator call "
          "return ins/del and cmpCount (Props/C02Rev.lean). Tied to /repo on every run: shape/colour dump equality of model and real tree after every call, "
          "an invariant audit executed on the real tree (incl. parent links), and the measured comparator-call count compared with "
          "the model's count exactly and with the bound."),
    note=COMMON_NOTE + " Parent pointers do not exist in the functional model: their consistency is established by the audit "
         "walker on the implementation after every call, not by proof.",
    technique="Lean 4 invariant proof over all histories (red-black invariants preserved by insert/delete fix-ups; height bound) + "
              "white-box trace-acceptance correspondence and implementation-side audit",
)
