"""DelayQueue share of C09 (blocked calls wake; cancellation is prompt and clean).
Merged into checklib/props/C09.py together with the array / linked blocking-queue share:
    from checklib.props.C09b_part import CORRS as DELAY_CORRS, SKEL as DELAY_SKEL, TEXT, NOTE
Lean side: lean/Ekit/Props/C09b.lean (theorems c09_*), lean/Audit/C09b.lean (the #print axioms lines to
append to Audit/C09.lean; Props/C09.lean must `import Ekit.Props.C09b`).
The skeleton theorems refer to namespace Ekit.Gen.SkelC09 (generic("C09", ..., skel=[... + SKEL]))."""

import os as _os
from checklib import core as _core

SKEL = ["queue/delay_queue.go"]

# The harness confirms timing-sensitive complaints itself before they reach the pipeline: it is told where
# the Lean acceptor is (the freshly built driver, else the reference copy) and re-executes a scenario whose
# only complaints are timing-sensitive: the order of near deadlines, the model replay, and — only when the
# scheduling jitter measured during the scenario exceeded 200 ms — the second-scale bounds (wake-up, cancellation
# promptness, capacity probe, watchdog).  A second-scale bound missed on a quiet machine is hard evidence and is
# never re-executed (a lost wake-up is a race; a clean re-run must not discard it);
# see harness/delayq/main.go `confirm` and the header of lean/Driver/DelayQ.lean.
DRIVER_ENV = {"VERIF_DRIVER": _os.pathsep.join([_core.DRIVER, _os.path.join(_core.VERIF, "build", "driver.ref")])}

# same harness and driver area as C08, generator focused on parked calls, cancellations at every
# blocking point and bounded queues (capacity-conservation probe at the end of every bounded case)
CORRS = [
    dict(harness="delayq", area="delayq", name="delayq-wake-sync", gen_args=["-focus", "wake"],
         env=dict(DRIVER_ENV, GODEBUG="asynctimerchan=0")),
    dict(harness="delayq", area="delayq", name="delayq-wake-async", gen_args=["-focus", "wake"],
         env=dict(DRIVER_ENV, GODEBUG="asynctimerchan=1")),
    # evtrace: the park / wake / cancel structure action by action (fetch under the lock, close of the superseded generation,
    # the signal arm receiving from exactly the fetched generation, the ctx arm at every blocking point, timer arm + re-lock +
    # re-peek) of real concurrent executions replayed on Ekit.DelayQ.step (lean/Driver/Ev/DelayQ.lean)
    dict(harness="evtrace", area="evtrace", name="evtrace-dq-wake-sync", evinst=True, gen_args=["-targets", "dq"],
         env=dict(GODEBUG="asynctimerchan=0")),
    dict(harness="evtrace", area="evtrace", name="evtrace-dq-wake-async", evinst=True, gen_args=["-targets", "dq"],
         env=dict(GODEBUG="asynctimerchan=1")),
]

TEXT = ("DelayQueue share (Ekit/Props/C09b.lean, same transition system as C08, any number of threads, both timer "
        "disciplines): the signal generation is fetched before the lock is released; a parked Dequeue/Enqueue that "
        "missed an insertion/removal holds a superseded generation, and every superseded generation is closed or has a "
        "thread inside broadcast whose remaining steps are all enabled (no lost wake-up, incl. 'a newly enqueued element "
        "that expires first'); no reachable state is stuck or panics (every thread has an enabled step unless it waits "
        "for the mutex, whose holder can move, or sits in a select with no ready arm); a Dequeue parked on its timer is "
        "woken by time alone; the ctx arm is enabled at every blocking point and is effect-free; at quiescence after any "
        "history the lock is free and the queue accepts exactly cap-len more elements, the next one parks. "
        "Review additions (Ekit/Props/C09bRev.lean): one close enables the signal arm of EVERY call parked on that "
        "generation (c09_broadcast_wakes_all); a woken Dequeue/Enqueue that is then left alone (lock free, ctx alive, its "
        "condition holds) reaches its successful return in a fixed number of its own steps without parking again, a timer "
        "waiter by the passage of time alone (c09_*_completes_solo, c09_timer_dequeue_completes_by_time_alone); a futile "
        "wake-up re-parks on the current un-closed generation having missed nothing; at quiescence, once expired, solo "
        "Dequeues deliver ALL elements exactly once, and an empty bounded queue accepts and delivers exactly cap elements "
        "(c09_drains_at_quiescence, c09_accepts_and_delivers_capacity). "
        "Tied to the code by the regenerated sync skeletons of every function of delay_queue.go and by timed concurrent "
        "histories of the real queue (wake-up within 2 s of the enabling event, return within 2 s of the end of the call's context, no hang, capacity probe after cancellations; directed scenarios race the waiter against its waker and cancel the consumer that received a wake-up), and by synchronisation-event traces of an instrumented twin (harness/evinst, harness/evtrace target dq) "
        "which the model's step function must accept label by label: the channel a parked call receives from is the generation it fetched under the lock, the channel a broadcast closes is the generation it superseded, the ctx arm is only taken once the context ended.")

NOTE = (" DelayQueue share: wall-clock promptness, scheduler fairness and time.Timer accuracy are not expressible; proved is "
        "enabledness (c09_delay_promptness_partial) and completion of a woken call in the ABSENCE of interference (C09bRev), "
        "not completion under interference (a woken consumer may legitimately loop when another consumer took the "
        "element: that needs fairness). Mutex, channels, select, timers (both asynctimerchan "
        "modes) and context are modelled by definition.")

