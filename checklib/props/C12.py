import os
import re

from checklib import core
from checklib import steps
from checklib.registry import generic, COMMON_NOTE

# The two recorded defects of graceful Shutdown (DESIGN §5 C12, §6 #6 and #13; known_findings.json).
FINDINGS = {
    "C12-F1": dict(classification="last totalGo decrement at the idle-timeout exit while closing",
                   theorem="c12_idle_exit_hang"),
    "C12-F2": dict(classification="totalGo=0 while running with queued tasks",
                   theorem="c12_core_exit_strand"),
}


def known_findings(work, res, tier, proofs_ok):
    """Confirm the known findings: (1) by their negative-witness theorems (part of the Lean build that
    just ran: Ekit/Props/C12.lean, audited), (2) by every hang of the real code observed in this run's
    stress that the Lean classifier (driver area `poolkf`) puts into one of the two families.
    Every confirmation is reported through res.violation with a record carrying the classification, so
    that only the signatures of known_findings.json turn it into a KNOWN-FINDING line.
    Any other hang was already rejected by the `pool` area and is an ordinary VIOLATION."""
    audited = {o["name"].split(".")[-1] for o in res.obligations if o.get("ok") and o["name"].startswith("theorem ")}
    observed = {}
    trace = os.path.join(work.dir, "corr-pool", "trace.txt")
    if os.path.exists(trace) and os.path.exists(core.DRIVER):
        out = os.path.join(work.dir, "corr-pool", "verdict.poolkf")
        try:
            core.run_driver("spec", "poolkf", trace, out, timeout=600)
            for line in open(out):
                m = re.match(r"bad known-finding (C12-F\d) count=(\d+) how=(\S+)", line)
                if m:
                    d = observed.setdefault(m.group(1), {"count": 0, "how": set()})
                    d["count"] += int(m.group(2))
                    d["how"].add(m.group(3))
        except Exception as e:  # the reporting step must never turn into a failure of its own
            res.notes.append("poolkf classification step failed: %r" % (e,))
    for fid, f in sorted(FINDINGS.items()):
        confirmed = proofs_ok and f["theorem"] in audited
        obs = observed.get(fid)
        if confirmed or obs:
            rec = {"finding": fid, "classification": f["classification"],
                   "negative_witness_theorem": f["theorem"] if confirmed else None,
                   "hangs_on_real_code_this_run": obs["count"] if obs else 0,
                   "observed_in": sorted(obs["how"]) if obs else []}
            res.violation("known finding %s confirmed (%s%s)" % (
                fid, "negative-witness theorem %s checked" % f["theorem"] if confirmed else "theorem not checked this run",
                "; %d hang(s) of the real code classified into this family" % obs["count"] if obs else ""), rec,
                concrete=bool(obs))
            res.coverage.setdefault("known_findings", {})[fid] = {k: v for k, v in rec.items()}
        else:
            k = [x for x in core.load_known() if x.get("id") == fid]
            what = k[0]["what"] if k else f["classification"]
            res.known.append("KNOWN-FINDING: property=C12 %s (%s) [not re-confirmed in this run: its negative-witness "
                             "theorem did not check and no hang of this family was observed]" % (what, fid))



def race_run(work, res):
    """thorough tier: the same quick-sized scenario mix with the harness built with -race
    (a race report makes the harness exit non-zero = reported as a crash with the case)"""
    steps.TraceCorr(work, res, "C12", harness="pool", area="pool", tier="quick", name="pool-race",
                    gen_args=["-prop", "C12"], race=True).run(proofs_ok=True)


# evtrace: every single synchronisation action of real concurrent executions of the pool (event-logging twin of the
# scratch copy, harness/evinst) replayed label by label on Ekit.Pool's own step function (Driver/Ev/Pool.lean)
EVTRACE = dict(harness="evtrace", area="evtrace", name="evtrace-pool", evinst=True, gen_args=["-targets", "pool"])

CHECK = generic("C12", [dict(harness="pool", area="pool", gen_args=["-prop", "C12"]), EVTRACE], extra=known_findings,
                thorough_extra=race_run, skel=["pool/task_pool.go"])

MANIFEST = dict(
    text="Same model as C10. VIOLATED on the pinned tree in two recorded ways: negative-witness theorems c12_idle_exit_hang and c12_core_exit_strand replay the DESIGN schedules (50 and 93 labels) through the model's run by kernel evaluation and prove the end state dead for ever (no continuation closes the done channel; stranded tasks never run). Proved in full: c12_done_not_early / c12_done_all_ran (done closed gracefully => queue empty, totalGo=0, no live worker, every accepted task ran). Proved partially: c12_shutdown_completes_partial / c12_not_dead_partial (under badExits=0 and a worker at Shutdown time the pool is never dead), unconditional for fixed-size pools (c12_fixed_size_*). Dynamic side: hangs of the real code are classified by the Lean driver; the two recorded families are reported as KNOWN-FINDING, any other hang is a VIOLATION.",
    note=COMMON_NOTE + " Modelled, not verified (definitions in Ekit/Model/Pool.lean): sequentially consistent atomics, sync.RWMutex, buffered/unbuffered/closed channels, select (any ready arm), one-shot timers (fire any time after arming), context cancellation, `go` statements; float64 queueBacklogRate comparison as an exact rational (exact for cap*1000 < 2^40; NaN rates are outside the model). The model is tied to pool/task_pool.go by (1) the regenerated sync skeletons of all 26 functions (equalities proved on every run), (2) the model's own step function used as an acceptor over all schedules for white-box sequential scenarios of the real pool (hook: state/totalGo/timeout-group/queue snapshot), (3) concurrent stress scenarios checked against the abstract laws. Ghost state (holder, pending, task table, counters) is never read by a guard.",
    technique='Lean 4 invariant proofs + machine-checked negative witnesses (explicit traces, dead-state stability) + aimed stress of the real code with hang classification',
)
