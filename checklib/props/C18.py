from checklib.registry import generic, COMMON_NOTE

CHECK = generic("C18", [dict(harness="sqlx", area="sqlx")])

MANIFEST = dict(
    text=("Theorems in Lean 4 (Ekit/Props/C18.lean) about an executable model of sqlx/encrypt.go and sqlx/json.go "
          "(Ekit/Model/Sqlx.lean) that is parameterised by an abstract AEAD, an abstract JSON codec and the nonce: "
          "binary.Read . binary.Write = id for all ten sized numeric types and every value (Nat-level induction on the "
          "big-endian bytes, then BitVec), trailing bytes ignored, short plaintexts are errors; int/uint survive the trip "
          "through 64 bits (also for any int width <= 64); Scan(Value(x)) restores x with Valid=true for every arm of the "
          "type switch, every value, every legal key, every 12-byte nonce and every receiver state, from []byte and string "
          "src (hypotheses: AEAD correctness; JSON-representability of x for JSON-serialised T); two encryptions differ "
          "whenever their nonces differ; Scan and Value never panic for ANY bytes/key/src (the nonce split is guarded; "
          "Go's slicing is partial in the model); bad key lengths, invalid columns, wrong src types, stored values "
          "shorter than the nonce are errors that leave the column untouched; under the explicit IdealAEAD hypothesis "
          "every src that is not byte-for-byte a genuine stored value under the scanning key (every bit flip, every "
          "truncation, every extension, every other key) is rejected; JsonColumn: invalid => SQL NULL, "
          "Scan(Value(x)) = x for representable x, malformed / wrongly typed input => error, nil => no-op, no panics. "
          "Tie: the harness does its own AES-GCM and encoding/json; Value() outputs are opened and the plaintext compared "
          "byte for byte with the model's serialisation, harness-sealed plaintexts of every length 0..9 (and longer) are "
          "scanned, genuine ciphertexts are corrupted (every single-bit flip for fixed-width types, every truncation "
          "length, appended bytes, wrong keys of legal and illegal length, wrong src types) and every call's result "
          "class, Val and Valid are compared with the model; the abstract specification decides real violations."),
    note=COMMON_NOTE + (" 'Any altered bit is rejected' is AES-GCM's authenticity: it is the explicit hypothesis IdealAEAD "
                        "(nothing opens except genuinely sealed triples) of the c18_*_rejected theorems, never an axiom, and "
                        "is exercised on the real crypto/cipher by the corruption stream. AEAD correctness, encoding/json "
                        "(marshal / unmarshal-into-receiver, instantiated per line from the harness's own json calls) and "
                        "encoding/binary's ReadFull semantics are parameters/modelled, not verified; nonce freshness is "
                        "crypto/rand's. json.Unmarshal MERGES into a non-empty map/struct receiver, so for JSON-serialised T "
                        "the round trip is stated (and demanded by the spec oracle) only when encoding/json itself restores x "
                        "into that receiver; the stats field genuine_scans_merged_into_prior_value counts observed merges. "
                        "Error identity is compared only up to a class (ekit's own errors are one class)."),
    technique="Lean 4 round-trip/totality proofs over an executable model parameterised by abstract AEAD + JSON codec (laws as hypotheses) + byte-for-byte trace-acceptance correspondence with harness-side AES-GCM",
)
