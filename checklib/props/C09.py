"""TEMPORARY — the c08 agent's private C09 check (DelayQueue share only); replaced by the merged C09.py."""
from checklib.registry import generic, COMMON_NOTE
from checklib.props.C09b_part import CORRS, SKEL, TEXT, NOTE

CHECK = generic("C09", CORRS, skel=SKEL)

MANIFEST = dict(text=TEXT, note=COMMON_NOTE + NOTE,
                technique="Lean 4 invariant + enabledness proofs over a transition-system model, regenerated sync skeletons, timed concurrent histories")
