"""C09 = the array/linked blocking-queue share (C09a_part) + the DelayQueue share (C09b_part)."""
from checklib.registry import generic, COMMON_NOTE
from checklib.props import C09a_part as A
from checklib.props import C09b_part as B

CHECK = generic("C09", A.CORRS + B.CORRS, skel=A.SKEL + B.SKEL, thorough_extra=A.thorough_extra)

MANIFEST = dict(
    text=A.TEXT + " " + B.TEXT,
    note=COMMON_NOTE + " " + A.NOTE + B.NOTE,
    technique="Lean 4 invariant/enabledness/variant proofs over the C07 and C08 transition systems + regenerated sync skeletons + stress runs with directed wake-up and cancellation scenarios",
)
