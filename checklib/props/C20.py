from checklib.registry import generic, COMMON_NOTE


def CHECK(work, res, tier):
    # the `conc` ops run one shared copier from 8 goroutines; in the thorough tier the harness is built with -race
    # second trace (family heldconc): goroutines that share one copier AND option values held by the caller. It is a run of
    # its own because a data race on a shared option value can end the process (fatal "concurrent map writes"), which must
    # not take the sequential histories of the first trace with it: those are judged first, call by call.
    return generic("C20", [dict(harness="copier", area="copier", race=(tier == "thorough")),
                           dict(harness="copier", area="copier", name="copier-heldconc", gen_args=["-family", "heldconc"],
                                race=(tier == "thorough"))])(work, res, tier)


MANIFEST = dict(
    text=("Theorems in Lean 4 (Ekit/Props/C20.lean) over a deep embedding of Go types (all finite type trees: basic kinds, defined "
          "types with identity, slice/array/map/chan/func/interface/unsafe pointer, pointers, structs with (name, exported, type) "
          "fields, time.Time) and values, with every partial reflect call (NumField/Field/Elem/Set/Interface) modelled as a panic: "
          "NewReflectCopier never panics for ANY type pair; CopyTo/Copy on a built copier never panic for any well-typed values and "
          "options and keep the destination well-typed; a successful call satisfies the abstract relation Spec.copyRel (every matched "
          "copyable leaf equals the source's, through nested structs and single pointers, zero source leaves skipped; ignored / "
          "unmatched / unexported fields untouched; converters applied) with clause-by-clause corollaries; the pure CopyTo never panics "
          "and satisfies the same relation without zero-skip; on the family basic/slice/map/nested struct/pointers the two copiers agree "
          "on a fresh destination whenever both succeed, and both succeed when corresponding field types are identical. The model "
          "(createFieldNodes trie incl. indices and leaf flags, copyTreeNode incl. the partially written destination after an error, "
          "option cloning, pure copyStruct/copyStructField/copyData) is an acceptor for the real code on ~50 hand-declared struct pairs "
          "through the generic API and thousands of reflect.StructOf-generated pairs per run, incl. a copier shared by 8 goroutines."),
    note=COMMON_NOTE + (" Types are finite trees: recursive declarations (type N struct{Next *N}) are outside the family — on the real "
                        "code NewReflectCopier[N,N] overflows the stack (replay: VERIF_C20_RECURSIVE=1 ./check C20). Nil *Src/*Dst "
                        "arguments of the call itself are outside the quantifier (the model predicts the panics, `nilarg` lines). "
                        "Source immutability is structural in the functional model and checked dynamically per call (deep compare). "
                        "Converters are assumed not to panic and to return values of their declared type. Floats/complex values are "
                        "exercised with integral values only; reflect.StructOf pairs go through a hook that repeats NewReflectCopier's "
                        "five-line prologue."),
    technique="Lean 4 deep embedding of reflect types/values, refinement of an abstract copy relation by induction on type depth + trace-acceptance correspondence (trie dumps, destination dumps) against the real copiers",
)
